"""C01 -- map-family results equal sequential evaluation for every input and configuration."""
from checks import c02


def run(ctx):
    return c02.run_generic(ctx, 'C01', ('map', 'map_unordered', 'imap', 'imap_unordered'))


replay = c02.replay

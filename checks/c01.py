"""C01 -- map-family results equal sequential evaluation for every input and configuration."""
import random

from checks import c02
from lib import scen as S, runner


def history_part(ctx):
    """C01 also quantifies over keep_alive and over the pool's extra arguments: a few call histories with
    settings changing between calls; every call's result must equal the sequential reference"""
    rng = random.Random(ctx['seed'] + 101)
    sms = ['fork', 'threading', 'forkserver', 'spawn']
    scens = [S.gen_history(rng, k, ctx['tier'], sms) for k in range(12 if ctx['tier'] == 'quick' else 100)]
    recs = runner.run_many(scens, 'c01_hist', jobs=10)
    out, n = [], 0
    for rec in recs:
        if rec['status'] != 'done' or not rec['result']:
            out.append((rec, f"scenario did not finish: {rec['status']}"))
            continue
        for c, o in zip(rec['scenario']['calls'], rec['result']['calls']):
            if c.get('kind') == 'apply_batch':
                msg = S.check_apply_batch(c, o)
                if msg:
                    out.append((rec, msg))
                    break
                continue
            if 'n' not in c:
                continue
            n += 1
            msg = S.check_value(c, o) or S.check_own_function(c, rec)
            if msg:
                out.append((rec, f"call base={c['base']}: {msg}"))
                break
    return recs, out, n


def reorder_differential(rng, n):
    """the REAL reorder loop of WorkerPool.imap (imap_unordered replaced by a given arrival order) against the Coq model"""
    import json, os, subprocess
    from lib.common import coq_eval, WORK, REPO, VERIF, PY
    cases = []
    for _ in range(n):
        m = rng.choice([0, 1, 2, 5, 9, 14])
        arr = list(range(m))
        rng.shuffle(arr)
        if rng.random() < 0.2:
            arr = arr[::-1]
        cases.append(arr)
    d = os.path.join(WORK, 'c01k.%d' % os.getpid())          # per process: quick and thorough may run at the same time
    os.makedirs(d, exist_ok=True)
    json.dump(cases, open(os.path.join(d, 'cases.json'), 'w'))
    env = dict(os.environ, PYTHONPATH=f"{REPO}:{os.path.join(VERIF, 'harness')}", PYTHONHASHSEED='0')
    subprocess.run([PY, os.path.join(VERIF, 'harness', 'c01_impl.py'), os.path.join(d, 'cases.json'), os.path.join(d, 'out.json')],
                   env=env, check=True, timeout=120)
    impl = json.load(open(os.path.join(d, 'out.json')))
    bodies = ["(imap_yields nat ([" + "; ".join(f"({i}, {i * 7 + 1})" for i in arr) + "]%nat : list (nat * nat)))" for arr in cases]
    got = coq_eval('c01k', "From Coq Require Import List ZArith.\nImport ListNotations.\nFrom Mpv Require Import Reorder.\nOpen Scope Z_scope.\n",
                   bodies, jobs=2)
    bad = []
    for arr, r, g in zip(cases, impl, got):
        want = "[" + "; ".join(str(x) for x in r) + "]"
        if g.replace(' ', '').replace('%nat', '') != want.replace(' ', ''):
            bad.append(dict(arrival=arr, implementation=r, model=g))
    return len(cases), bad


def run(ctx):
    res = c02.run_generic(ctx, 'C01', ('map', 'map_unordered', 'imap', 'imap_unordered'))
    nk, kbad = reorder_differential(random.Random(ctx['seed'] + 1001), 150 if ctx['tier'] == 'quick' else 1500)
    res['coverage']['reorder_cases'] = nk
    res['coverage']['evaluations'] += nk
    if kbad:
        res['violations'].append(dict(found_input=True, what=f"imap reorder loop differs from the model: {str(kbad[0])[:300]}",
                                      signature='C01:reorder', replay=dict(kind='scenario', reorder=kbad[0], scenario={})))
    recs, bad, n = history_part(ctx)
    for rec, msg in bad[:2]:
        again = runner.run_many([rec['scenario']] * 2, 'c01_hist_re', jobs=2)
        still = [r for r in again if r['status'] != 'done' or any(
            (S.check_value(c, o) or S.check_own_function(c, r)) if 'n' in c else S.check_apply_batch(c, o)
            for c, o in zip(r['scenario']['calls'], (r['result'] or {'calls': []})['calls']) if 'n' in c or c.get('kind') == 'apply_batch')]
        if still:
            res['violations'].append(dict(found_input=True, what=msg, signature='C01:history',
                                          replay=dict(kind='scenario', scenario=rec['scenario'], got=msg, history=True)))
    res['coverage']['history_scenarios'] = len(recs)
    res['coverage']['history_calls_checked'] = n
    res['coverage']['evaluations'] += len(recs)
    return res


def replay(payload):
    if payload.get('history'):
        recs = runner.run_many([payload['scenario']], 'replay', jobs=1, keep=True)
        r = recs[0]
        print("status:", r['status'])
        bad = r['status'] != 'done'
        for c, o in zip(r['scenario']['calls'], (r['result'] or {'calls': []})['calls']):
            if 'n' in c or c.get('kind') == 'apply_batch':
                m = (S.check_value(c, o) or S.check_own_function(c, r)) if 'n' in c else S.check_apply_batch(c, o)
                if m:
                    print("oracle:", m)
                    bad = True
        return 1 if bad else 0
    return c02.replay(payload)

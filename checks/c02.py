"""C02 -- every task is executed exactly once (C01 shares this module's machinery)."""
import random
import time

from lib import scen as S, runner, conf
from lib.common import build_props

GROUPS = ['GenProto', 'GenChunk']


def analyse(recs, prop):
    """common to C01/C02: run oracles + conformance on finished map scenarios"""
    violations, hangs, n_ok = [], [], 0
    inst_cases, sel_cases = [], []
    for rec in recs:
        call = rec['scenario']['calls'][0]
        if rec['status'] != 'done' or not rec['result'] or not rec['result']['calls']:
            hangs.append(rec)
            continue
        out = rec['result']['calls'][0]
        msg = None
        if prop == 'C01':
            msg = S.check_value(call, out)
        else:
            msg = S.check_exactly_once(call, rec, out.get('outcome') == 'ok')
            if msg is None and out.get('outcome') != 'ok':
                msg = f"call raised {out['exc']['type']}: {out['exc']['args']}"
        if msg:
            violations.append((rec, msg))
        else:
            n_ok += 1
        if not rec['scenario']['pool'].get('keep_alive'):
            inst_cases += [(dict(d, scenario=rec['scenario']['id']), t, o) for d, t, o in conf.instance_cases(rec)]
            sel_cases += [(dict(d, scenario=rec['scenario']['id']), t, o) for d, t, o in conf.selection_cases(rec)]
    return violations, hangs, n_ok, inst_cases, sel_cases


def run_generic(ctx, prop, kinds):
    rng = random.Random(ctx['seed'] + (1 if prop == 'C02' else 0))
    t0 = time.time()
    proof = build_props(prop, GROUPS)
    count = 48 if ctx['tier'] == 'quick' else 400
    scens = S.gen_map_scenarios(rng, count, ctx['tier'], kinds=kinds)
    recs = runner.run_many(scens, prop.lower(), jobs=10)
    violations, hangs, n_ok, inst_cases, sel_cases = analyse(recs, prop)
    out_v = []
    for rec, msg in violations[:3]:
        # re-run twice before reporting (soundness of alarms)
        again = runner.run_many([rec['scenario']] * 2, prop.lower() + '_re', jobs=2)
        v2, h2, _, _, _ = analyse(again, prop)
        if v2 or h2:
            out_v.append(dict(found_input=True, what=msg, signature=f"{prop}:{rec['scenario']['calls'][0]['kind']}",
                              replay=dict(kind='scenario', scenario=rec['scenario'], got=msg, reproduced=len(v2) + len(h2))))
    for rec in hangs[:2]:
        again = runner.run_many([rec['scenario']], prop.lower() + '_re', jobs=1)
        if again[0]['status'] != 'done':
            out_v.append(dict(found_input=True, what=f"scenario did not finish: {rec['status']}",
                              signature=f"{prop}:hang", replay=dict(kind='scenario', scenario=rec['scenario'],
                                                                   got=rec['status'], stacks=rec['stacks'][-3000:],
                                                                   stderr=rec['stderr'][-1500:])))
    broken = proof['failed_obligation']
    conf_bad = []
    conf_err = None
    if proof['ok']:
        try:
            conf_bad = conf.evaluate(inst_cases, prop.lower() + '_inst') + conf.evaluate(sel_cases, prop.lower() + '_sel')
        except Exception as e:
            conf_err = str(e)[:600]
    if broken is None and conf_err:
        broken = "trace conformance could not be evaluated: " + conf_err
    if broken is None and conf_bad:
        d, got, obs = conf_bad[0]
        broken = (f"trace conformance (Model/Conf.v vs per-actor logs): {len(conf_bad)} of {len(inst_cases) + len(sel_cases)} "
                  f"actor traces differ; first: {d} model={got[:30]} observed={obs[:30]}")
    nontriv = len({(r['scenario']['pool']['n_jobs'], r['scenario']['pool'].get('start_method'),
                    str(sorted(r['scenario']['calls'][0].get('params', {}).items())), r['scenario']['calls'][0]['kind'],
                    r['scenario']['calls'][0]['n'], r['scenario']['calls'][0].get('input')) for r in recs
                   if r['status'] == 'done' and r['scenario']['calls'][0]['n'] >= 2})
    cov = dict(evaluations=len(recs), distinct_nontrivial=nontriv,
               rule="seeded structured scenarios (n_jobs, start method, input kind, element kind, chunking, max_tasks_active, "
                    "lifespan, order_tasks, extras, init/exit, map variant) run on the real pool under the hook; oracle: "
                    "results vs sequential reference (C01) / user-function invocation log vs inputs (C02); every worker "
                    "instance's own log replayed through Core.step (Model/Conf.v) and every add_task through the generated "
                    "selection kernel; non-trivial = distinct configuration with >= 2 tasks that finished",
               samples=[dict(scenario=recs[i]['scenario'], status=recs[i]['status'],
                             value=str((recs[i]['result'] or {}).get('calls', [{}])[0].get('value'))[:200] if recs[i]['result'] else None)
                        for i in (0, len(recs) // 2)],
               distribution=S.distribution(scens), finished_ok=n_ok, unfinished=len(hangs),
               traces_validated_against_impl=len(inst_cases) + len(sel_cases), trace_mismatches=len(conf_bad),
               oracle_failures=len(violations))
    return dict(proof=proof, violations=out_v, broken_obligation=broken, coverage=cov, wall_s=time.time() - t0)


def history_failures(rec):
    """C02 on a pool used for several calls: every call's tasks executed exactly once, by the call's own function"""
    if rec['status'] != 'done' or not rec['result']:
        return f"scenario did not finish: {rec['status']}"
    for c, o in zip(rec['scenario']['calls'], rec['result']['calls']):
        if c.get('kind') == 'apply_batch':
            msg = S.check_apply_batch(c, o)
        elif 'n' in c:
            msg = (None if o.get('outcome') == 'ok' else f"call base={c['base']} raised {o['exc']['type']}: {o['exc']['args'][:120]}") \
                or S.check_own_function(c, rec)
        else:
            msg = None
        if msg:
            return msg
    return None


def run(ctx):
    res = run_generic(ctx, 'C02', ('map', 'map_unordered', 'imap', 'imap_unordered'))
    rng = random.Random(ctx['seed'] + 202)
    sms = ['fork', 'threading', 'forkserver', 'spawn']
    scens = [S.gen_history(rng, k, ctx['tier'], sms) for k in range(16 if ctx['tier'] == 'quick' else 150)]
    for k in range(4 if ctx['tier'] == 'quick' else 24):
        # workers running function A (kept alive, or started by apply), then apply tasks with function B, then a PLAIN map call
        # with function B (no init / exit / lifespan / timeouts: its parameters equal the ones apply_async would record)
        mk = lambda base, fn: {'kind': rng.choice(['map', 'map_unordered', 'imap', 'imap_unordered']), 'n': rng.choice([3, 8]), 'input': 'list',
                               'elem': 'scalar', 'params': {}, 'base': base, 'func': fn}
        calls = [mk(1000, 'task2'),
                 {'kind': 'apply_batch', 'jobs': [{'id': i, 'args': [2700 + i], 'cbs': [False, False]} for i in range(2)], 'get_timeout': 30, 'no_join': True,
                  'dynamic_extras': True},          # the same function object as the map call below
                 mk(3000, 'task'), mk(4000, 'task2'), {'kind': 'stop_and_join'}]
        scens.append(S.annotate_history({'id': f'ha{k}', 'pool': {'n_jobs': rng.choice([1, 2, 3]), 'start_method': sms[k % 4], 'keep_alive': True},
                                         'calls': calls, 'budget': 75, 'behaviour': {'task': []}}))
    recs = runner.run_many(scens, 'c02_hist', jobs=10)
    n = 0
    for rec in recs:
        msg = history_failures(rec)
        n += 1
        if msg:
            again = runner.run_many([rec['scenario']] * 2, 'c02_hist_re', jobs=2)
            if any(history_failures(r) for r in again):
                res['violations'].append(dict(found_input=True, what=msg, signature='C02:history',
                                              replay=dict(kind='scenario', scenario=rec['scenario'], got=msg, history=True)))
                break
    res['coverage']['history_scenarios'] = n
    res['coverage']['evaluations'] += n
    res['coverage']['rule'] = res['coverage'].get('rule', '') + (
        "; plus histories on one pool (other functions and parameters, the same call again after others, kept-alive workers, "
        "lifespans, setters, apply batches in between): every call's tasks are executed exactly once by the call's OWN function "
        "(the user functions log which function was entered)")
    return res


def replay(payload):
    recs = runner.run_many([payload['scenario']], 'replay', jobs=1, keep=True)
    if payload.get('history') and payload['property'] == 'C02':
        msg = history_failures(recs[0])
        print("status:", recs[0]['status'])
        if msg:
            print("oracle:", msg)
        return 1 if msg else 0
    prop = payload['property']
    v, h, n_ok, _, _ = analyse(recs, prop)
    print("status:", recs[0]['status'])
    for rec, msg in v:
        print("oracle:", msg)
    if h:
        print(recs[0]['stacks'][-2000:])
    return 1 if (v or h) else 0

"""C03 -- every call terminates: no deadlock or livelock for any valid configuration."""
import random
import time

from lib import scen as S, runner, conf
from lib.common import build_props

GROUPS = ['GenProto']


def gen(rng, count, tier):
    scens = []
    sms = ['fork', 'threading', 'fork', 'forkserver', 'threading', 'spawn'] if tier == 'quick' else S.START_METHODS
    for k in range(count):
        nj = rng.choice([1, 2, 3, 4])
        sm = sms[k % len(sms)]
        pool = {'n_jobs': nj, 'start_method': sm, 'keep_alive': rng.random() < 0.3}
        calls = []
        env = {}
        for j in range(rng.choice([1, 1, 2])):
            n = rng.choice([0, 1, 3, 8, 20, 45])
            params = {}
            cs = rng.choice([None, 1, 2, 5, 7, 2.5])
            if cs is not None:
                params['chunk_size'] = cs
            r = rng.random()
            if r < 0.45:
                params['max_tasks_active'] = rng.choice([1, 2, 3])          # often below the chunk size
            if rng.random() < 0.55:
                params['worker_lifespan'] = rng.choice([1, 1, 2, 3])
            if rng.random() < 0.35:
                params['progress_bar'] = True
            call = {'kind': rng.choice(['map', 'map_unordered', 'imap', 'imap_unordered']), 'n': n,
                    'input': rng.choice(['list', 'gen']), 'elem': 'scalar', 'params': params, 'base': 1000 * (j + 1),
                    'init': rng.random() < 0.3, 'exit': rng.random() < 0.3}
            if call['input'] == 'gen' and rng.random() < 0.7:
                params['iterable_len'] = n
            if rng.random() < 0.25:
                call['func'] = 'task_big'
                env['VERIF_PAYLOAD'] = rng.choice(['8', '200000', '2000000'] if tier == 'thorough' else ['8', '200000', '700000'])
            calls.append(call)
        if rng.random() < 0.3:
            calls.append({'kind': 'apply_batch', 'jobs': [{'id': i, 'args': [i]} for i in range(rng.choice([1, 4, 9]))],
                          'join_first': rng.random() < 0.5})
        calls.append({'kind': rng.choice(['stop_and_join', 'terminate', 'stop_and_join'])})
        sc = {'id': f't{k}', 'pool': pool, 'calls': calls, 'budget': 60, 'env': env}
        if k % 10 in (3, 7) and sm != 'threading':
            # a FAILING call that has to terminate too: many large task arguments are queued (more than the pipes hold)
            # when task 0 raises; terminate() must empty the queues and return
            nq = rng.choice([24, 40])
            exc3 = rng.choice(['ValueError', 'CtorArgs', 'CustomError'])          # CtorArgs: cannot be rebuilt by calling its class
            sc = {'id': f't{k}', 'pool': {'n_jobs': 2, 'start_method': sm}, 'budget': 60, 'env': {},
                  'behaviour': {'task': [{'at': 5000, 'do': 'raise', 'exc': exc3}]},
                  'calls': [{'kind': rng.choice(['map', 'map_unordered', 'imap_unordered']), 'n': nq, 'input': 'list', 'elem': 'bigtuple',
                             'arg_bytes': rng.choice([200000, 1000000]), 'params': {'chunk_size': 1, 'max_tasks_active': nq}, 'base': 5000,
                             'expect_exc': {'ValueError': 'ValueError', 'CtorArgs': 'CtorError', 'CustomError': 'CustomError'}[exc3]}]}
        scens.append(sc)
    return scens


def analyse(recs):
    bad, hangs = [], []
    for rec in recs:
        if rec['status'] != 'done' or not rec['result']:
            hangs.append(rec)
            continue
        for c, out in zip(rec['scenario']['calls'], rec['result']['calls']):
            if c.get('expect_exc'):
                if out.get('outcome') != 'exc' or out['exc']['type'] != c['expect_exc']:
                    bad.append((rec, f"failing call with large queued arguments ended as {out.get('outcome')} {out.get('exc', {}).get('type')}"))
                    break
                continue
            if out.get('outcome') != 'ok':
                bad.append((rec, f"call {c['kind']} raised {out['exc']['type']}: {out['exc']['args'][:200]}"))
                break
            if 'n' in c and c.get('func') != 'task_big':
                msg = S.check_value(c, out)
                if msg:
                    bad.append((rec, msg))
                    break
    return bad, hangs


def run(ctx):
    rng = random.Random(ctx['seed'] + 3)
    t0 = time.time()
    proof = build_props('C03', GROUPS)
    scens = gen(rng, 60 if ctx['tier'] == 'quick' else 600, ctx['tier'])
    recs = runner.run_many(scens, 'c03', jobs=10)
    bad, hangs = analyse(recs)
    out_v = []
    for rec in hangs[:3]:
        # a hang verdict needs the watchdog to expire again on a re-run with a doubled budget
        sc2 = dict(rec['scenario'], budget=rec['scenario']['budget'] * 2)
        again = runner.run_many([sc2], 'c03_re', jobs=1)
        if again[0]['status'] != 'done':
            out_v.append(dict(found_input=True, what=f"call did not return: {rec['status']} (and again with twice the budget)",
                              signature='C03:hang', replay=dict(kind='scenario', scenario=rec['scenario'], got=rec['status'],
                                                                stacks=again[0]['stacks'][-4000:])))
    for rec, msg in bad[:2]:
        again = runner.run_many([rec['scenario']] * 2, 'c03_re', jobs=2)
        b2, h2 = analyse(again)
        if b2 or h2:
            out_v.append(dict(found_input=True, what=msg, signature='C03:error', replay=dict(kind='scenario', scenario=rec['scenario'], got=msg)))
    inst = []
    for rec in recs:
        sc = rec['scenario']
        if rec['status'] == 'done' and not sc['pool'].get('keep_alive') and len([c for c in sc['calls'] if 'n' in c]) == 1 \
                and not any(c['kind'] == 'apply_batch' or c.get('expect_exc') for c in sc['calls']):          # Core models the success path
            inst += conf.instance_cases(rec)
    broken = proof['failed_obligation']
    cbad = []
    if proof['ok']:
        try:
            cbad = conf.evaluate(inst, 'c03_inst')
        except Exception as e:
            broken = "trace conformance could not be evaluated: " + str(e)[:500]
    if broken is None and cbad:
        d, got, obs = cbad[0]
        broken = f"trace conformance: {len(cbad)} of {len(inst)} worker-instance traces differ from Core.step; first {d}: model {got[:30]} observed {obs[:30]}"
    walls = sorted(r['wall'] for r in recs)
    cov = dict(evaluations=len(recs), distinct_nontrivial=len({str(r['scenario']['pool']) + str(r['scenario']['calls']) for r in recs if r['status'] == 'done'}),
               rule="valid configurations stressing termination: max_tasks_active 1-3 (often below the chunk size), lifespan 1-3 with "
                    "threading and process start methods, progress bar on/off, payloads 8 B / 200 kB / 0.7 MB (2 MB thorough), "
                    "keep_alive, apply batches, stop_and_join / terminate afterwards; every run under a watchdog that dumps all "
                    "thread stacks; a hang is reported only when a re-run with twice the budget also expires",
               samples=[dict(scenario=recs[0]['scenario'], wall=recs[0]['wall'])], unfinished=len(hangs), errors=len(bad),
               wall_median=walls[len(walls) // 2], wall_max=walls[-1],
               traces_validated_against_impl=len(inst), trace_mismatches=len(cbad))
    return dict(proof=proof, violations=out_v, broken_obligation=broken, coverage=cov, wall_s=time.time() - t0)


def replay(payload):
    recs = runner.run_many([payload['scenario']], 'replay', jobs=1, keep=True)
    bad, hangs = analyse(recs)
    print("status:", recs[0]['status'])
    for rec, msg in bad:
        print("oracle:", msg)
    if hangs:
        print(recs[0]['stacks'][-3000:])
    return 1 if (bad or hangs) else 0

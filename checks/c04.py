"""C04 -- exceptions propagate faithfully and promptly."""
import random
import time

from lib import scen as S, runner
from lib.common import build_props

GROUPS = ['GenAsync', 'GenStruct', 'GenObserve']
SHAPES = ['ValueError', 'CustomError', 'AttrError', 'SystemExit', 'KeyboardInterrupt', 'Cancelled', 'BaseExc',
          'Unpicklable', 'LambdaAttr', 'LocalClass', 'NestedArgs', 'CtorArgs']
LIMIT = {'fork': 12, 'threading': 12, 'forkserver': 20, 'spawn': 25}
CAL = {}          # seconds a trivial pool life cycle takes right now, per start method (runner.calibrate)


def limit(sm):
    return LIMIT[sm] + 6.0 * CAL.get(sm, 0.0)


def gen(rng, k, tier, sms):
    sm = sms[k % len(sms)]
    nj = rng.choice([1, 2, 3, 4])
    pool = {'n_jobs': nj, 'start_method': sm, 'use_dill': rng.random() < 0.4}
    if rng.random() < 0.25:
        pool['pass_worker_id'] = True
    if rng.random() < 0.2:
        pool['shared_objects'] = ['s', 1]
    if rng.random() < 0.25:
        pool['use_worker_state'] = True
    if rng.random() < 0.3:
        pool['keep_alive'] = True
    if rng.random() < 0.3:
        pool['enable_insights'] = True          # the task then runs inside the insights' timing context manager
    n = rng.choice([1, 3, 6, 13, 30])
    params = {}
    m = rng.choice(['cs', 'cs', 'def', 'ns'])
    if m == 'cs':
        params['chunk_size'] = rng.choice([1, 2, 5])
    elif m == 'ns':
        params['n_splits'] = rng.choice([1, 3, 8])
    if rng.random() < 0.3:
        params['worker_lifespan'] = rng.choice([1, 2, 4])
    if rng.random() < 0.25:
        params['max_tasks_active'] = rng.choice([1, 2, 5])
    kind = rng.choice(['map', 'map_unordered', 'imap', 'imap_unordered'])
    call = {'kind': kind, 'n': n, 'input': rng.choice(['list', 'gen', 'range']), 'elem': 'scalar', 'params': params, 'base': 1000,
            'init': rng.random() < 0.4, 'exit': rng.random() < 0.4}
    if call['input'] == 'gen' and rng.random() < 0.7:
        params['iterable_len'] = n
    behaviour = {'task': []}
    where = rng.choice(['task', 'task', 'task', 'task', 'init', 'exit', 'task+init', 'task+exit'])
    shapes = []
    if 'task' in where:
        npos = rng.choice([1, 1, 1, 2, 3, n])           # n: every task raises (ExceptionTest's other case)
        pos = sorted(rng.sample(range(n), min(npos, n)))
        position_kind = rng.choice(['any', 'first', 'last'])
        if position_kind == 'first':
            pos = [0]
        elif position_kind == 'last':
            pos = [n - 1]
        for p in pos:
            sh = rng.choice(SHAPES)
            shapes.append(sh)
            behaviour['task'].append({'at': 1000 + p, 'do': 'raise', 'exc': sh})
    if 'init' in where:
        sh = rng.choice(SHAPES[:7])
        shapes.append(sh)
        call['init'] = True
        call['init_raises'] = [sh, 77]
    if 'exit' in where:
        sh = rng.choice(SHAPES[:7])
        shapes.append(sh)
        call['exit'] = True
        call['exit_raises'] = [sh, 88]
    if sm == 'threading':
        # SystemExit / KeyboardInterrupt inside a thread worker: still required to propagate
        pass
    if pool.get('shared_objects') is not None:
        call['_shared'] = pool['shared_objects']
    if where == 'task' and k % 6 == 5 and 'shared_objects' not in pool and not pool.get('use_worker_state') and not pool.get('pass_worker_id'):
        # numpy input: a task is an array chunk; the chunk whose first element is the key raises
        call.update(input='ndarray', func='task_np', init=False, exit=False)
        params.pop('iterable_len', None)
        params.pop('n_splits', None)
        cs = params.setdefault('chunk_size', 2)
        behaviour['task'] = [{'at': 1000 + (b['at'] - 1000) // cs * cs, 'do': 'raise', 'exc': b['exc']} for b in behaviour['task']]
        if rng.random() < 0.5:
            pool['enable_insights'] = True
    sc = {'id': f'x{k}', 'pool': pool, 'calls': [call], 'budget': 60, 'behaviour': behaviour, 'shapes': sorted(set(shapes)),
          'where': where}
    if rng.random() < 0.3:
        sc['env'] = {'VERIF_TASK_SLEEP': rng.choice(['0.002', '0.01'])}
    return sc


def gen_failing_history(rng, k, sms):
    """2-3 calls on ONE pool, each failing in its own way: every call must raise ITS OWN exception"""
    sm = sms[k % len(sms)]
    pool = {'n_jobs': rng.choice([1, 2, 3]), 'start_method': sm, 'use_dill': rng.random() < 0.3, 'keep_alive': rng.random() < 0.5}
    calls, behaviour, shapes = [], {'task': []}, []
    easy = ['ValueError', 'CustomError', 'AttrError', 'BaseExc', 'NestedArgs', 'SlowPickle', 'SlowPickle', 'CtorArgs']
    for j in range(rng.choice([2, 2, 3])):
        base = 1000 * (j + 1)
        n = rng.choice([2, 5, 9])
        call = {'kind': rng.choice(['map', 'map_unordered', 'imap', 'imap_unordered']), 'n': n, 'input': 'list', 'elem': 'scalar',
                'params': {'chunk_size': rng.choice([1, 2])}, 'base': base, 'init': False, 'exit': False}
        where = rng.choice(['init', 'init', 'task', 'exit'])
        sh = rng.choice(easy)
        shapes.append(sh)
        if where == 'task':
            behaviour['task'].append({'at': base + rng.randrange(n), 'do': 'raise', 'exc': sh})
        else:
            call[where] = True
            call[where + '_raises'] = [sh, base + (777 if where == 'init' else 888)]
        call['where'] = where
        calls.append(call)
    return {'id': f'xh{k}', 'pool': pool, 'calls': calls, 'budget': 75, 'behaviour': behaviour, 'shapes': sorted(set(shapes)),
            'where': 'history'}


def gen_apply(rng, k, sms):
    sm = sms[k % len(sms)]
    pool = {'n_jobs': rng.choice([1, 2, 3]), 'start_method': sm, 'use_dill': rng.random() < 0.4}
    jobs, behaviour, shapes = [], {'task': []}, []
    for i in range(rng.choice([2, 4, 7])):
        jobs.append({'id': i, 'args': [2000 + i], 'cbs': [True, True]})
        if rng.random() < 0.5:
            sh = rng.choice(SHAPES)
            shapes.append(sh)
            behaviour['task'].append({'at': 2000 + i, 'do': 'raise', 'exc': sh})
    call = {'kind': 'apply_batch', 'jobs': jobs, 'get_timeout': 20, 'params': {}}
    if k % 3 == 2:
        # the worker_init given to apply_async raises (with or without an init timeout configured - two code paths): every
        # job's get() raises that exception
        sh = rng.choice(SHAPES[:3] + ['CtorArgs', 'NestedArgs'])
        call['init_raises'] = [sh, 77]
        shapes.append(sh)
        behaviour['task'] = []
        if rng.random() < 0.6:
            call['params'] = {'worker_init_timeout': 30}
        if rng.random() < 0.4:
            call['params']['worker_exit_timeout'] = 30
        call['no_join'] = True
    return {'id': f'xa{k}', 'pool': pool, 'calls': [call], 'budget': 60,
            'behaviour': behaviour, 'shapes': sorted(set(shapes)), 'where': 'apply'}


def expected_exc(tr, use_dill, shape, key):
    """(type, args-repr, dict_keys) the caller must see for make_exception(shape, key)"""
    row = tr[shape]
    ok = row['dill'] if (use_dill and 'dill' in row) else row['pickle']
    args = row['args'].replace('0', str(key)) if False else None
    return ok, row


def match(exc, tr, use_dill, shape, key):
    """does the exception the caller got describe make_exception(shape, key)?"""
    row = tr[shape]
    ok = row['dill'] if (use_dill and 'dill' in row) else row['pickle']
    want_args = _args_for(shape, key)
    if ok:
        if exc['type'] != row['type']:
            return False
        if want_args is not None and exc['args'] != want_args:
            return False
        return sorted(exc.get('dict_keys', [])) == row['dict_keys']
    return exc['type'] == 'CannotPickleExceptionError' and (want_args is None or _repr_for(shape, key, row) in exc['args'])


def _args_for(shape, key):
    return {'ValueError': repr(('boom', key)), 'CustomError': repr(('custom', key)), 'AttrError': repr(('with attrs',)),
            'SystemExit': repr((3,)), 'KeyboardInterrupt': repr(()), 'Cancelled': repr(('cancelled', key)),
            'SlowPickle': f'(SlowArg({key}),)', 'BaseExc': repr(('base', key)), 'Unpicklable': repr(('holds a lock',)), 'LambdaAttr': repr(('holds a lambda',)),
            'CtorArgs': repr((f'ctor-{key}',)), 'LocalClass': repr(('local', key)), 'NestedArgs': repr(({'k': [key, (1, 2)]}, 'x' * 50, key))}[shape]


def _repr_for(shape, key, row):
    # repr(err) of the original, as CannotPickleExceptionError carries it
    return row['repr'].replace("'local', 0", f"'local', {key}")


def oracle_history(rec):
    res, sc = rec['result'], rec['scenario']
    tr = res.get('transport', {})
    use_dill = sc['pool'].get('use_dill', False) and sc['pool']['start_method'] != 'threading'
    raised_all = [(e['exc'], e['key'], e.get('phase')) for e in runner.all_events(rec, 'raised')]
    for c, o in zip(sc['calls'], res['calls']):
        mine = [r for r in raised_all if c['base'] <= r[1] < c['base'] + 1000]
        if o.get('outcome') != 'exc':
            if mine:
                return f"history: call base={c['base']}: user functions raised {mine[:2]} but the call returned"
            # the failing function was never reached (e.g. worker_exit of kept-alive workers runs later)
            msg = S.check_value(c, o)
            if msg:
                return f"history: call base={c['base']}: {msg}"
            continue
        exc = o['exc']
        if not any(match(exc, tr, use_dill, sh, key) for sh, key, _ in mine):
            other = [r for r in raised_all if match(exc, tr, use_dill, r[0], r[1])]
            return (f"history: call base={c['base']} raised {exc['type']}{exc['args'][:120]} which none of ITS user functions raised "
                    f"(they raised {mine[:3]}); it matches {other[:2]} raised in another call of this pool" if other else
                    f"history: call base={c['base']} raised {exc['type']}{exc['args'][:120]} which matches nothing its user functions raised: {mine[:3]}")
        if o['wall'] > limit(sc['pool']['start_method']):
            return f"history: call base={c['base']} took {o['wall']:.1f}s to raise"
    return None


def oracle(rec):
    res, sc = rec['result'], rec['scenario']
    if sc.get('where') == 'history':
        return oracle_history(rec)
    call, out = sc['calls'][0], res['calls'][0]
    tr = res.get('transport', {})
    # the threading backend always transports through the standard (pickle) queues
    use_dill = sc['pool'].get('use_dill', False) and sc['pool']['start_method'] != 'threading'
    raised = [(e['exc'], e['key'], e.get('phase')) for e in runner.all_events(rec, 'raised')]
    sm = sc['pool']['start_method']
    if call['kind'] == 'apply_batch' and call.get('init_raises'):
        sh, key = call['init_raises']
        if out.get('outcome') != 'ok':
            return f"apply batch itself raised {out.get('exc', {}).get('type')}: {out.get('exc', {}).get('args', '')[:120]}"
        for j, v in zip(call['jobs'], out.get('value', [])):
            if v[0] != 'exc':
                return f"worker_init given to apply_async raised {sh} but get() of job {j['args'][0]} returned {str(v)[:80]}"
            if not match({'type': v[1], 'args': v[2], 'dict_keys': tr[sh]['dict_keys'] if v[1] != 'CannotPickleExceptionError' else []},
                         tr, use_dill, sh, key):
                return f"worker_init given to apply_async raised {sh}(key={key}), get() of job {j['args'][0]} raised {v[1]}{v[2][:120]}"
        return None
    if call['kind'] == 'apply_batch':
        beh = {b['at']: b['exc'] for b in sc['behaviour']['task']}
        for j, v in zip(call['jobs'], out.get('value', [])):
            key = j['args'][0]
            if key in beh:
                if v[0] != 'exc':
                    return f"apply job {key} raised {beh[key]} in the worker but get() returned {str(v)[:80]}"
                if not match({'type': v[1], 'args': v[2], 'dict_keys': tr[beh[key]]['dict_keys'] if v[1] != 'CannotPickleExceptionError' else []},
                             tr, use_dill, beh[key], key):
                    return f"apply job {key}: worker raised {beh[key]}(key={key}), caller got {v[1]}{v[2][:120]}"
            elif v != ['ok', S.ref_call('scalar', key)]:
                return f"apply job {key} does not fail but get() gave {str(v)[:100]}"
        if out.get('outcome') != 'ok':
            return f"apply batch itself raised {out.get('exc', {}).get('type')}: {out.get('exc', {}).get('args', '')[:120]}"
        return None
    must_fail = bool(raised)
    if out.get('outcome') == 'ok':
        if must_fail:
            return (f"user functions raised {raised[:3]} but {call['kind']} returned normally "
                    f"({len(out.get('value') or [])} values): a failure was swallowed / partial result")
        return S.check_value(call, out)
    exc = out['exc']
    if not must_fail:
        return f"the call raised {exc['type']}{exc['args'][:100]} although no user function raised"
    # (1) the exception is one actually raised by a user function in this call
    if not any(match(exc, tr, use_dill, sh, key) for sh, key, _ in raised):
        return (f"the call raised {exc['type']}{exc['args'][:160]} attrs={exc.get('dict_keys')} which matches none of the exceptions user "
                f"functions raised in this call: {raised[:4]} (use_dill={use_dill}, transport={ {s: (tr[s].get('pickle'), tr[s].get('dill')) for s in tr} })")
    # (2) cause: worker traceback + the failing task's arguments
    cause = exc.get('cause_text') or ''
    if exc.get('cause_type') is None or 'Traceback' not in cause or 'Exception occurred in Worker-' not in cause:
        return f"the raised {exc['type']} has no worker traceback as its cause: {exc.get('cause_type')} {cause[:120]!r}"
    matching = [(sh, key, ph) for sh, key, ph in raised if match(exc, tr, use_dill, sh, key)]
    if all(ph == 'task' for _, _, ph in matching) and not any(str(key) in cause for _, key, _ in matching):
        return f"the cause does not show the failing task's arguments {[k for _, k, _ in matching][:3]}: {cause[:300]!r}"
    # (3) promptly
    if out['wall'] > limit(sm):
        return f"the failing call took {out['wall']:.1f}s (> {limit(sm):.1f}s) to raise"
    # (4) everything yielded before the raise is a correct result
    part = out.get('partial', [])
    if call.get('input') == 'ndarray':
        rows = S.flatten_nd(part)
        ok_rows = S.expected_value(call)[1]
        if any(r not in ok_rows for r in rows):
            return f"numpy call yielded wrong rows before raising: {str(rows)[:120]}"
        return None
    exp = S.expected_value(call)
    if call['kind'] == 'imap':
        if part != exp[:len(part)]:
            return f"imap yielded {str(part)[:150]} before raising: not a prefix of the correct results"
    else:
        expk = {S.key(v) for v in exp}
        if any(S.key(v) not in expk for v in part) or len({S.key(v) for v in part}) != len(part):
            return f"imap_unordered yielded wrong or duplicate values before raising: {str(part)[:150]}"
    failing = {S.key(S.ref_call('scalar', key)) for _, key, ph in raised if ph == 'task'}
    if any(S.key(v) in failing for v in part):
        return "a result was yielded for a task whose function raised"
    return None


def analyse(recs):
    bad, hangs = [], []
    for rec in recs:
        if rec['status'] != 'done' or not rec['result'] or len(rec['result']['calls']) < len(rec['scenario']['calls']):
            hangs.append(rec)
            continue
        if 'pool_exc' in rec['result']:
            bad.append((rec, f"leaving the pool raised {rec['result']['pool_exc']['type']}: {rec['result']['pool_exc']['args'][:100]}"))
            continue
        msg = oracle(rec)
        if msg:
            bad.append((rec, msg))
    return bad, hangs


def run(ctx):
    rng = random.Random(ctx['seed'] + 4)
    t0 = time.time()
    proof = build_props('C04', GROUPS)
    CAL.update(runner.calibrate())
    quick = ctx['tier'] == 'quick'
    sms = ['fork', 'fork', 'fork', 'threading', 'forkserver', 'spawn'] if quick else ['fork', 'fork', 'threading', 'forkserver', 'spawn']
    scens = [gen(rng, k, ctx['tier'], sms) for k in range(72 if quick else 700)]
    scens += [gen_apply(rng, k, sms) for k in range(10 if quick else 80)]
    scens += [gen_failing_history(rng, k, ['fork', 'threading', 'threading', 'fork', 'forkserver', 'spawn']) for k in range(24 if quick else 200)]
    recs = runner.run_many(scens, 'c04', jobs=10)
    bad, hangs = analyse(recs)
    out_v = []
    seen = set()
    for rec, msg in bad[:6]:
        sig = msg.split(':')[0][:60]
        if sig in seen:
            continue
        seen.add(sig)
        again = runner.run_many([rec['scenario']] * 3, 'c04_re', jobs=3)
        b2, h2 = analyse(again)
        if b2 or h2:
            out_v.append(dict(found_input=True, what=msg, signature='C04:' + sig,
                              replay=dict(kind='scenario', scenario=rec['scenario'], got=msg, reproduced=f"{len(b2) + len(h2)}/3")))
    for rec in hangs[:3]:
        again = runner.run_many([rec['scenario']], 'c04_re', jobs=1)
        if again[0]['status'] != 'done':
            shapes = rec['scenario'].get('shapes')
            out_v.append(dict(found_input=True, what=f"failing call did not finish ({rec['status']}); shapes {shapes}, where {rec['scenario'].get('where')}",
                              signature='C04:hang', replay=dict(kind='scenario', scenario=rec['scenario'], got=rec['status'], stacks=rec['stacks'][-3000:])))
    dist = {}
    for sc in scens:
        for sh in sc['shapes']:
            dist['shape:' + sh] = dist.get('shape:' + sh, 0) + 1
        dist['where:' + sc['where']] = dist.get('where:' + sc['where'], 0) + 1
        dist['start:' + sc['pool']['start_method']] = dist.get('start:' + sc['pool']['start_method'], 0) + 1
        dist['use_dill:' + str(sc['pool'].get('use_dill', False))] = dist.get('use_dill:' + str(sc['pool'].get('use_dill', False)), 0) + 1
        dist['kind:' + sc['calls'][0]['kind']] = dist.get('kind:' + sc['calls'][0]['kind'], 0) + 1
        if sc['where'] == 'history':
            dist['history_calls:' + str(len(sc['calls']))] = dist.get('history_calls:' + str(len(sc['calls'])), 0) + 1
    outcomes = {}
    for r in recs:
        if r['status'] == 'done' and r['result'] and r['result']['calls']:
            o = r['result']['calls'][0]
            t = o['exc']['type'] if o.get('outcome') == 'exc' else 'returned'
            outcomes[t] = outcomes.get(t, 0) + 1
    cov = dict(evaluations=len(recs), distinct_nontrivial=len({str(r['scenario']['pool']) + str(r['scenario']['calls']) + str(r['scenario']['behaviour']) for r in recs}),
               rule="one map-family call (or an apply batch) in which tasks at chosen positions (first / last / any / several / all), "
                    "worker_init or worker_exit raise one of 11 exception shapes (builtin, custom constructor args, instance attributes, "
                    "nested args, SystemExit, KeyboardInterrupt, CancelledError, BaseException subclass, lock attribute, lambda attribute, "
                    "locally defined class) x use_dill x 4 start methods x chunking / lifespan / max_tasks_active; oracle: the call raises, "
                    "within seconds, an exception matching (type, args, attribute names) one the user functions logged as raised in this "
                    "call -- or CannotPickleExceptionError carrying its repr when the pool's pickler cannot dump it (decided without "
                    "mpire) -- with the worker traceback and failing arguments as cause; values yielded before are correct; plus histories "
                    "of 2-3 failing calls on one pool (init / task / exit, slow-to-pickle exceptions): every call raises its OWN exception",
               samples=[dict(scenario=recs[0]['scenario'])], distribution=dist, outcomes=outcomes,
               oracle_failures=len(bad), unfinished=len(hangs))
    return dict(proof=proof, violations=out_v, broken_obligation=proof['failed_obligation'], coverage=cov, wall_s=time.time() - t0)


def replay(payload):
    CAL.update(runner.calibrate())
    recs = runner.run_many([payload['scenario']], 'replay', jobs=1, keep=True)
    bad, hangs = analyse(recs)
    print("status:", recs[0]['status'])
    for rec, msg in bad:
        print("oracle:", msg)
    if hangs:
        print(recs[0]['stacks'][-2500:])
    return 1 if (bad or hangs) else 0

"""C05 -- no leaked workers, threads, descriptors or signal state on any exit path."""
import random
import time

from lib import scen as S, runner
from lib.common import build_props

GROUPS = ['GenObserve']
HELPERS = ('resource_tracker import main', 'forkserver import main')
POOL_THREADS = ('_results_handler', '_restart_handler', '_timeout_handler', '_unexpected_death_handler', '_progress_bar_handler',
                'join_task_queues', 'Worker-')
CAUSES = ['success', 'success_keepalive', 'success_apply', 'setter_restart', 'task_exception', 'init_exception', 'exit_exception', 'timeout', 'killed_worker',
          'sigint', 'abandoned_imap', 'terminate_during_imap', 'nested_misuse', 'stop_and_join']


def mk_cycle(rng, cause, sm, base):
    nj = rng.choice([1, 2, 3])
    pool = {'n_jobs': nj, 'start_method': sm}
    if rng.random() < 0.3:
        pool['enable_insights'] = True
    params = {'chunk_size': rng.choice([1, 2])}
    if rng.random() < 0.3:
        params['worker_lifespan'] = rng.choice([1, 2])
    if rng.random() < 0.3:
        params['progress_bar'] = True
    call = {'kind': rng.choice(['map', 'map_unordered', 'imap', 'imap_unordered']), 'n': 8, 'input': 'list', 'elem': 'scalar', 'params': params,
            'base': base, 'init': rng.random() < 0.3, 'exit': rng.random() < 0.3}
    calls = [call]
    beh = {}
    if cause == 'success_keepalive':
        pool['keep_alive'] = True
        calls = [call, dict(call, base=base + 100)]
    elif cause == 'success_apply':
        calls = [{'kind': 'apply_batch', 'jobs': [{'id': i, 'args': [base + i], 'cbs': [True, True]} for i in range(4)], 'get_timeout': 20}]
    elif cause == 'task_exception':
        beh = {'task': [{'at': base + 3, 'do': 'raise', 'exc': rng.choice(['ValueError', 'CustomError', 'Unpicklable'])}]}
    elif cause == 'init_exception':
        call['init'] = True
        call['init_raises'] = ['ValueError', base]
    elif cause == 'exit_exception':
        call['exit'] = True
        call['exit_raises'] = ['ValueError', base]
    elif cause == 'timeout':
        params['task_timeout'] = 0.3
        beh = {'task': [{'at': base + 2, 'do': 'block', 's': 30}]}
        if sm == 'threading':
            pool['start_method'] = 'fork'
    elif cause == 'killed_worker':
        beh = {'task': [{'at': base + 2, 'do': 'die'}]}
        if sm == 'threading':
            pool['start_method'] = 'fork'
    elif cause == 'sigint':
        call['n'] = 30
        r = rng.random()
        if r < 0.25:
            # very early, to the whole group, while the helper processes of the pool (insights manager) are being started
            pool['enable_insights'] = True
            call['sigint'] = {'mode': 'time', 'delay': rng.choice([0.002, 0.004, 0.006, 0.01]), 'group': True}
        elif r < 0.5:
            call['sigint'] = {'mode': 'time', 'delay': round(rng.uniform(0.0, 0.25), 3), 'group': rng.random() < 0.5}
        else:
            # exactly at a point inside / around the library's own signal masking (deterministic: setprofile injection)
            pat = rng.choice([r'cret\|comms\.py:\d+:put', r'call\|signal\.py:__exit__:\d+', r'call\|signal\.py:__enter__:\d+',
                              r'call\|comms\.py:add_task:\d+', r'cret\|comms\.py:\d+:get', r'call\|signal\.py:handler:\d+'])
            call['sigint'] = {'mode': 'line', 'at_re': pat, 'hit': rng.choice([1, 2, 5, 9])}
    elif cause == 'abandoned_imap':
        call['kind'] = rng.choice(['imap', 'imap_unordered'])
        call['consume'] = 1
    elif cause == 'nested_misuse':
        call['nested_misuse'] = True
    elif cause == 'stop_and_join':
        pool['keep_alive'] = True
        calls = [call, {'kind': 'stop_and_join', 'snapshot_after': True}]
    elif cause == 'setter_restart':
        # kept-alive workers, a setter between two calls: the second call shuts the old workers down for good and starts new ones
        pool['keep_alive'] = True
        call.pop('sigint', None)
        calls = [call, {'kind': 'setter', 'name': 'set_shared_objects', 'args': [['s', 1]]},
                 dict(call, base=base + 100, dynamic_extras=True, _shared=['s', 1]), {'kind': 'stop_and_join', 'snapshot_after': True}]
        call['dynamic_extras'] = True
    elif cause == 'terminate_during_imap':
        call['kind'] = rng.choice(['imap', 'imap_unordered'])
        call['consume'] = 2
        calls = [call, {'kind': 'terminate', 'snapshot_after': True}]
    return {'pool': pool, 'calls': calls, 'cause': cause, 'behaviour': beh}


def gen(rng, k, sms):
    sm = sms[k % len(sms)]
    ncyc = rng.choice([3, 4])
    causes = [CAUSES[(k * 5 + j * 3 + rng.randrange(2)) % len(CAUSES)] for j in range(ncyc)]
    cycles, behaviour = [], {'task': []}
    for j, c in enumerate(causes):
        cyc = mk_cycle(rng, c, sm, 1000 * (j + 1))
        for ph, lst in cyc.pop('behaviour').items():
            behaviour.setdefault(ph, []).extend(lst)
        cycles.append(cyc)
    methods = sorted({c['pool']['start_method'] for c in cycles})
    # the caller's own SIGINT disposition (installed after the warm-up, before the baseline is taken): the default handler,
    # SIG_DFL, SIG_IGN or a handler of its own.  Whatever it is, it is what every cycle has to leave behind.  (No signal
    # is sent in these scenarios: SIG_DFL would end the driver.)
    disp = None
    if k % 3 == 1:
        disp = ['SIG_DFL', 'SIG_IGN', 'custom'][(k // 3) % 3]
        for cyc in cycles:
            if cyc['cause'] == 'sigint':
                repl = mk_cycle(rng, rng.choice(['success', 'task_exception', 'stop_and_join', 'abandoned_imap']), sm, cyc['calls'][0].get('base', 1000) if cyc['calls'] else 1000)
                for ph, lst in repl.pop('behaviour').items():
                    behaviour.setdefault(ph, []).extend(lst)
                cyc.clear()
                cyc.update(repl)
    import copy
    cycles = cycles + copy.deepcopy(cycles)          # the same cycles a second time: nothing may accumulate
    return {'id': f'l{k}', 'pool': {'n_jobs': 1, 'start_method': sm}, 'calls': [], 'cycles': cycles, 'budget': 150, 'behaviour': behaviour,
            'npass': len(cycles) // 2,
            'warmup': methods, 'warm_insights': True, 'warm_progress_bar': True, 'env': {'VERIF_TASK_SLEEP': '0.005'},
            'sigint_disposition': disp}


def live(snap):
    return [c for c in snap.get('children', []) if c['state'] != 'Z' and not any(h in c['cmd'] for h in HELPERS)]


def pool_threads(snap):
    return [t for t in snap.get('threads', []) if any(p in t for p in POOL_THREADS)]


def oracle(rec):
    res = rec['result']
    base = res.get('baseline', {})
    for i, (cyc, spec) in enumerate(zip(res.get('cycles', []), rec['scenario']['cycles'])):
        tag = f"cycle {i} ({spec['cause']}, {spec['pool']['start_method']})"
        pe = cyc.get('pool_exc')
        if pe and not (spec['cause'] == 'sigint' and pe['type'] == 'KeyboardInterrupt'):
            return f"{tag}: the pool block raised {pe['type']}: {pe['args'][:120]}"
        for c, o in zip(spec['calls'], cyc['calls']):
            ac = o.get('after_call')
            allowed = 1 if spec['pool'].get('enable_insights') else 0          # the store behind get_insights() may live on
            if ac is not None and (pool_threads(ac) or len(live(ac)) > allowed):
                return (f"{tag}: right after {c['kind']}() returned: helper threads {pool_threads(ac)}, "
                        f"{len(live(ac))} live child process(es)")
        ae, ar = cyc['after_exit'], cyc['after_release']
        if pool_threads(ae):
            return f"{tag}: helper threads alive after the with-block: {pool_threads(ae)}"
        kids = live(ae)
        if spec['pool'].get('enable_insights'):
            # the store that keeps get_insights() readable may live until the pool object is released
            kids = [c for c in kids if 'driver.py' in c['cmd'] and False] if len(kids) <= 1 else kids
        if kids:
            return f"{tag}: {len(kids)} child process(es) alive after the with-block: {kids[:2]}"
        if ae.get('sigint') != base.get('sigint'):
            return f"{tag}: SIGINT handler is {ae.get('sigint')}, was {base.get('sigint')}"
        if ae.get('tqdm_lock') != base.get('tqdm_lock'):
            return f"{tag}: the tqdm lock changed ({base.get('tqdm_lock')} -> {ae.get('tqdm_lock')})"
        if live(ar) or pool_threads(ar):
            return f"{tag}: after releasing the pool: children {live(ar)[:2]}, threads {pool_threads(ar)}"
        npass = rec['scenario']['npass']
        if i >= npass:
            first = res['cycles'][i - npass]['after_release']
            if ar.get('n_fds', 0) > first.get('n_fds', 0):
                return (f"{tag}: {ar['n_fds']} open descriptors after releasing the pool, {first['n_fds']} after the same cycle in the first pass "
                        f"(warm-up baseline {base.get('n_fds')})")
    if len(res.get('cycles', [])) < len(rec['scenario']['cycles']):
        return f"only {len(res.get('cycles', []))} of {len(rec['scenario']['cycles'])} cycles finished"
    return None


def analyse(recs):
    bad, hangs = [], []
    for rec in recs:
        if rec['status'] != 'done' or not rec['result']:
            hangs.append(rec)
            continue
        msg = oracle(rec)
        if msg:
            bad.append((rec, msg))
    return bad, hangs


def run(ctx):
    rng = random.Random(ctx['seed'] + 5)
    t0 = time.time()
    proof = build_props('C05', GROUPS)
    quick = ctx['tier'] == 'quick'
    sms = ['fork', 'fork', 'threading', 'forkserver', 'spawn']
    scens = [gen(rng, k, sms) for k in range(20 if quick else 200)]
    recs = runner.run_many(scens, 'c05', jobs=8, hook=False)          # the unmodified library: no instrumentation, no event files
    bad, hangs = analyse(recs)
    out_v, seen = [], set()
    for rec, msg in bad[:8]:
        sig = msg.split(':')[1].strip()[:40] if ':' in msg else msg[:40]
        cause = msg.split('(')[1].split(',')[0] if '(' in msg else '?'
        if (sig, cause) in seen:
            continue
        seen.add((sig, cause))
        again = runner.run_many([rec['scenario']] * 2, 'c05_re', jobs=2, hook=False)
        b2, h2 = analyse(again)
        if b2 or h2:
            out_v.append(dict(found_input=True, what=msg, signature=f'C05:{cause}:{sig}', replay=dict(kind='scenario', scenario=rec['scenario'], got=msg)))
    for rec in hangs[:3]:
        again = runner.run_many([rec['scenario']], 'c05_re', jobs=1, hook=False)
        if again[0]['status'] != 'done':
            done = len((rec['result'] or {}).get('cycles', []))
            cause = rec['scenario']['cycles'][min(done, len(rec['scenario']['cycles']) - 1)]['cause']
            out_v.append(dict(found_input=True, what=f"cycle {done} ({cause}) did not finish ({rec['status']})", signature=f'C05:hang:{cause}',
                              replay=dict(kind='scenario', scenario=rec['scenario'], got=rec['status'], stacks=rec['stacks'][-3000:])))
    dist = {}
    for sc in scens:
        for c in sc['cycles']:
            dist[c['cause']] = dist.get(c['cause'], 0) + 1
            dist['start:' + c['pool']['start_method']] = dist.get('start:' + c['pool']['start_method'], 0) + 1
    ncyc = sum(len((r['result'] or {}).get('cycles', [])) for r in recs)
    cov = dict(evaluations=ncyc, distinct_nontrivial=len(recs),
               rule="processes that run 4-6 pool life cycles one after the other, each pool left in a different way (success with / without "
                    "keep_alive, apply, task / init / exit exception incl. an unpicklable one, timeout, SIGKILLed worker, SIGINT at a random "
                    "instant to the process or its group, lazy imap abandoned, terminate() during imap, nested-map misuse, stop_and_join) x start "
                    "methods x insights x progress bar x lifespan. After every cycle: no worker process, no helper thread, SIGINT handler and "
                    "tqdm lock as after the warm-up; after releasing the pool object no process; the whole list of cycles is run twice in the "
                    "same process and no cycle of the second pass ends with more open descriptors than it did in the first (interpreter "
                    "helpers -- resource tracker, fork server -- excluded)",
               samples=[dict(scenario=dict(id=recs[0]['scenario']['id'], cycles=[c['cause'] for c in recs[0]['scenario']['cycles']]))],
               exit_causes=dist, cycles_run=ncyc, oracle_failures=len(bad), unfinished=len(hangs))
    return dict(proof=proof, violations=out_v, broken_obligation=proof['failed_obligation'], coverage=cov, wall_s=time.time() - t0)


def replay(payload):
    recs = runner.run_many([payload['scenario']], 'replay', jobs=1, keep=True, hook=False)
    bad, hangs = analyse(recs)
    print("status:", recs[0]['status'])
    for rec, msg in bad:
        print("oracle:", msg)
    if hangs:
        print(recs[0]['stacks'][-3000:])
    return 1 if (bad or hangs) else 0

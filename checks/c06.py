"""C06 -- a pool stays fully correct after any failed call."""
import random
import time

from lib import scen as S, runner
from lib.common import build_props

GROUPS = ['GenStruct', 'GenParams']

EXPECT = {'raise': None, 'timeout': 'TimeoutError', 'die': 'RuntimeError', 'nested': 'RuntimeError', 'init_raise': None, 'exit_raise': None}


def oracle(rec):
    res = rec['result']
    calls = rec['scenario']['calls']
    beh = rec['scenario'].get('behaviour', {}).get('task', [])
    # main's own log: was init_comms (fresh workers) called before the first chunk of each dispatched job?
    started_before = []
    for name, evs in rec['events'].items():
        pending, seen = False, set()
        for e in evs:
            if e.get('k') != 'call':
                continue
            if e.get('m') == 'init_comms':
                pending = True
            elif e.get('m') == 'add_task' and e.get('what') == 'chunk' and e.get('job') is not None and e['job'] >= 0 \
                    and e['job'] not in seen:
                seen.add(e['job'])
                started_before.append(pending)
                pending = False
    checked = 0
    after_failure = False
    di = 0
    for c, out in zip(calls, res['calls']):
        if 'n' not in c:
            continue
        mode = c.get('fail')
        dispatched = c['n'] > 0
        fresh = None
        if dispatched and di < len(started_before):
            fresh = started_before[di]
            di += 1
        if after_failure and dispatched and fresh is False:
            return f"call base={c['base']} after a failed call reused the old workers instead of starting fresh ones", checked
        if mode == 'init_raise' and out.get('outcome') == 'ok' and fresh is False:
            mode = None          # kept-alive workers were reused: worker_init is not run again, the call succeeds
        if mode in ('raise', 'timeout', 'die', 'nested', 'init_raise', 'exit_raise') and not (mode in ('init_raise', 'exit_raise') and c['n'] == 0):
            if out.get('outcome') != 'exc':
                return f"call base={c['base']} ({mode}) did not raise: {str(out.get('value'))[:100]}", checked
            t = out['exc']['type']
            if mode == 'raise':
                spec = [b for b in beh if b['at'] // 1000 == c['base'] // 1000 and b['do'] == 'raise'][0]
                if t != spec['exc']:
                    return f"call base={c['base']} raised {t}, the task raised {spec['exc']}", checked
            elif mode in ('init_raise', 'exit_raise'):
                exc, tag = c['init_raises' if mode == 'init_raise' else 'exit_raises']
                if t != exc or (str(tag) not in out['exc']['args'] and str(tag) not in out['exc']['dict']):
                    return (f"call base={c['base']}: its worker_{mode[:4]} raised {exc}(.., {tag}) but the call raised "
                            f"{t}{out['exc']['args'][:80]} -- the error of another call"), checked
            elif t != EXPECT[mode]:
                return f"call base={c['base']} ({mode}) raised {t}: {out['exc']['args']}, expected {EXPECT[mode]}", checked
            after_failure = True
            checked += 1
            continue
        if out.get('outcome') != 'ok':
            return (f"call base={c['base']} raised {out['exc']['type']}: {out['exc']['args'][:160]} although nothing fails in it "
                    f"(after_failure={after_failure})"), checked
        if mode == 'closed_early':
            exp = {S.key(v) for v in S.expected_value(c)}
            for v in out['value']:
                if S.key(v) not in exp:
                    return f"call base={c['base']} (closed early) yielded a wrong value {str(v)[:100]}", checked
            after_failure = True
            checked += 1
            continue
        msg = S.check_value(c, out)
        if msg:
            return f"call base={c['base']} (after_failure={after_failure}): {msg}", checked
        checked += 1
        after_failure = False
    return None, checked


def gen_idle_death(rng, k, sms):
    """an idle worker is killed; the next map call reports it; then tasks go through apply_async (the workers stay alive);
    the map call after that must be an ordinary, correct call"""
    sm = [m for m in sms if m != 'threading'][k % 3]
    nj = rng.choice([1, 2, 3])
    keep = rng.random() < 0.5
    mk = lambda base: {'kind': rng.choice(['map', 'map_unordered', 'imap', 'imap_unordered']), 'n': rng.choice([3, 8]), 'input': 'list',
                       'elem': 'scalar', 'params': {'chunk_size': rng.choice([1, 2])}, 'base': base}
    first = ({'kind': 'apply_batch', 'jobs': [{'id': 0, 'args': [1700], 'cbs': [False, False]}], 'get_timeout': 20, 'no_join': True}
             if not keep or rng.random() < 0.5 else mk(1000))
    calls = [first, {'kind': 'kill_idle_worker', 'worker': rng.randrange(nj), 'settle': 0.6},
             dict(mk(2000), idle_death=True),
             {'kind': 'apply_batch', 'jobs': [{'id': i, 'args': [3700 + i], 'cbs': [False, False]} for i in range(3)], 'get_timeout': 20,
              'no_join': True},
             mk(4000), {'kind': 'stop_and_join'}]
    return {'id': f'k{k}', 'pool': {'n_jobs': nj, 'start_method': sm, 'keep_alive': keep}, 'calls': calls, 'budget': 75, 'behaviour': {},
            'family': 'idle_death'}


def oracle_idle_death(rec):
    res = rec['result']
    seen_death = False
    for c, o in zip(rec['scenario']['calls'], res['calls']):
        if c['kind'] == 'apply_batch':
            msg = S.check_apply_batch(c, o)
            if msg and not seen_death:
                continue          # before the kill anything goes
            if msg:
                return f"after the reported idle death: {msg}", 1
        elif c.get('idle_death'):
            if o.get('outcome') == 'exc':
                if o['exc']['type'] != 'RuntimeError':
                    return f"the call after the idle death raised {o['exc']['type']}: {o['exc']['args'][:100]}", 1
                seen_death = True
            else:
                msg = S.check_value(c, o)          # it may also complete correctly
                if msg:
                    return f"the call after the idle death returned wrong results: {msg}", 1
                seen_death = True
        elif 'n' in c and c['base'] == 4000:
            if o.get('outcome') != 'ok':
                return (f"the death of an idle worker was reported AGAIN by a later call (base 4000): {o['exc']['type']}: "
                        f"{o['exc']['args'][:100]}"), 1
            msg = S.check_value(c, o)
            if msg:
                return f"call base=4000 after a reported idle death: {msg}", 1
    return None, 1


def gen_apply_failure(rng, k, sms):
    """a failure in the APPLY phase of a pool -- worker_init raising (with or without an init timeout configured), an apply
    task running into its timeout, an apply task raising -- and then: a map-family call (sometimes with a progress bar),
    another apply batch, another map call.  All of them must behave as on a fresh pool."""
    sm = sms[k % len(sms)]
    nj = rng.choice([1, 2, 3])
    mode = ['init_raise', 'init_raise_t', 'task_timeout', 'task_raise'][k % 4]
    if sm == 'threading' and mode == 'task_timeout':
        mode = 'task_raise'
    beh = []
    first = {'kind': 'apply_batch', 'jobs': [{'id': i, 'args': [1700 + i], 'cbs': [False, False]} for i in range(rng.choice([1, 3]))],
             'get_timeout': 20, 'no_join': True, 'apply_failure': mode, 'params': {}}
    if mode.startswith('init_raise'):
        first['init_raises'] = [rng.choice(['ValueError', 'CustomError']), 4242 + k]
        if mode == 'init_raise_t':
            first['params'] = {'worker_init_timeout': 30, 'worker_exit_timeout': 30}
    elif mode == 'task_timeout':
        first['jobs'][0]['timeout'] = 0.4
        beh.append({'at': 1700, 'do': 'block', 's': 30})
    else:
        beh.append({'at': 1700, 'do': 'raise', 'exc': 'ValueError'})
    mk = lambda base, pb: {'kind': rng.choice(['map', 'map_unordered', 'imap', 'imap_unordered']), 'n': rng.choice([3, 8]),
                           'input': 'list', 'elem': 'scalar', 'base': base,
                           'params': dict({'chunk_size': rng.choice([1, 2])}, **({'progress_bar': True} if pb else {}))}
    calls = [first, mk(2000, rng.random() < 0.6),
             {'kind': 'apply_batch', 'jobs': [{'id': i, 'args': [3700 + i], 'cbs': [False, False]} for i in range(3)], 'get_timeout': 20,
              'no_join': True},
             mk(4000, rng.random() < 0.3), {'kind': 'stop_and_join'}]
    return {'id': f'af{k}', 'pool': {'n_jobs': nj, 'start_method': sm, 'keep_alive': rng.random() < 0.5}, 'calls': calls, 'budget': 75,
            'behaviour': {'task': beh}, 'family': 'apply_failure'}


def oracle_apply_failure(rec):
    res = rec['result']
    calls = rec['scenario']['calls']
    first, o = calls[0], res['calls'][0]
    mode = first['apply_failure']
    if o.get('outcome') != 'ok':
        return f"the failing apply batch ({mode}) itself raised {o['exc']['type']}: {o['exc']['args'][:100]}", 1
    vals = o.get('value', [])
    if mode.startswith('init_raise'):
        exc, tag = first['init_raises']
        for v in vals:
            if v[0] != 'exc' or v[1] != exc or str(tag) not in v[2]:
                return f"apply with a raising worker_init ({exc}, {tag}): get() gave {str(v)[:140]}", 1
    else:
        v = vals[0]
        want = 'TimeoutError' if mode == 'task_timeout' else 'ValueError'
        if v[0] != 'exc' or v[1] != want:
            return f"failing apply task ({mode}): get() gave {str(v)[:140]}, expected {want}", 1
        for j, v in list(zip(first['jobs'], vals))[1:]:
            if v[0] != 'ok' or not (isinstance(v[1], list) and v[1][:2] == ['R', ['tuple', [j['args'][0]]]]):
                return f"apply job {j['args'][0]} next to a failing one ({mode}) returned {str(v)[:120]}", 1
    n = 1
    for c, o in list(zip(calls, res['calls']))[1:]:
        if c['kind'] == 'apply_batch':
            msg = S.check_apply_batch(c, o)
        elif 'n' in c:
            msg = (f"raised {o['exc']['type']}: {o['exc']['args'][:120]}" if o.get('outcome') != 'ok' else S.check_value(c, o))
        else:
            continue
        n += 1
        if msg:
            return f"after a failure in the apply phase ({mode}), call {c['kind']} base={c.get('base')}: {msg}", n
    return None, n


def analyse(recs):
    bad, hangs, n = [], [], 0
    for rec in recs:
        if rec['status'] != 'done' or not rec['result']:
            hangs.append(rec)
            continue
        fam = rec['scenario'].get('family')
        msg, k = oracle_idle_death(rec) if fam == 'idle_death' else oracle_apply_failure(rec) if fam == 'apply_failure' else oracle(rec)
        n += k
        if msg:
            bad.append((rec, msg))
    return bad, hangs, n


def run(ctx):
    rng = random.Random(ctx['seed'] + 6)
    t0 = time.time()
    proof = build_props('C06', GROUPS)
    sms = ['fork', 'fork', 'threading', 'forkserver', 'spawn'] if ctx['tier'] == 'quick' else S.START_METHODS
    scens = [S.gen_history(rng, k, ctx['tier'], sms, failures=True) for k in range(44 if ctx['tier'] == 'quick' else 400)]
    scens += [gen_idle_death(rng, k, sms) for k in range(9 if ctx['tier'] == 'quick' else 60)]
    scens += [gen_apply_failure(rng, k, sms) for k in range(12 if ctx['tier'] == 'quick' else 80)]
    recs = runner.run_many(scens, 'c06', jobs=10)
    bad, hangs, checked = analyse(recs)
    out_v = []
    for rec, msg in bad[:3]:
        again = runner.run_many([rec['scenario']] * 2, 'c06_re', jobs=2)
        b2, h2, _ = analyse(again)
        if b2 or h2:
            out_v.append(dict(found_input=True, what=msg, signature='C06:history', replay=dict(kind='scenario', scenario=rec['scenario'], got=msg)))
    for rec in hangs[:2]:
        again = runner.run_many([rec['scenario']], 'c06_re', jobs=1)
        if again[0]['status'] != 'done':
            out_v.append(dict(found_input=True, what=f"scenario did not finish: {rec['status']}", signature='C06:hang',
                              replay=dict(kind='scenario', scenario=rec['scenario'], got=rec['status'], stacks=rec['stacks'][-3000:])))
    modes = {}
    for sc in scens:
        for c in sc['calls']:
            if c.get('fail'):
                modes[c['fail']] = modes.get(c['fail'], 0) + 1
    cov = dict(evaluations=len(recs), distinct_nontrivial=len({str(r['scenario']['pool']) + str(r['scenario']['calls']) for r in recs if r['status'] == 'done'}),
               rule="histories of 2-4 map-family calls and setters on one pool where calls fail by task exception (3 exception "
                    "shapes), task timeout, SIGKILLed worker, nested-map misuse, or are closed early; idle-death family; apply-phase failures "
                    "(raising worker_init with/without init timeout, apply task timeout / exception) followed by map calls "
                    "with and without a progress bar and further apply batches; oracle: the failing call "
                    "raises the right error, every later call returns the sequential reference (either ordering mode, own "
                    "function, current shared objects), starts fresh workers (main's own log) and never surfaces the earlier error",
               samples=[dict(scenario=recs[0]['scenario'])], calls_checked=checked, failure_modes=modes,
               oracle_failures=len(bad), unfinished=len(hangs))
    return dict(proof=proof, violations=out_v, broken_obligation=proof['failed_obligation'], coverage=cov, wall_s=time.time() - t0)


def replay(payload):
    recs = runner.run_many([payload['scenario']], 'replay', jobs=1, keep=True)
    bad, hangs, _ = analyse(recs)
    print("status:", recs[0]['status'])
    for rec, msg in bad:
        print("oracle:", msg)
    return 1 if (bad or hangs) else 0

"""C07 -- abrupt worker death is contained at every crash point."""
import os
import random
import time

from lib import scen as S, runner
from lib.common import build_props, WORK

GROUPS = ['GenAsync', 'GenStruct', 'GenObserve']
LIMIT = 20
CAL = {}


def limit(sm='spawn'):
    return LIMIT + 6.0 * CAL.get(sm, 0.0)
POINTS = ['init', 'init_later', 'task', 'task', 'task', 'between', 'exit', 'idle_keepalive', 'apply_task', 'apply_task', 'idle_in_call']


def gen(rng, k, tier):
    point = POINTS[k % len(POINTS)]
    nj = rng.choice([1, 2, 3, 4])
    victim = rng.randrange(nj)
    pool = {'n_jobs': nj, 'start_method': rng.choice(['fork', 'fork', 'fork', 'forkserver', 'spawn'])}
    if rng.random() < 0.3:
        pool['pass_worker_id'] = True
    n = rng.choice([4, 9, 17, 30])
    params = {}
    m = rng.choice(['cs', 'cs', 'def', 'ns'])
    if m == 'cs':
        params['chunk_size'] = rng.choice([1, 2, 4])
    elif m == 'ns':
        params['n_splits'] = rng.choice([2, 5, 9])
    if rng.random() < 0.35:
        params['worker_lifespan'] = rng.choice([1, 2, 3])
    if rng.random() < 0.2:
        params['progress_bar'] = True
    if rng.random() < 0.3:
        params['max_tasks_active'] = rng.choice([1, 2, 3, 6])          # also below the chunk size
    kind = rng.choice(['map', 'map_unordered', 'imap', 'imap_unordered'])
    call = {'kind': kind, 'n': n, 'input': rng.choice(['list', 'gen']), 'elem': 'scalar', 'params': params, 'base': 1000,
            'init': rng.random() < 0.4, 'exit': rng.random() < 0.4}
    if call['input'] == 'gen':
        params['iterable_len'] = n
    behaviour, plan, calls = {}, [], [call]
    marker = os.path.join(WORK, 'markers', f'c07_{os.getpid()}_{k}_{rng.randrange(10**9)}')
    must_raise = None          # True: the call cannot complete; None: either a RuntimeError or a correct result
    if point == 'init':
        call['init'] = True
        behaviour['init'] = [{'do': 'die', 'worker': victim}]
        # the victim only runs init when it receives a task
        must_raise = None if nj > n else True
        if params.get('chunk_size', 1) * nj > n or 'n_splits' in params or m == 'def':
            must_raise = None
    elif point == 'init_later':
        # the init of a LATER instance: armed by a task of this call, needs restarts
        call['init'] = True
        params['worker_lifespan'] = rng.choice([1, 2])
        params['chunk_size'] = 1
        params.pop('n_splits', None)
        behaviour['task'] = [{'at': 1000 + rng.randrange(max(1, n // 2)), 'do': 'touch', 'path': marker}]
        behaviour['init'] = [{'do': 'die', 'if_file': marker}]
    elif point == 'task':
        behaviour['task'] = [{'at': 1000 + rng.choice([0, n - 1, rng.randrange(n)]), 'do': 'die'}]
        must_raise = True
        if rng.random() < 0.35:
            # a bound below the chunk size: main sits in the extra wait before it draws the next chunk
            params.pop('n_splits', None)
            params['chunk_size'] = rng.choice([3, 4, 5])
            params['max_tasks_active'] = rng.choice([1, 2])
    elif point == 'between':
        plan = [{'method': 'get_task', 'actor': 'worker', 'worker_id': victim, 'nth': rng.choice([2, 3]), 'per_process': True, 'action': 'qkill'}]
    elif point == 'exit':
        call['exit'] = True
        behaviour['exit'] = [{'do': 'die', 'worker': victim}]
    elif point == 'idle_keepalive':
        pool['keep_alive'] = True
        params.pop('worker_lifespan', None)
        call2 = dict(call, base=2000, params=dict(params))
        calls = [call, {'kind': 'kill_idle_worker', 'worker': victim, 'settle': rng.choice([0.05, 0.5])}, call2]
    elif point == 'idle_in_call':
        # not the first call of the pool; the victim dies at its first get_task of the second call, before it got any chunk of it
        call2 = dict(call, base=2000, params=dict(params))
        calls = [call, {'kind': 'touch', 'path': marker}, call2]
        plan = [{'method': 'get_task', 'actor': 'worker', 'worker_id': victim, 'nth': 1, 'per_process': True, 'action': 'qkill', 'if_file': marker}]
        pool['keep_alive'] = False
        pool['start_method'] = 'fork'
    elif point == 'apply_task':
        jobs = [{'id': i, 'args': [3000 + i], 'cbs': [True, True]} for i in range(rng.choice([2, 5, 9]))]
        dying = sorted(rng.sample(range(len(jobs)), rng.choice([1, 1, 2]) if len(jobs) > 2 else 1))
        behaviour['task'] = [{'at': 3000 + i, 'do': 'die'} for i in dying]
        calls = [{'kind': 'apply_batch', 'jobs': jobs, 'get_timeout': 25, 'join_first': rng.random() < 0.5}]
    return {'id': f'd{k}', 'pool': pool, 'calls': calls, 'budget': 60, 'behaviour': behaviour, 'plan': plan, 'point': point,
            'victim': victim, 'must_raise': must_raise, 'want_leaks': True, 'settle': 0.3}


def judge_map(call, out, must_raise, where):
    if out.get('outcome') == 'exc':
        e = out['exc']
        if e['type'] != 'RuntimeError' or 'died unexpectedly' not in e['args']:
            return f"{where}: the call raised {e['type']}{e['args'][:140]} instead of RuntimeError(died unexpectedly)"
        if out['wall'] > limit():
            return f"{where}: RuntimeError only after {out['wall']:.1f}s"
        part = out.get('partial', [])
        exp = S.expected_value(call)
        if call['kind'] == 'imap' and part != exp[:len(part)]:
            return f"{where}: imap yielded wrong values before the RuntimeError: {str(part)[:120]}"
        if call['kind'] == 'imap_unordered' and any(S.key(v) not in {S.key(x) for x in exp} for v in part):
            return f"{where}: imap_unordered yielded wrong values before the RuntimeError: {str(part)[:120]}"
        return None
    if must_raise:
        return f"{where}: a worker died inside a task, yet the call returned {len(out.get('value') or [])} values"
    return S.check_value(call, out)        # completes correctly: the full, correct result


def oracle(rec):
    res, sc = rec['result'], rec['scenario']
    point = sc['point']
    dying = [e for e in runner.all_events(rec, 'dying')] + [e for e in runner.all_events(rec, 'plan') if e.get('action') == 'qkill']
    if 'pool_exc' in res:
        return f"{point}: leaving the pool raised {res['pool_exc']['type']}: {res['pool_exc']['args'][:120]}"
    if point == 'apply_task':
        call, out = sc['calls'][0], res['calls'][0]
        if out.get('outcome') != 'ok':
            return f"apply: the batch raised {out['exc']['type']}: {out['exc']['args'][:120]}"
        die_keys = {b['at'] for b in sc['behaviour']['task']}
        for j, v, ready in zip(call['jobs'], out['value'], out['ready']):
            key = j['args'][0]
            if key in die_keys:
                if v[0] != 'exc' or v[1] != 'RuntimeError' or 'died unexpectedly' not in v[2]:
                    return f"apply: the task that killed its worker ended as {str(v)[:120]}"
            elif v != ['ok', S.ref_call('scalar', key)]:
                return f"apply: task {key} (not the victim's) ended as {str(v)[:120]}"
            if not ready:
                return f"apply: task {key} not ready after stop_and_join"
        ecb = [c for c in out['callbacks'] if c[0] == 'ecb']
        if sorted(c[1] for c in ecb) != sorted(k - 3000 for k in die_keys):
            return f"apply: error callbacks {ecb} for dying tasks {sorted(die_keys)}"
        if out['wall'] > limit() + 10:
            return f"apply: batch took {out['wall']:.1f}s"
        return None
    if point in ('idle_keepalive', 'idle_in_call'):
        c1, _, c2 = sc['calls']
        o1, _, o2 = res['calls']
        msg = S.check_value(c1, o1)
        if msg:
            return f'{point}, first call: ' + msg
        return judge_map(c2, o2, None, f'{point}, call with / after the kill')
    call, out = sc['calls'][0], res['calls'][0]
    if not dying:
        # the crash point was not reached (e.g. the victim never got a task): the call must be correct
        msg = S.check_value(call, out)
        return f"{point} (not reached): {msg}" if msg else None
    must = sc['must_raise']
    if point == 'task':
        must = True
    return judge_map(call, out, must, point)


def leaks(rec):
    res = rec['result']
    aft = res.get('after_exit')
    if aft and aft['children']:
        # the interpreter's own helpers (resource tracker, fork server) live as long as the main process
        live = [c for c in aft['children'] if c['state'] != 'Z' and 'resource_tracker import main' not in c['cmd']
                and 'forkserver import main' not in c['cmd']]
        if live:
            return f"{rec['scenario']['point']}: {len(live)} child process(es) still alive after the pool was left: {live[:2]}"
    return None


def analyse(recs):
    bad, hangs = [], []
    for rec in recs:
        if rec['status'] != 'done' or not rec['result'] or len(rec['result']['calls']) < len(rec['scenario']['calls']):
            hangs.append(rec)
            continue
        msg = oracle(rec) or leaks(rec)
        if msg:
            bad.append((rec, msg))
    return bad, hangs


def run(ctx):
    rng = random.Random(ctx['seed'] + 7)
    t0 = time.time()
    os.makedirs(os.path.join(WORK, 'markers'), exist_ok=True)
    proof = build_props('C07', GROUPS)
    CAL.update(runner.calibrate(('fork', 'forkserver', 'spawn')))
    quick = ctx['tier'] == 'quick'
    scens = [gen(rng, k, ctx['tier']) for k in range(60 if quick else 600)]
    recs = runner.run_many(scens, 'c07', jobs=10)
    bad, hangs = analyse(recs)
    out_v, seen = [], set()
    for rec, msg in bad[:8]:
        sig = msg.split(':')[0][:40]
        if sig in seen:
            continue
        seen.add(sig)
        again = runner.run_many([rec['scenario']] * 3, 'c07_re', jobs=3)
        b2, h2 = analyse(again)
        if b2 or h2:
            out_v.append(dict(found_input=True, what=msg, signature='C07:' + sig,
                              replay=dict(kind='scenario', scenario=rec['scenario'], got=msg, reproduced=f"{len(b2) + len(h2)}/3")))
    for rec in hangs[:4]:
        sig = 'hang:' + rec['scenario']['point']
        if sig in seen:
            continue
        seen.add(sig)
        again = runner.run_many([rec['scenario']] * 2, 'c07_re', jobs=2)
        if any(a['status'] != 'done' for a in again):
            out_v.append(dict(found_input=True, what=f"crash point '{rec['scenario']['point']}': the scenario did not finish ({rec['status']})",
                              signature='C07:' + sig, replay=dict(kind='scenario', scenario=rec['scenario'], got=rec['status'], stacks=rec['stacks'][-4000:])))
    dist, reached, outcomes = {}, {}, {}
    for r in recs:
        sc = r['scenario']
        dist[sc['point']] = dist.get(sc['point'], 0) + 1
        dist['start:' + sc['pool']['start_method']] = dist.get('start:' + sc['pool']['start_method'], 0) + 1
        if any(True for _ in runner.all_events(r, 'dying')) or any(e.get('action') == 'qkill' for e in runner.all_events(r, 'plan')) \
                or sc['point'] in ('idle_keepalive',):
            reached[sc['point']] = reached.get(sc['point'], 0) + 1
        if r['status'] == 'done' and r['result'] and r['result']['calls']:
            o = r['result']['calls'][-1]
            t = sc['point'] + ':' + (o['exc']['type'] if o.get('outcome') == 'exc' else 'returned')
            outcomes[t] = outcomes.get(t, 0) + 1
    for f in os.listdir(os.path.join(WORK, 'markers')):
        if f.startswith(f'c07_{os.getpid()}_'):
            os.unlink(os.path.join(WORK, 'markers', f))
    cov = dict(evaluations=len(recs), distinct_nontrivial=len({str(r['scenario']['pool']) + str(r['scenario']['calls']) + str(r['scenario']['behaviour']) for r in recs}),
               rule="a worker SIGKILLs itself (after letting its queue feeder quiesce) at a chosen crash point: inside worker_init of the "
                    "first or of a later instance, inside task i (first / last / any), between two tasks (at its k-th get_task), inside "
                    "worker_exit, while idle in a kept-alive pool (killed from outside), inside an apply task; x victim x n_jobs x lifespan x "
                    "chunking x progress bar x map/imap/apply x fork/forkserver/spawn. Oracle: map family -> RuntimeError(died unexpectedly) "
                    "within seconds, or the complete correct result when every result had been delivered (never when the victim died "
                    "inside a task); values yielded before are correct; leaving the pool does not raise or hang and leaves no live child; "
                    "apply -> exactly the dying tasks fail (error callback once), all others return their own value, all ready after "
                    "stop_and_join",
               samples=[dict(scenario=recs[0]['scenario'])], crash_points=dist, crash_points_reached=reached, outcomes=outcomes,
               oracle_failures=len(bad), unfinished=len(hangs))
    return dict(proof=proof, violations=out_v, broken_obligation=proof['failed_obligation'], coverage=cov, wall_s=time.time() - t0)


def replay(payload):
    CAL.update(runner.calibrate(('fork', 'forkserver', 'spawn')))
    recs = runner.run_many([payload['scenario']], 'replay', jobs=1, keep=True)
    bad, hangs = analyse(recs)
    print("status:", recs[0]['status'])
    for rec, msg in bad:
        print("oracle:", msg)
    if hangs:
        print(recs[0]['stacks'][-3000:])
    return 1 if (bad or hangs) else 0

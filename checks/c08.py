"""C08 -- timeouts fire if and only if exceeded, and promptly."""
import json
import os
import random
import subprocess
import time

from lib import scen as S, runner
from lib.common import build_props, coq_eval, WORK, REPO, VERIF, PY

GROUPS = ['GenAsync', 'GenStruct', 'GenObserve']
SLACK = {'fork': 4.0, 'forkserver': 7.0, 'spawn': 8.0, 'threading': 4.0}
CAL = {}


def slack(sm):
    return SLACK[sm] + 6.0 * CAL.get(sm, 0.0)


def gen_quiet(rng, k, sms):
    """nothing overruns: short functions, long idle gaps, restarts, keep-alive reuse -> no TimeoutError ever"""
    sm = sms[k % len(sms)]
    t = rng.choice([0.6, 0.8])
    nj = rng.choice([1, 2, 3])
    pool = {'n_jobs': nj, 'start_method': sm, 'keep_alive': rng.random() < 0.8}
    if rng.random() < 0.3:
        pool['use_worker_state'] = True
    calls = []
    mode = rng.choice(['map', 'map', 'apply'])
    if mode == 'map':
        for j in range(rng.choice([2, 3])):
            params = {'task_timeout': t, 'worker_init_timeout': t, 'worker_exit_timeout': t, 'chunk_size': rng.choice([1, 2])}
            if rng.random() < 0.4:
                params['worker_lifespan'] = rng.choice([1, 2])
            calls.append({'kind': rng.choice(['map', 'map_unordered', 'imap', 'imap_unordered']), 'n': rng.choice([3, 8, 15]), 'input': 'list',
                          'elem': 'scalar', 'params': params, 'base': 1000 * (j + 1), 'init': True, 'exit': True})
            calls.append({'kind': 'sleep', 's': t + rng.choice([0.3, 0.7])})
        if rng.random() < 0.5:
            calls.insert(2, {'kind': 'setter', 'name': 'set_keep_alive', 'args': [rng.random() < 0.5]})
    else:
        pool.pop('use_worker_state', None)
        nb = 0
        for j in range(rng.choice([2, 3])):
            jobs = [{'id': nb + i, 'args': [5000 + nb + i], 'timeout': t, 'cbs': [True, True]} for i in range(rng.choice([1, 3, 6]))]
            nb += len(jobs)
            calls.append({'kind': 'apply_batch', 'jobs': jobs, 'get_timeout': 20, 'no_join': True})
            calls.append({'kind': 'sleep', 's': t + rng.choice([0.3, 0.7])})
    calls.append({'kind': 'stop_and_join'})
    sc = {'id': f'q{k}', 'pool': pool, 'calls': calls, 'budget': 60, 'behaviour': {}, 'mode': 'quiet:' + mode, 't': t,
          'env': {'VERIF_TASK_SLEEP': rng.choice(['0', '0.01', '0.03'])}}
    return S.annotate_history(sc) if mode == 'map' else sc


def gen_overrun(rng, k, sms):
    sm = [m for m in sms if m != 'threading'][k % (len(sms) - 1)]
    t = rng.choice([0.3, 0.5])
    nj = rng.choice([1, 2, 3, 4])
    nblock = rng.choice([1, 1, 2, nj])
    nblock = min(nblock, nj)
    victims = sorted(rng.sample(range(nj), nblock))
    dur = rng.choice([10 * t, 30, 3600])
    which = rng.choice(['task', 'task', 'init', 'exit', 'exit', 'apply'])
    pool = {'n_jobs': nj, 'start_method': sm}
    behaviour = {}
    if which == 'apply':
        jobs = [{'id': i, 'args': [6000 + i], 'timeout': t, 'cbs': [True, True]} for i in range(rng.choice([2, 5, 8]))]
        nb = min(len(jobs), rng.choice([1, 2, 3]))
        blockers = sorted(rng.sample(range(len(jobs)), nb))
        behaviour['task'] = [{'at': 6000 + i, 'do': 'block', 's': dur} for i in blockers]
        calls = [{'kind': 'apply_batch', 'jobs': jobs, 'get_timeout': 30, 'join_first': rng.random() < 0.3}]
        return {'id': f'o{k}', 'pool': pool, 'calls': calls, 'budget': 75, 'behaviour': behaviour, 'mode': 'overrun:apply', 't': t,
                'nblock': nb, 'dur': dur}
    params = {'chunk_size': 1}
    if rng.random() < 0.3:
        params['worker_lifespan'] = rng.choice([1, 2])
    n = rng.choice([nj, 2 * nj + 1, 12])
    call = {'kind': rng.choice(['map', 'map_unordered', 'imap', 'imap_unordered']), 'n': n, 'input': 'list', 'elem': 'scalar',
            'params': params, 'base': 1000, 'init': which == 'init' or rng.random() < 0.3, 'exit': which == 'exit' or rng.random() < 0.3}
    params[{'task': 'task_timeout', 'init': 'worker_init_timeout', 'exit': 'worker_exit_timeout'}[which]] = t
    behaviour[which] = [{'do': 'block', 's': dur, 'worker': w} for w in victims]
    if which == 'task' and rng.random() < 0.4:
        behaviour['task'] = [{'at': 1000 + rng.randrange(n), 'do': 'block', 's': dur}]
        nblock = 1
    return {'id': f'o{k}', 'pool': pool, 'calls': [call], 'budget': 75, 'behaviour': behaviour, 'mode': 'overrun:' + which, 't': t,
            'nblock': nblock, 'dur': dur}


def gen_late(rng, k, sms):
    """the init / exit timeout that holds on kept-alive workers is the one of the most recent call: (late) call 1 has no
    worker_exit_timeout, call 2 sets one and worker_exit blocks -> stop_and_join raises TimeoutError promptly; (raised) call 1
    has a short worker_exit_timeout, call 2 raises it far above what worker_exit takes -> no TimeoutError"""
    sm = [m for m in sms if m != 'threading'][k % 3]
    mode = ['late', 'raised'][k % 2]
    t = 0.5
    mk = lambda base, to: {'kind': rng.choice(['map', 'map_unordered', 'imap', 'imap_unordered']), 'n': 4, 'input': 'list', 'elem': 'scalar',
                           'base': base, 'exit': True, 'params': dict({'chunk_size': 1}, **({'worker_exit_timeout': to} if to else {}))}
    if mode == 'late':
        calls = [mk(1000, None), {'kind': 'sleep', 's': 2 * t}, mk(2000, t), {'kind': 'stop_and_join'}]
        beh = {'exit': [{'do': 'block', 's': 40, 'worker': w} for w in range(2)]}
    else:
        calls = [mk(1000, 0.3), {'kind': 'sleep', 's': 0.6}, mk(2000, 30), {'kind': 'stop_and_join'}]
        beh = {'exit': [{'do': 'sleep', 's': 1.5, 'worker': w} for w in range(2)]}
    return {'id': f'v{k}', 'pool': {'n_jobs': 2, 'start_method': sm, 'keep_alive': True}, 'calls': calls, 'budget': 60, 'behaviour': beh,
            'mode': 'kept:' + mode, 't': t}


def gen_burst(rng, k):
    return {'id': f'u{k}', 'pool': {'n_jobs': 2, 'start_method': 'fork'}, 'budget': 150, 'behaviour': {}, 'mode': 'burst', 't': 0.5,
            'env': {'MPIRE_VERIF_TRACE': '0'},
            'calls': [{'kind': 'apply_burst', 'burst': rng.choice([100000, 140000]), 'timeout': 0.5, 'gate': 2.0, 'max_wait': 10}]}


def oracle(rec):
    res, sc = rec['result'], rec['scenario']
    if sc['mode'] == 'burst':
        o = res['calls'][0]
        if o.get('outcome') != 'ok':
            return f"burst: raised {o['exc']['type']}: {o['exc']['args'][:120]}"
        b = o['burst']
        if b['wrong']:
            return f"burst: {b['wrong']} quick apply tasks returned a wrong value"
        if not b['ready'] or b.get('result') != 'TimeoutError':
            return (f"burst: after {sc['calls'][0]['burst']} quick apply tasks without a timeout, a task blocking 60 s with task_timeout=0.5 "
                    f"ended as {b.get('result')} (ready={b['ready']}) after {b['elapsed']:.1f}s: the timeout never fired")
        if b['elapsed'] > 0.5 + slack('fork'):
            return f"burst: TimeoutError only after {b['elapsed']:.1f}s"
        return None
    if sc['mode'].startswith('kept:'):
        sm = sc['pool']['start_method']
        for c, o in zip(sc['calls'], res['calls']):
            if 'n' in c:
                if o.get('outcome') != 'ok':
                    return f"{sc['mode']}: map call base={c['base']} raised {o['exc']['type']}: {o['exc']['args'][:100]}"
                msg = S.check_value(c, o)
                if msg:
                    return f"{sc['mode']}: {msg}"
            elif c['kind'] == 'stop_and_join':
                if sc['mode'] == 'kept:late':
                    if o.get('outcome') != 'exc' or o['exc']['type'] != 'TimeoutError':
                        return (f"kept-alive workers, worker_exit_timeout={sc['t']} introduced by the SECOND call, worker_exit blocks: "
                                f"stop_and_join ended as {o.get('outcome')} {o.get('exc', {}).get('type')} - the timeout in force is not enforced")
                    if o['wall'] > sc['t'] + slack(sm):
                        return f"kept:late: TimeoutError only after {o['wall']:.1f}s"
                elif o.get('outcome') != 'ok':
                    return (f"kept-alive workers, worker_exit_timeout raised from 0.3 to 30 by the second call, worker_exit takes 1.5 s: "
                            f"stop_and_join raised {o['exc']['type']}: {o['exc']['args'][:100]} - a timeout of an EARLIER call fired")
        return None
    if 'pool_exc' in res:
        return f"{sc['mode']}: leaving the pool raised {res['pool_exc']['type']}: {res['pool_exc']['args'][:120]}"
    sm = sc['pool']['start_method']
    t = sc['t']
    if sc['mode'].startswith('quiet'):
        for c, o in zip(sc['calls'], res['calls']):
            if c['kind'] == 'apply_batch':
                if o.get('outcome') != 'ok':
                    return f"quiet apply batch raised {o['exc']['type']}: {o['exc']['args'][:100]}"
                for j, v in zip(c['jobs'], o['value']):
                    if v != ['ok', S.ref_call('scalar', j['args'][0])]:
                        return f"quiet: apply task {j['args'][0]} (fast, timeout {t}s) ended as {str(v)[:120]}"
            elif 'n' in c:
                if o.get('outcome') != 'ok':
                    return (f"quiet: nothing takes longer than a few ms, all timeouts are {t}s, yet call base={c['base']} raised "
                            f"{o['exc']['type']}: {o['exc']['args'][:120]}")
                msg = S.check_value(c, o)
                if msg:
                    return f"quiet: call base={c['base']}: {msg}"
            elif o.get('outcome') != 'ok':
                return f"quiet: {c['kind']} raised {o['exc']['type']}: {o['exc']['args'][:100]}"
        return None
    call, out = sc['calls'][0], res['calls'][0]
    blocked = [e for e in runner.all_events(rec, 'blocking')]
    if sc['mode'] == 'overrun:apply':
        if out.get('outcome') != 'ok':
            return f"overrun apply: the batch raised {out['exc']['type']}: {out['exc']['args'][:100]}"
        bl = {b['at'] for b in sc['behaviour']['task']}
        for j, v in zip(call['jobs'], out['value']):
            key = j['args'][0]
            if key in bl:
                if v[0] != 'exc' or v[1] != 'TimeoutError':
                    return f"overrun apply: task {key} blocks for {sc['dur']}s with timeout {t}s but ended as {str(v)[:100]}"
            elif v != ['ok', S.ref_call('scalar', key)]:
                return f"overrun apply: task {key} does not overrun but ended as {str(v)[:120]}"
        lim = len(bl) * t + slack(sm) + 2
        if out['wall'] > lim:
            return f"overrun apply: {len(bl)} overrunning task(s) with timeout {t}s: batch took {out['wall']:.1f}s (> {lim:.1f}s)"
        return None
    if not blocked:
        msg = S.check_value(call, out)
        return f"{sc['mode']} (no function blocked): {msg}" if msg else None
    if out.get('outcome') != 'exc':
        return f"{sc['mode']}: {len(blocked)} function call(s) block for {sc['dur']}s with timeout {t}s but the call returned"
    if out['exc']['type'] != 'TimeoutError':
        return f"{sc['mode']}: raised {out['exc']['type']}: {out['exc']['args'][:140]} instead of TimeoutError"
    lim = t + slack(sm)
    if out['wall'] > lim:
        return (f"{sc['mode']}: {sc['nblock']} worker(s) block for {sc['dur']}s, timeout {t}s: TimeoutError only after {out['wall']:.1f}s "
                f"(> {lim:.1f}s)")
    return None


def analyse(recs):
    bad, hangs = [], []
    for rec in recs:
        if rec['status'] != 'done' or not rec['result'] or len(rec['result']['calls']) < len(rec['scenario']['calls']):
            hangs.append(rec)
            continue
        msg = oracle(rec)
        if msg:
            bad.append((rec, msg))
    return bad, hangs


def kernel_differential(rng, n):
    """the translated decision kernel (evaluated inside Coq) against the REAL comms._has_worker_timed_out with
    the clock replaced, on the same (started, now, timeout) triples; and the stamp setters against the facts"""
    cases = []
    for _ in range(n):
        st = rng.choice([0, 0, rng.randrange(1, 10**6)])
        now = st + rng.randrange(-5, 2000) if st else rng.randrange(0, 10**6)
        t = rng.choice([1, 5, 100, 1999, rng.randrange(1, 3000)])
        cases.append((st, now, t))
    d = os.path.join(WORK, 'c08k.%d' % os.getpid())          # per process: quick and thorough may run at the same time
    os.makedirs(d, exist_ok=True)
    json.dump(cases, open(os.path.join(d, 'cases.json'), 'w'))
    env = dict(os.environ, PYTHONPATH=f"{REPO}:{os.path.join(VERIF, 'harness')}", PYTHONHASHSEED='0')
    subprocess.run([PY, os.path.join(VERIF, 'harness', 'c08_impl.py'), os.path.join(d, 'cases.json'), os.path.join(d, 'out.json')],
                   env=env, check=True, timeout=120)
    impl = json.load(open(os.path.join(d, 'out.json')))
    bodies = [f"(has_worker_timed_out ({st})%Z ({now})%Z ({t})%Z)" for st, now, t in cases]
    got = coq_eval('c08k', "From Mpv Require Import GenAsync.\nFrom Coq Require Import ZArith.\n", bodies, jobs=2)
    bad = [(c, e, g) for c, e, g in zip(cases, impl['results'], got) if str(e).lower() != str(g).strip().lower()]
    for kind, a, b in impl['stamps']:
        slot = {'init': 3, 'task': 4, 'exit': 5}[kind]          # worker 1
        if a[slot] != 1234.0 or any(x != 0 for i, x in enumerate(a) if i != slot) or any(x != 0 for x in b):
            bad.append((f'stamps of {kind}', a, b))
    return len(cases), bad


def run(ctx):
    rng = random.Random(ctx['seed'] + 8)
    t0 = time.time()
    proof = build_props('C08', GROUPS)
    CAL.update(runner.calibrate())
    quick = ctx['tier'] == 'quick'
    sms = ['fork', 'fork', 'threading', 'forkserver', 'spawn']
    scens = [gen_quiet(rng, k, sms) for k in range(24 if quick else 200)]
    scens += [gen_overrun(rng, k, sms) for k in range(40 if quick else 400)]
    scens += [gen_late(rng, k, sms) for k in range(4 if quick else 24)]
    scens += [gen_burst(rng, k) for k in range(1 if quick else 6)]
    recs = runner.run_many(scens, 'c08', jobs=8)
    bad, hangs = analyse(recs)
    nk, kbad = kernel_differential(rng, 300 if quick else 3000)
    out_v, seen = [], set()
    if kbad:
        out_v.append(dict(found_input=True, what=f"translated _has_worker_timed_out differs from the reference on {kbad[0]}", signature='C08:kernel',
                          replay=dict(kind='kernel', case=kbad[0])))
    for rec, msg in bad[:8]:
        sig = msg.split(':')[0][:30] + ':' + msg.split(':')[1][:20]
        if sig in seen:
            continue
        seen.add(sig)
        again = runner.run_many([rec['scenario']] * 3, 'c08_re', jobs=3)
        b2, h2 = analyse(again)
        if len(b2) + len(h2) >= 2:
            out_v.append(dict(found_input=True, what=msg, signature='C08:' + sig,
                              replay=dict(kind='scenario', scenario=rec['scenario'], got=msg, reproduced=f"{len(b2) + len(h2)}/3")))
    for rec in hangs[:4]:
        sig = 'hang:' + rec['scenario']['mode']
        if sig in seen:
            continue
        seen.add(sig)
        again = runner.run_many([rec['scenario']] * 2, 'c08_re', jobs=2)
        if any(a['status'] != 'done' for a in again):
            out_v.append(dict(found_input=True, what=f"{rec['scenario']['mode']}: the scenario did not finish ({rec['status']})", signature='C08:' + sig,
                              replay=dict(kind='scenario', scenario=rec['scenario'], got=rec['status'], stacks=rec['stacks'][-4000:])))
    dist, lat = {}, {}
    for r in recs:
        sc = r['scenario']
        dist[sc['mode']] = dist.get(sc['mode'], 0) + 1
        dist['start:' + sc['pool']['start_method']] = dist.get('start:' + sc['pool']['start_method'], 0) + 1
        if sc['mode'].startswith('overrun'):
            dist[f"nblock:{sc['nblock']}"] = dist.get(f"nblock:{sc['nblock']}", 0) + 1
            dist[f"dur:{sc['dur']}"] = dist.get(f"dur:{sc['dur']}", 0) + 1
            if r['status'] == 'done' and r['result']['calls'] and r['result']['calls'][0].get('outcome') == 'exc':
                lat.setdefault(sc['mode'], []).append(round(r['result']['calls'][0]['wall'] - sc['t'], 2))
    cov = dict(evaluations=len(recs) + nk, distinct_nontrivial=len({str(r['scenario']['pool']) + str(r['scenario']['calls']) + str(r['scenario']['behaviour']) for r in recs}),
               rule="(quiet) kept-alive and fresh pools, 2-3 map-family calls or apply batches with task/init/exit timeouts t in {0.6, 0.8}s, "
                    "functions taking milliseconds, idle gaps longer than t between calls, lifespan restarts, keep_alive toggles, 4 start "
                    "methods: no TimeoutError, all results correct. (overrun) init | task | exit | apply task blocks for 10t / 30 s / 3600 s "
                    "in 1..n_jobs workers, t in {0.3, 0.5}s, fork/forkserver/spawn: TimeoutError within t + start-method slack whatever the "
                    "number of blocked workers and the block duration; apply: exactly the overrunning tasks fail. Plus the translated decision "
                    "kernel against the reference on random (start, now, timeout) triples",
               samples=[dict(scenario=recs[0]['scenario'])], distribution=dist,
               latency_beyond_t={k: dict(n=len(v), max=max(v), median=sorted(v)[len(v) // 2]) for k, v in lat.items()},
               kernel_cases=nk, oracle_failures=len(bad), unfinished=len(hangs))
    return dict(proof=proof, violations=out_v, broken_obligation=proof['failed_obligation'], coverage=cov, wall_s=time.time() - t0)


def replay(payload):
    if payload.get('kind') == 'kernel':
        print('kernel case', payload['case'])
        return 1
    CAL.update(runner.calibrate())
    recs = runner.run_many([payload['scenario']], 'replay', jobs=1, keep=True)
    bad, hangs = analyse(recs)
    print("status:", recs[0]['status'])
    for rec, msg in bad:
        print("oracle:", msg)
    if hangs:
        print(recs[0]['stacks'][-3000:])
    return 1 if (bad or hangs) else 0

"""C09 -- apply/apply_async: correct value, single callback, failures isolated."""
import random
import time

from lib import scen as S, runner
from lib.common import build_props

GROUPS = ['GenAsync', 'GenStruct']


def gen(rng, count, tier):
    scens = []
    sms = ['fork', 'threading', 'fork', 'forkserver', 'spawn'] if tier == 'quick' else S.START_METHODS
    for k in range(count):
        nj = rng.choice([1, 2, 3, 4])
        sm = sms[k % len(sms)]
        pool = {'n_jobs': nj, 'start_method': sm}
        if rng.random() < 0.3:
            pool['pass_worker_id'] = True
        if rng.random() < 0.3:
            pool['shared_objects'] = ['sh', k]
        njobs = rng.choice([1, 3, 6, 12]) if tier == 'quick' else rng.choice([3, 12, 40])
        jobs, beh = [], []
        for i in range(njobs):
            key = 9000 + i
            j = {'id': i, 'args': [key], 'cbs': rng.choice([[True, True], [True, True], [True, False], [False, True], [False, False]])}
            r = rng.random()
            if r < 0.25:
                j['expect'] = 'raise'
                exc = rng.choice(['ValueError', 'CustomError', 'AttrError', 'CtorArgs'])
                beh.append({'at': key, 'do': 'raise', 'exc': exc})
                j['exc'] = {'CtorArgs': 'CtorError'}.get(exc, exc)
            elif r < 0.4 and sm != 'threading':
                j['expect'] = 'timeout'
                j['timeout'] = 0.4
                if rng.random() < 0.4 and not any(x.get('ecb_sleep') for x in jobs):
                    # (one per batch: callbacks run in the timeout handler's thread, so a slow one delays the next check)
                    # the task would finish on its own shortly after the deadline, and the error callback is slow: the interrupted
                    # task must not deliver a second result in the meantime
                    beh.append({'at': key, 'do': 'sleep', 's': 1.0})
                    j['ecb_sleep'] = 1.2
                    j['cbs'] = [True, True]
                else:
                    beh.append({'at': key, 'do': 'block', 's': 30})
            else:
                j['expect'] = 'ok'
                if rng.random() < 0.3:
                    j['timeout'] = 5.0          # finishes well within its timeout
            jobs.append(j)
        if k % 5 == 4:
            # apply tasks submitted WHILE a lazy map call (ordered or unordered) is in flight on the same pool: they are
            # plain apply tasks all the same
            lazy = {'kind': rng.choice(['imap', 'imap', 'imap_unordered']), 'n': rng.choice([6, 10]), 'input': 'list', 'elem': 'scalar',
                    'params': {'chunk_size': 1}, 'base': 1000,
                    'apply_inside': {'after': rng.choice([1, 2, 4]), 'jobs': [{'args': [9000 + i]} for i in range(rng.choice([1, 3]))]}}
            scens.append({'id': f'p{k}', 'pool': {'n_jobs': nj, 'start_method': sm, 'keep_alive': rng.random() < 0.5}, 'calls': [lazy],
                          'budget': 60, 'behaviour': {}, 'family': 'inside'})
            continue
        call = {'kind': 'apply_batch', 'jobs': jobs, 'join_first': rng.random() < 0.5, 'dynamic_extras': True, 'get_timeout': 30}
        sc = {'id': f'p{k}', 'pool': pool, 'calls': [call], 'budget': 60, 'behaviour': {'task': beh}}
        scens.append(S.annotate_history(sc))
    return scens


def oracle(rec):
    sc = rec['scenario']
    out = rec['result']['calls'][0]
    if sc.get('family') == 'inside':
        c = sc['calls'][0]
        if out.get('outcome') != 'ok':
            return f"lazy call with apply tasks submitted while it is in flight raised {out['exc']['type']}: {out['exc']['args'][:160]}", 1
        msg = S.check_value(c, out)
        if msg:
            return f"lazy call with apply tasks inside: {msg}", 1
        vals = out.get('apply_inside')
        if vals is None:
            return "apply tasks inside the lazy call were never submitted", 1
        for j, v in zip(c['apply_inside']['jobs'], vals):
            if v != ['ok', S.ref_call('scalar', j['args'][0])]:
                return f"apply task {j['args'][0]} submitted while {c['kind']} was in flight: get() gave {str(v)[:200]}", 1
        return None, len(vals)
    if out.get('outcome') != 'ok':
        return f"apply batch raised {out['exc']['type']}: {out['exc']['args'][:200]}", 0
    shared = sc['pool'].get('shared_objects')
    jobs = sc['calls'][0]['jobs']
    cbs = {}
    for e in out['callbacks']:
        cbs.setdefault(e[1], []).append(e)
    n = 0
    for j, v, ready in zip(jobs, out['value'], out['ready']):
        n += 1
        if not ready:
            return f"job {j['id']} is not ready after stop_and_join", n
        mine = cbs.get(j['id'], [])
        has_cb, has_ecb = j.get('cbs', [True, True])
        want_n = 1 if ((j['expect'] == 'ok' and has_cb) or (j['expect'] != 'ok' and has_ecb)) else 0
        if len(mine) != want_n:
            return (f"job {j['id']} ({j['expect']}, callback={has_cb}, error_callback={has_ecb}): {len(mine)} callback "
                    f"invocations, expected {want_n}: {str(mine)[:160]}"), n
        if want_n == 0:
            if j['expect'] == 'ok':
                pass
            mine = [['cb' if j['expect'] == 'ok' else 'ecb', j['id'], None]]
        if j['expect'] == 'ok':
            want = ['R', ['tuple', list(j['args'])], ['dict', []]] + ([['S', S.ref_call('scalar', 0, shared)[3][1]]] if shared is not None else [])
            if v != ['ok', want]:
                return f"job {j['id']}: get() gave {str(v)[:160]}, expected {str(want)[:120]}", n
            if mine[0][0] != 'cb' or (want_n and mine[0][2] != want):
                return f"job {j['id']}: callback log {str(mine)[:160]}", n
        elif j['expect'] == 'raise':
            if v[0] != 'exc' or v[1] != j['exc']:
                return f"job {j['id']}: expected {j['exc']} from get(), got {str(v)[:160]}", n
            if mine[0][0] != 'ecb' or (want_n and mine[0][2] != j['exc']):
                return f"job {j['id']}: error callback log {str(mine)[:160]}", n
        else:
            if v[0] != 'exc' or v[1] != 'TimeoutError':
                return f"job {j['id']}: expected TimeoutError, got {str(v)[:160]}", n
            if mine[0][0] != 'ecb' or (want_n and mine[0][2] != 'TimeoutError'):
                return f"job {j['id']}: error callback log {str(mine)[:160]}", n
    return None, n


def analyse(recs):
    bad, hangs, n = [], [], 0
    for rec in recs:
        if rec['status'] != 'done' or not rec['result'] or not rec['result']['calls']:
            hangs.append(rec)
            continue
        msg, k = oracle(rec)
        n += k
        if msg:
            bad.append((rec, msg))
    return bad, hangs, n


def run(ctx):
    rng = random.Random(ctx['seed'] + 9)
    t0 = time.time()
    proof = build_props('C09', GROUPS)
    scens = gen(rng, 40 if ctx['tier'] == 'quick' else 300, ctx['tier'])
    recs = runner.run_many(scens, 'c09', jobs=10)
    bad, hangs, n = analyse(recs)
    out_v = []
    for rec, msg in bad[:3]:
        again = runner.run_many([rec['scenario']] * 2, 'c09_re', jobs=2)
        b2, h2, _ = analyse(again)
        if b2 or h2:
            out_v.append(dict(found_input=True, what=msg, signature='C09:apply', replay=dict(kind='scenario', scenario=rec['scenario'], got=msg)))
    for rec in hangs[:2]:
        again = runner.run_many([rec['scenario']], 'c09_re', jobs=1)
        if again[0]['status'] != 'done':
            out_v.append(dict(found_input=True, what=f"scenario did not finish: {rec['status']}", signature='C09:hang',
                              replay=dict(kind='scenario', scenario=rec['scenario'], got=rec['status'], stacks=rec['stacks'][-3000:])))
    mix = {}
    for sc in scens:
        if sc.get('family') == 'inside':
            mix['inside_lazy_call'] = mix.get('inside_lazy_call', 0) + 1
            continue
        for j in sc['calls'][0]['jobs']:
            mix[j['expect']] = mix.get(j['expect'], 0) + 1
    cov = dict(evaluations=len(recs), distinct_nontrivial=len({str(r['scenario']['pool']) + str(r['scenario']['calls']) for r in recs if r['status'] == 'done'}),
               rule="batches of 1-12 (40 thorough) apply_async submissions on 1-4 workers mixing success, three exception shapes, "
                    "overruns with a 0.4 s timeout and generous timeouts, results fetched before or after stop_and_join, extras "
                    "prepended; oracle: get() value / exception type per job, exactly one callback or error_callback per job with "
                    "that value, every job ready after stop_and_join, the batch itself never fails; plus apply tasks submitted while an "
                    "ordered / unordered lazy map call is in flight on the same pool",
               samples=[dict(scenario=recs[0]['scenario'])], jobs_checked=n, outcome_mix=mix, oracle_failures=len(bad), unfinished=len(hangs))
    return dict(proof=proof, violations=out_v, broken_obligation=proof['failed_obligation'], coverage=cov, wall_s=time.time() - t0)


def replay(payload):
    recs = runner.run_many([payload['scenario']], 'replay', jobs=1, keep=True)
    bad, hangs, _ = analyse(recs)
    print("status:", recs[0]['status'])
    for rec, msg in bad:
        print("oracle:", msg)
    return 1 if (bad or hangs) else 0

"""C10 -- keep_alive: same workers, but each call runs with its own parameters."""
import collections
import random
import time

from lib import scen as S, runner
from lib.common import build_props

GROUPS = ['GenStruct', 'GenParams']


def call_of_event(e):
    a = e.get('args')
    if isinstance(a, list) and a and a[0] == 'tuple' and a[1] and isinstance(a[1][0], int):
        return a[1][0] // 1000
    kw = e.get('kwargs')
    if isinstance(kw, list) and kw and kw[0] == 'dict':
        for k, v in kw[1]:
            if k == 'i' and isinstance(v, int):
                return v // 1000
    return None


def oracle(rec):
    res = rec['result']
    calls = rec['scenario']['calls']
    pool = dict(rec['scenario']['pool'])
    layout = [bool(pool.get('pass_worker_id')), pool.get('shared_objects') is not None, bool(pool.get('use_worker_state'))]
    keep = bool(pool.get('keep_alive'))
    # instances per call, from the user function's own log
    inst_of_call = collections.defaultdict(set)
    state_ok = None
    for tok, evs in S.instances(rec).items():
        prev_calls = None
        for e in evs:
            if e.get('k') in ('task', 'init'):
                # worker_init touches the state as well; a worker started by apply_async runs it later, at its first map chunk
                c = call_of_event(e) if e.get('k') == 'task' else None
                if c is not None:
                    inst_of_call[c].add(tok)
                if 'state_token' in e:
                    if e['state_token'] not in (None, tok):
                        state_ok = f"instance {tok} saw the worker_state of instance {e['state_token']}"
                    if prev_calls is not None and e['state_calls'] != prev_calls + 1:
                        state_ok = f"instance {tok}: worker_state was not preserved (call counter {prev_calls} -> {e['state_calls']})"
                    prev_calls = e['state_calls']
    if state_ok:
        return state_ok, 0
    # main's own log: were the workers (re)started before the first chunk of each call?
    started_before = {}            # job id -> True when init_comms happened since the previous job's chunks
    order = []
    for name, evs in rec['events'].items():
        pending = False
        for e in evs:
            if e.get('k') != 'call':
                continue
            if e.get('m') == 'init_comms':
                pending = True
            elif e.get('m') == 'add_task' and e.get('what') == 'chunk' and e.get('job') is not None and e['job'] >= 0:
                if e['job'] not in started_before:
                    started_before[e['job']] = pending
                    order.append(e['job'])
                    pending = False
    expect_fresh = True            # first call: no workers yet
    settings_changed = False
    checked = 0
    jobs = list(order)
    for c, out in zip(calls, res['calls']):
        if c['kind'] == 'setter':
            if c['name'] == 'set_keep_alive':
                keep = bool(c['args'][0])
            elif c['name'] == 'set_shared_objects':
                if c['args'][0] != c.get('_old'):
                    settings_changed = True
                layout[1] = c['args'][0] is not None
            else:
                idx = {'pass_on_worker_id': 0, 'set_use_worker_state': 2}[c['name']]
                if bool(c['args'][0]) != layout[idx]:
                    settings_changed = True
                layout[idx] = bool(c['args'][0])
            continue
        if 'n' not in c:
            continue
        if out.get('outcome') != 'ok':
            return f"call base={c['base']} raised {out['exc']['type']}: {out['exc']['args']}", checked
        msg = S.check_value(c, out)
        if msg:
            return f"call base={c['base']}: {msg}", checked
        if c['n'] > 0:
            if not jobs:
                return f"call base={c['base']}: no dispatch found in main's log", checked
            job = jobs.pop(0)
            fresh = started_before[job]
            want = expect_fresh or settings_changed
            checked += 1
            if fresh and not want:
                return f"call base={c['base']}: kept-alive workers were restarted although nothing changed", checked
            if want and not fresh:
                return (f"call base={c['base']}: expected fresh workers ("
                        f"{'settings changed' if settings_changed else 'no keep_alive / first call'}) but the live ones were reused"), checked
            settings_changed = False
            expect_fresh = not keep
        else:
            # an empty call still starts workers if there are none and shuts them down without keep_alive
            if expect_fresh or settings_changed:
                settings_changed = False
            expect_fresh = not keep
    return None, checked


def fix_shared_tracking(sc):
    """record for every set_shared_objects call the value in force before it (the pool restarts only on a changed value)"""
    cur = sc['pool'].get('shared_objects')
    for c in sc['calls']:
        if c.get('kind') == 'setter' and c.get('name') == 'set_shared_objects':
            c['_old'] = cur
            cur = c['args'][0]
    return sc


def analyse(recs):
    bad, hangs, n = [], [], 0
    for rec in recs:
        if rec['status'] != 'done' or not rec['result']:
            hangs.append(rec)
            continue
        if str(rec['scenario'].get('mode', '')).startswith('kept:'):
            # the init / exit timeouts in force on kept-alive workers are the CURRENT call's (shared with C08)
            from checks import c08
            msg, k = c08.oracle(rec), 1
        else:
            msg, k = oracle(rec)
        n += k
        if msg:
            bad.append((rec, msg))
    return bad, hangs, n


def run(ctx):
    rng = random.Random(ctx['seed'] + 10)
    t0 = time.time()
    proof = build_props('C10', GROUPS)
    sms = ['fork', 'fork', 'threading', 'forkserver', 'spawn'] if ctx['tier'] == 'quick' else S.START_METHODS
    scens = [fix_shared_tracking(S.gen_history(rng, k, ctx['tier'], sms)) for k in range(44 if ctx['tier'] == 'quick' else 400)]
    from checks import c08
    c08.CAL.update(runner.calibrate())
    scens += [c08.gen_late(rng, k, sms) for k in range(4 if ctx['tier'] == 'quick' else 16)]
    recs = runner.run_many(scens, 'c10', jobs=10)
    bad, hangs, checked = analyse(recs)
    out_v = []
    for rec, msg in bad[:3]:
        again = runner.run_many([rec['scenario']] * 2, 'c10_re', jobs=2)
        b2, h2, _ = analyse(again)
        if b2 or h2:
            out_v.append(dict(found_input=True, what=msg, signature='C10:history', replay=dict(kind='scenario', scenario=rec['scenario'], got=msg)))
    for rec in hangs[:2]:
        again = runner.run_many([rec['scenario']], 'c10_re', jobs=1)
        if again[0]['status'] != 'done':
            out_v.append(dict(found_input=True, what=f"scenario did not finish: {rec['status']}", signature='C10:hang',
                              replay=dict(kind='scenario', scenario=rec['scenario'], got=rec['status'], stacks=rec['stacks'][-3000:])))
    cov = dict(evaluations=len(recs), distinct_nontrivial=len({str(r['scenario']['pool']) + str(r['scenario']['calls']) for r in recs if r['status'] == 'done'}),
               rule="histories of 2-4 map-family calls on one pool interleaved with pass_on_worker_id / set_shared_objects / "
                    "set_use_worker_state / set_keep_alive, functions and ordering modes and lifespans changing between calls, "
                    "4 start methods; oracle: every call's results equal the sequential reference incl. the shared objects in "
                    "force, kept-alive instances are reused when nothing changed, fresh instances after a settings change or "
                    "without keep_alive, worker_state private to and preserved within an instance",
               samples=[dict(scenario=recs[0]['scenario'])], calls_checked=checked, oracle_failures=len(bad), unfinished=len(hangs))
    return dict(proof=proof, violations=out_v, broken_obligation=proof['failed_obligation'], coverage=cov, wall_s=time.time() - t0)


def replay(payload):
    recs = runner.run_many([payload['scenario']], 'replay', jobs=1, keep=True)
    bad, hangs, _ = analyse(recs)
    print("status:", recs[0]['status'])
    for rec, msg in bad:
        print("oracle:", msg)
    return 1 if (bad or hangs) else 0

"""C11 -- worker_init / worker_exit run exactly once per working worker instance."""
import collections
import json
import random
import re
import time

from lib import scen as S, runner, conf
from lib.common import build_props

GROUPS = ['GenProto']


def gen(rng, count, tier):
    scens = []
    sms = ['fork', 'fork', 'threading', 'forkserver', 'spawn'] if tier == 'quick' else S.START_METHODS
    for k in range(count):
        nj = rng.choice([1, 2, 3, 4, 5])
        keep = rng.random() < 0.45
        pool = {'n_jobs': nj, 'start_method': sms[k % len(sms)], 'keep_alive': keep}
        if rng.random() < 0.4:
            pool['use_worker_state'] = True
        has_init = rng.random() < 0.7
        has_exit = rng.random() < 0.8
        calls = []
        ncalls = rng.choice([2, 3]) if keep else rng.choice([1, 1, 2, 3])
        for j in range(ncalls):
            n = rng.choice([0, 1, 2, 5, 12, 20, 40])
            if j > 0 and rng.random() < 0.5:
                n = rng.choice([1, 2])          # leaves most kept-alive workers idle in this call
            params = {}
            m = rng.choice(['cs', 'cs', 'ns', 'def'])
            if m == 'cs':
                params['chunk_size'] = rng.choice([1, 2, 3, 5])
            elif m == 'ns':
                params['n_splits'] = rng.choice([2, 3, 7])
            if rng.random() < 0.5:
                params['worker_lifespan'] = rng.choice([1, 2, 3, 7])
            call = {'kind': rng.choice(['map', 'map_unordered', 'imap', 'imap_unordered']), 'n': n, 'input': 'list',
                    'elem': 'scalar', 'params': params, 'base': 1000 * (j + 1), 'init': has_init, 'exit': has_exit}
            # generous init / exit timeouts (never exceeded): the timeout-guarded init / exit paths are separate branches
            if has_init and rng.random() < 0.5:
                params['worker_init_timeout'] = 30
            if has_exit and rng.random() < 0.5:
                params['worker_exit_timeout'] = 30
            if j > 0 and rng.random() < 0.4:
                call['func'] = 'task_big'       # another function: new map params are shipped to kept-alive workers
            if not keep:
                call['want_exit_results'] = True          # every call of such a pool starts (and joins) its own workers
            calls.append(call)
            if keep and j + 1 < ncalls and rng.random() < 0.35:
                calls.append({'kind': 'stop_and_join', 'want_exit_results': True})       # a generation ends in the middle of the history
        calls.append({'kind': 'stop_and_join', 'want_exit_results': True})
        sc = {'id': f'i{k}', 'pool': pool, 'calls': calls, 'budget': 60}
        if rng.random() < 0.25:
            sc['env'] = {'VERIF_EXIT_PAYLOAD': rng.choice(['70000', '300000'] if tier == 'quick' else ['300000', '2000000'])}
        scens.append(sc)
    return scens


def oracle(rec):
    res = rec['result']
    calls = rec['scenario']['calls']
    for c, out in zip(calls, res['calls']):
        if out.get('outcome') != 'ok':
            return f"call {c['kind']} raised {out['exc']['type']}: {out['exc']['args']}", 0
    has_init = calls[0].get('init')
    has_exit = calls[0].get('exit')
    n_inst = 0
    exit_values = collections.Counter()
    for tok, evs in S.instances(rec).items():
        seq = ''.join({'init': 'I', 'task': 'T', 'exit': 'X'}.get(e['k'], '') for e in evs)
        n_inst += 1
        want = ('I' if has_init else '') + 'T+' + ('X' if has_exit else '')
        if seq and not re.fullmatch(want, seq):
            return f"instance {tok}: event sequence {seq[:60]!r} does not match {want!r}", n_inst
        for e in evs:
            if e['k'] == 'exit_value':
                exit_values[json.dumps(e['value'][:3])] += 1
    # generations of workers: a new one starts with every call of a pool without keep_alive, and after every stop_and_join
    keep = rec['scenario']['pool'].get('keep_alive')
    gen_of_base, g = {}, 0
    queries = []                     # (index of the op, generation whose exit values get_exit_results() must return)
    for i, c in enumerate(calls):
        if 'n' in c:
            if not keep:
                g += 1
            gen_of_base[c['base'] // 1000] = g
            if c.get('want_exit_results'):
                queries.append((i, g))
        elif c['kind'] == 'stop_and_join':
            if c.get('want_exit_results'):
                queries.append((i, g))
            g += 1
    per_gen = collections.defaultdict(collections.Counter)
    for tok, evs in S.instances(rec).items():
        bases = {e['args'][1][0] // 1000 for e in evs if e['k'] == 'task' and isinstance(e.get('args'), list) and e['args'][1]
                 and isinstance(e['args'][1][0], int)}
        gens = {gen_of_base[b] for b in bases if b in gen_of_base}
        if len(gens) != 1:
            continue
        for e in evs:
            if e['k'] == 'exit_value':
                per_gen[gens.pop() if False else list(gens)[0]][json.dumps(e['value'][:3])] += 1
    if not has_exit:
        queries = queries[-1:]
    for i, g in queries:
        got = res['calls'][i].get('exit_results')
        if got is None:
            return f"get_exit_results failed: {res['calls'][i].get('exit_results_error')}", n_inst
        got_c = collections.Counter(json.dumps(v) for v in got)
        want_c = per_gen[g] if has_exit else collections.Counter()
        if got_c != want_c:
            return (f"after op {i} ({calls[i]['kind']}): get_exit_results returned {sum(got_c.values())} values, worker_exit was invoked "
                    f"{sum(want_c.values())} times by the workers started for it (generation {g}); missing "
                    f"{list((want_c - got_c).elements())[:2]} extra {list((got_c - want_c).elements())[:2]}"), n_inst
    return None, n_inst


def analyse(recs):
    bad, hangs, n = [], [], 0
    for rec in recs:
        if rec['status'] != 'done' or not rec['result']:
            hangs.append(rec)
            continue
        msg, k = oracle(rec)
        n += k
        if msg:
            bad.append((rec, msg))
    return bad, hangs, n


def run(ctx):
    rng = random.Random(ctx['seed'] + 11)
    t0 = time.time()
    proof = build_props('C11', GROUPS)
    scens = gen(rng, 44 if ctx['tier'] == 'quick' else 400, ctx['tier'])
    recs = runner.run_many(scens, 'c11', jobs=10)
    bad, hangs, n_inst = analyse(recs)
    out_v = []
    for rec, msg in bad[:3]:
        again = runner.run_many([rec['scenario']] * 2, 'c11_re', jobs=2)
        b2, h2, _ = analyse(again)
        if b2 or h2:
            out_v.append(dict(found_input=True, what=msg, signature='C11:events', replay=dict(kind='scenario', scenario=rec['scenario'], got=msg)))
    for rec in hangs[:2]:
        again = runner.run_many([rec['scenario']], 'c11_re', jobs=1)
        if again[0]['status'] != 'done':
            out_v.append(dict(found_input=True, what=f"scenario did not finish: {rec['status']}", signature='C11:hang',
                              replay=dict(kind='scenario', scenario=rec['scenario'], got=rec['status'], stacks=rec['stacks'][-3000:])))
    inst = []
    for rec in recs:
        sc = rec['scenario']
        if rec['status'] == 'done' and not sc['pool'].get('keep_alive') and len([c for c in sc['calls'] if 'n' in c]) == 1:
            inst += conf.instance_cases(rec)
    broken = proof['failed_obligation']
    cbad = []
    if proof['ok']:
        try:
            cbad = conf.evaluate(inst, 'c11_inst')
        except Exception as e:
            broken = "trace conformance could not be evaluated: " + str(e)[:500]
    if broken is None and cbad:
        d, got, obs = cbad[0]
        broken = f"trace conformance: {len(cbad)} of {len(inst)} worker-instance traces differ from Core.step; first {d}: model {got[:30]} observed {obs[:30]}"
    cov = dict(evaluations=len(recs), distinct_nontrivial=len({str(r['scenario']['pool']) + str(r['scenario']['calls']) for r in recs if r['status'] == 'done'}),
               rule="single calls and keep-alive histories (changed function / lifespan between calls, calls that leave workers idle) "
                    "ending in stop_and_join, with init/exit on or off, lifespans, 1-5 workers, 4 start methods, exit payloads up "
                    "to 300 kB (2 MB thorough); oracle: per worker instance the user functions' own log matches init? task+ exit?, and "
                    "Counter(get_exit_results()) equals the values the exit invocations returned; single-call instance logs replayed "
                    "through Core.step", samples=[dict(scenario=recs[0]['scenario'])], instances_checked=n_inst,
               traces_validated_against_impl=len(inst), trace_mismatches=len(cbad), oracle_failures=len(bad), unfinished=len(hangs))
    return dict(proof=proof, violations=out_v, broken_obligation=broken, coverage=cov, wall_s=time.time() - t0)


def replay(payload):
    recs = runner.run_many([payload['scenario']], 'replay', jobs=1, keep=True)
    bad, hangs, _ = analyse(recs)
    print("status:", recs[0]['status'])
    for rec, msg in bad:
        print("oracle:", msg)
    return 1 if (bad or hangs) else 0

"""C12 -- worker_lifespan bounds the work of every worker instance; no false death."""
import collections
import random
import time

from lib import scen as S, runner, conf
from lib.common import build_props

GROUPS = ['GenProto', 'GenStruct']


def gen(rng, count, tier):
    scens = []
    sms = ['fork', 'fork', 'threading', 'forkserver', 'spawn'] if tier == 'quick' else S.START_METHODS
    for k in range(count):
        nj = rng.choice([1, 2, 3, 4])
        keep = rng.random() < 0.45
        pool = {'n_jobs': nj, 'start_method': sms[k % len(sms)], 'keep_alive': keep}
        calls = []
        ncalls = rng.choice([2, 3]) if keep else 1
        for j in range(ncalls):
            n = rng.choice([5, 12, 20, 33, 60])
            params = {}
            m = rng.choice(['cs', 'cs', 'ns', 'def'])
            if m == 'cs':
                params['chunk_size'] = rng.choice([1, 1, 2, 3, 5])
            elif m == 'ns':
                params['n_splits'] = rng.choice([2, 3, 7, n])
            ls = rng.choice([1, 2, 3, 7]) if (j > 0 or rng.random() < 0.8) else None
            if keep and j == 0 and rng.random() < 0.5:
                ls = rng.choice([None, 50])
            if ls is not None:
                params['worker_lifespan'] = ls
            call = {'kind': rng.choice(['map', 'map_unordered', 'imap', 'imap_unordered']), 'n': n, 'input': 'list',
                    'elem': 'scalar', 'params': params, 'base': 1000 * (j + 1)}
            if rng.random() < 0.15:
                call['func'] = 'task_big'
            calls.append(call)
            if keep and ls is not None and rng.random() < 0.4:
                # apply tasks served by the kept-alive workers: they keep the lifespan of the last map call
                nb = rng.choice([12, 25, 40])
                calls.append({'kind': 'apply_batch', 'jobs': [{'id': i, 'args': [1000 * (j + 1) + 500 + i], 'cbs': [False, False]} for i in range(nb)],
                              'get_timeout': 30, 'no_join': True, 'after_lifespan': ls})
        sc = {'id': f'l{k}', 'pool': pool, 'calls': calls, 'budget': 60}
        if k % 8 == 5:
            # routine end-of-lifespan restarts under SHORT init / exit timeouts that are never exceeded: worker_init and
            # worker_exit return at once, but one task is slow, so that a replacement instance sits idle for longer than the
            # timeouts while the call is still running.  A retirement is not a failure: the call must complete.
            n = rng.choice([3, 4, 6])
            sc = {'id': f'l{k}', 'pool': {'n_jobs': 2, 'start_method': sms[k % len(sms)], 'keep_alive': False}, 'budget': 60,
                  'behaviour': {'task': [{'at': 1001, 'do': 'sleep', 's': 2.6}]},
                  'calls': [{'kind': rng.choice(['map', 'map_unordered', 'imap', 'imap_unordered']), 'n': n, 'input': 'list', 'elem': 'scalar',
                             'base': 1000, 'init': True, 'exit': True,
                             'params': {'chunk_size': 1, 'worker_lifespan': 1, 'worker_init_timeout': 1.0, 'worker_exit_timeout': 1.0}}]}
        if rng.random() < 0.3:
            # widen the window between the death watch's reads
            sc['plan'] = [{'method': 'is_worker_alive', 'action': 'sleep:0.003'}]
        scens.append(sc)
    return scens


def oracle(rec):
    """per call: results correct, nobody raised, and every instance ran at most L + c - 1 tasks of that call"""
    res = rec['result']
    map_calls = [(i, c) for i, c in enumerate(rec['scenario']['calls']) if 'n' in c]
    checked = 0
    # chunk sizes per job from main's own log
    job_lens = collections.OrderedDict()
    for name, evs in rec['events'].items():
        for e in evs:
            if e.get('k') == 'call' and e.get('m') == 'add_task' and e.get('what') == 'chunk':
                job_lens.setdefault(e['job'], []).append(e['len'])
    jobs = list(job_lens.values())
    per_inst = collections.Counter()
    for e in S.task_events(rec):
        a = e['args']
        if isinstance(a, list) and a[0] == 'tuple' and a[1] and isinstance(a[1][0], int):
            per_inst[(e['inst'], a[1][0] // 1000)] += 1
    # apply batches between the map calls: every instance still retires after the lifespan of the last map call
    prev_cmax = 1
    for i, call in enumerate(rec['scenario']['calls']):
        if call.get('kind') != 'apply_batch':
            continue
        out = res['calls'][i]
        if out.get('outcome') != 'ok' or any(v[0] != 'ok' for v in out.get('value', [])):
            return f"apply batch after a map with lifespan {call['after_lifespan']} failed: {str(out.get('value') or out.get('exc'))[:160]}", checked
        L = call['after_lifespan']
        lo = call['jobs'][0]['args'][0]
        cnt_inst = collections.Counter()
        for e in S.task_events(rec):
            a = e['args']
            if isinstance(a, list) and a[0] == 'tuple' and a[1] and isinstance(a[1][0], int) and lo <= a[1][0] < lo + 500:
                cnt_inst[e['inst']] += 1
        allmax = max([max(v) for v in jobs if v] or [1])
        for inst, cnt in cnt_inst.items():
            checked += 1
            if cnt > L + allmax - 1:
                return (f"apply tasks on kept-alive workers started under worker_lifespan={L}: instance {inst} executed {cnt} of them "
                        f"(> {L + allmax - 1}): its replacement lost the lifespan"), checked
    for idx, (i, call) in enumerate(map_calls):
        out = res['calls'][i]
        if out.get('outcome') != 'ok':
            return f"call {idx} raised {out['exc']['type']}: {out['exc']['args']} (nobody was killed)", checked
        if call.get('func') != 'task_big':
            msg = S.check_value(call, out)
            if msg:
                return f"call {idx}: {msg}", checked
        L = call['params'].get('worker_lifespan')
        if L is None or idx >= len(jobs):
            continue
        cmax = max(jobs[idx]) if jobs[idx] else 1
        for (inst, b), cnt in per_inst.items():
            if b == call['base'] // 1000:
                checked += 1
                if cnt > L + cmax - 1:
                    return (f"call {idx} (lifespan {L}, largest chunk {cmax}): instance {inst} executed {cnt} tasks "
                            f"> {L + cmax - 1}"), checked
    return None, checked


def analyse(recs):
    bad, hangs, n = [], [], 0
    for rec in recs:
        if rec['status'] != 'done' or not rec['result']:
            hangs.append(rec)
            continue
        msg, k = oracle(rec)
        n += k
        if msg:
            bad.append((rec, msg))
    return bad, hangs, n


def run(ctx):
    rng = random.Random(ctx['seed'] + 12)
    t0 = time.time()
    proof = build_props('C12', GROUPS)
    scens = gen(rng, 44 if ctx['tier'] == 'quick' else 400, ctx['tier'])
    recs = runner.run_many(scens, 'c12', jobs=10)
    bad, hangs, checked = analyse(recs)
    out_v = []
    for rec, msg in bad[:3]:
        again = runner.run_many([rec['scenario']] * 3, 'c12_re', jobs=3)
        b2, h2, _ = analyse(again)
        if b2 or h2:
            out_v.append(dict(found_input=True, what=msg, signature='C12:' + ('false-death' if 'died unexpectedly' in msg else 'lifespan'),
                              replay=dict(kind='scenario', scenario=rec['scenario'], got=msg, reproduced=f"{len(b2) + len(h2)}/3")))
    for rec in hangs[:2]:
        again = runner.run_many([rec['scenario']], 'c12_re', jobs=1)
        if again[0]['status'] != 'done':
            out_v.append(dict(found_input=True, what=f"scenario did not finish: {rec['status']}", signature='C12:hang',
                              replay=dict(kind='scenario', scenario=rec['scenario'], got=rec['status'], stacks=rec['stacks'][-3000:])))
    inst = []
    for rec in recs:
        if rec['status'] == 'done' and not rec['scenario']['pool'].get('keep_alive') and len(rec['scenario']['calls']) == 1:
            inst += conf.instance_cases(rec)
    broken = proof['failed_obligation']
    cbad = []
    if proof['ok']:
        try:
            cbad = conf.evaluate(inst, 'c12_inst')
        except Exception as e:
            broken = "trace conformance could not be evaluated: " + str(e)[:500]
    if broken is None and cbad:
        d, got, obs = cbad[0]
        broken = f"trace conformance: {len(cbad)} of {len(inst)} worker-instance traces differ from Core.step; first {d}: model {got[:30]} observed {obs[:30]}"
    cov = dict(evaluations=len(recs), distinct_nontrivial=len({str(r['scenario']['pool']) + str(r['scenario']['calls']) for r in recs if r['status'] == 'done'}),
               rule="single calls and keep-alive histories whose lifespan changes between calls (L in 1,2,3,7,None), chunkings, "
                    "n_jobs 1-4, 4 start methods, large payloads, optional delay inside the death watch's flag read; oracle: "
                    "no exception, correct results, per (instance, call) executed tasks <= L + largest chunk - 1 from the user "
                    "function's own log; single-call instance logs replayed through Core.step",
               samples=[dict(scenario=recs[0]['scenario'])], instance_call_pairs_checked=checked,
               traces_validated_against_impl=len(inst), trace_mismatches=len(cbad), oracle_failures=len(bad), unfinished=len(hangs))
    return dict(proof=proof, violations=out_v, broken_obligation=broken, coverage=cov, wall_s=time.time() - t0)


def replay(payload):
    recs = runner.run_many([payload['scenario']], 'replay', jobs=1, keep=True)
    bad, hangs, _ = analyse(recs)
    print("status:", recs[0]['status'])
    for rec, msg in bad:
        print("oracle:", msg)
    return 1 if (bad or hangs) else 0

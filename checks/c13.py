"""C13 -- worker identity, private state and argument order."""
import collections
import random
import time

from lib import scen as S, runner
from lib.common import build_props

GROUPS = ['GenArgs', 'GenStruct', 'GenProto']


def gen(rng, count, tier):
    scens = []
    sms = ['fork', 'threading', 'fork', 'forkserver', 'spawn'] if tier == 'quick' else S.START_METHODS
    subsets = [(a, b, c) for a in (False, True) for b in (False, True) for c in (False, True)]
    for k in range(count):
        a, b, c = subsets[k % 8]
        nj = rng.choice([1, 2, 3, 4])
        via_setter = rng.random() < 0.4
        pool = {'n_jobs': nj, 'start_method': sms[k % len(sms)], 'keep_alive': rng.random() < 0.3}
        calls = []
        shared = rng.choice([{'k': k, 'l': [1, 2]}, [], {}, 0, '', [0]]) if b else None
        if via_setter:
            calls += [{'kind': 'setter', 'name': 'pass_on_worker_id', 'args': [a]},
                      {'kind': 'setter', 'name': 'set_shared_objects', 'args': [shared]},
                      {'kind': 'setter', 'name': 'set_use_worker_state', 'args': [c]}]
        else:
            pool.update(pass_worker_id=a, use_worker_state=c)
            if b:
                pool['shared_objects'] = shared
        for j in range(rng.choice([1, 2])):
            n = rng.choice([3, 8, 15, 30])
            params = {'chunk_size': rng.choice([1, 2, 3])}
            if rng.random() < 0.5:
                params['worker_lifespan'] = rng.choice([1, 2, 4])
            calls.append({'kind': rng.choice(['map', 'map_unordered', 'imap', 'imap_unordered']), 'n': n, 'input': 'list',
                          'elem': rng.choice(['scalar', 'tuple', 'dict', 'str']), 'params': params, 'base': 1000 * (j + 1),
                          'init': rng.random() < 0.6, 'exit': rng.random() < 0.6})
        if rng.random() < 0.35:
            calls.append({'kind': 'apply_batch', 'dynamic_extras': True,
                          'jobs': [{'id': i, 'args': [9000 + i]} for i in range(rng.choice([2, 5]))], 'join_first': False})
        calls.append({'kind': 'stop_and_join'})
        sc = {'id': f'a{k}', 'pool': pool, 'calls': calls, 'budget': 60, 'want': [a, shared, c]}
        scens.append(S.annotate_history(sc))
    return scens


def oracle(rec):
    res = rec['result']
    sc = rec['scenario']
    a, shared, c = sc['want']
    nj = sc['pool']['n_jobs']
    for cl, out in zip(sc['calls'], res['calls']):
        if out.get('outcome') != 'ok':
            return f"call {cl['kind']} raised {out['exc']['type']}: {out['exc']['args'][:200]}", 0
        if 'n' in cl:
            msg = S.check_value(cl, out)
            if msg:
                return f"call base={cl['base']}: {msg}", 0
        if cl['kind'] == 'apply_batch':
            for j, v in zip(cl['jobs'], out['value']):
                want = ['R', ['tuple', list(j['args'])], ['dict', []]] + ([['S', S.ref_call('scalar', 0, shared)[3][1]]] if shared is not None else [])
                if v[0] != 'ok' or v[1] != want:
                    return f"apply job {j['id']} returned {str(v)[:160]}, expected {str(want)[:160]}", 0
    n_ev = 0
    spans = collections.defaultdict(list)
    for tok, evs in S.instances(rec).items():
        wid = int(tok.split(':')[0])
        calls_seen = 0
        ts = [e['t'] for e in evs if e.get('k') in ('init', 'task', 'exit')]
        if ts:
            spans[wid].append((min(ts), max(ts), tok))
        for e in evs:
            if e.get('k') not in ('init', 'task', 'exit'):
                continue
            n_ev += 1
            if a:
                if e.get('wid') != wid or not (0 <= e['wid'] < nj):
                    return f"instance {tok}: {e['k']} received worker id {e.get('wid')} (slot {wid}, n_jobs {nj})", n_ev
            elif 'wid' in e:
                return f"instance {tok}: a worker id was passed although pass_worker_id is off", n_ev
            if shared is not None:
                if e.get('shared') != S.ref_call('scalar', 0, shared)[3][1]:
                    return f"instance {tok}: {e['k']} received shared objects {e.get('shared')}", n_ev
            elif 'shared' in e:
                return f"instance {tok}: shared objects were passed although none are set", n_ev
            if c:
                if e.get('state_token') not in (None, tok):
                    return f"instance {tok}: {e['k']} saw the worker_state of instance {e.get('state_token')}", n_ev
                if e['k'] in ('init', 'task'):
                    if e.get('state_calls') != calls_seen:
                        return (f"instance {tok}: worker_state not private/persistent: call counter {e.get('state_calls')} "
                                f"at its {calls_seen + 1}-th call"), n_ev
                    calls_seen += 1
            elif 'state_id' in e:
                return f"instance {tok}: a worker state was passed although use_worker_state is off", n_ev
    # an id is never held by two instances at the same time (same monotonic clock for all processes of the run)
    for wid, sp in spans.items():
        sp.sort()
        for (s0, e0, t0), (s1, e1, t1) in zip(sp, sp[1:]):
            if s1 < e0:
                return f"worker id {wid} was used by instances {t0} and {t1} at the same time", n_ev
    return None, n_ev


def analyse(recs):
    bad, hangs, n = [], [], 0
    for rec in recs:
        if rec['status'] != 'done' or not rec['result']:
            hangs.append(rec)
            continue
        msg, k = oracle_setter_history(rec) if rec['scenario'].get('family') == 'setter_history' else oracle(rec)
        n += k
        if msg:
            bad.append((rec, msg))
    return bad, hangs, n


def gen_setter_history(rng, k, sms):
    """kept-alive workers, the extras are changed through the setters BETWEEN calls (every combination of old and new
    values over a few scenarios): the next call must already pass the new layout"""
    a, b, c = rng.random() < 0.5, rng.random() < 0.4, rng.random() < 0.5
    pool = {'n_jobs': rng.choice([1, 2, 3]), 'start_method': sms[k % len(sms)], 'keep_alive': True, 'pass_worker_id': a, 'use_worker_state': c}
    if b:
        pool['shared_objects'] = ['s', 0]
    calls = []
    if k % 2 == 1:
        # workers that stay alive WITHOUT keep_alive: they are started by apply_async; then a setter, then map calls
        pool['keep_alive'] = False
        calls.append({'kind': 'apply_batch', 'jobs': [{'id': 0, 'args': [700], 'cbs': [False, False]}], 'get_timeout': 30, 'no_join': True,
                      'dynamic_extras': True})
        which = rng.choice(['set_use_worker_state', 'pass_on_worker_id', 'set_shared_objects'])
        calls.append({'kind': 'setter', 'name': which, 'args': [{'set_use_worker_state': not c, 'pass_on_worker_id': not a,
                                                               'set_shared_objects': (None if b else ['s', 9])}[which]]})
    for j in range(rng.choice([3, 4])):
        calls.append({'kind': rng.choice(['map', 'map_unordered', 'imap', 'imap_unordered']), 'n': rng.choice([3, 8]), 'input': 'list',
                      'elem': rng.choice(['scalar', 'tuple']), 'params': {'chunk_size': rng.choice([1, 2])}, 'base': 1000 * (j + 1)})
        which = rng.choice(['set_use_worker_state', 'set_use_worker_state', 'pass_on_worker_id', 'set_shared_objects'])
        arg = (rng.choice([None, ['s', j + 1], 0]) if which == 'set_shared_objects' else rng.random() < 0.5)
        calls.append({'kind': 'setter', 'name': which, 'args': [arg]})
    calls.append({'kind': 'stop_and_join'})
    return S.annotate_history({'id': f'as{k}', 'pool': pool, 'calls': calls, 'budget': 60, 'family': 'setter_history'})


def oracle_setter_history(rec):
    for cl, out in zip(rec['scenario']['calls'], rec['result']['calls']):
        if out.get('outcome') != 'ok':
            return f"call {cl.get('kind')} base={cl.get('base')} after a setter raised {out['exc']['type']}: {out['exc']['args'][:160]}", 0
        if 'n' in cl:
            msg = S.check_value(cl, out)
            if msg:
                return f"call base={cl['base']} after a setter: {msg}", 0
    return None, 1


def run(ctx):
    rng = random.Random(ctx['seed'] + 13)
    t0 = time.time()
    proof = build_props('C13', GROUPS)
    scens = gen(rng, 48 if ctx['tier'] == 'quick' else 400, ctx['tier'])
    scens += [gen_setter_history(rng, k, ['fork', 'threading', 'fork', 'forkserver']) for k in range(16 if ctx['tier'] == 'quick' else 120)]
    recs = runner.run_many(scens, 'c13', jobs=10)
    bad, hangs, n_ev = analyse(recs)
    out_v = []
    for rec, msg in bad[:3]:
        again = runner.run_many([rec['scenario']] * 2, 'c13_re', jobs=2)
        b2, h2, _ = analyse(again)
        if b2 or h2:
            out_v.append(dict(found_input=True, what=msg, signature='C13:extras', replay=dict(kind='scenario', scenario=rec['scenario'], got=msg)))
    for rec in hangs[:2]:
        again = runner.run_many([rec['scenario']], 'c13_re', jobs=1)
        if again[0]['status'] != 'done':
            out_v.append(dict(found_input=True, what=f"scenario did not finish: {rec['status']}", signature='C13:hang',
                              replay=dict(kind='scenario', scenario=rec['scenario'], got=rec['status'], stacks=rec['stacks'][-3000:])))
    cov = dict(evaluations=len(recs), distinct_nontrivial=len({str(r['scenario']['pool']) + str(r['scenario']['calls']) for r in recs if r['status'] == 'done'}),
               rule="all 8 subsets of {pass_worker_id, shared_objects, use_worker_state}, set by constructor or setters, lifespans "
                    "(ids reused by successive instances), map and apply families, 4 start methods; oracle from the user functions' "
                    "own logs: every init/task/exit call received exactly the enabled extras in order (worker id = its slot, in "
                    "range; shared objects = configured value; worker_state starts empty, private to and persistent within the "
                    "instance), results equal the reference, no two instances with one id overlap in time",
               samples=[dict(scenario=recs[0]['scenario'])], user_calls_checked=n_ev, oracle_failures=len(bad), unfinished=len(hangs))
    return dict(proof=proof, violations=out_v, broken_obligation=proof['failed_obligation'], coverage=cov, wall_s=time.time() - t0)


def replay(payload):
    recs = runner.run_many([payload['scenario']], 'replay', jobs=1, keep=True)
    bad, hangs, _ = analyse(recs)
    print("status:", recs[0]['status'])
    for rec, msg in bad:
        print("oracle:", msg)
    return 1 if (bad or hangs) else 0

"""C14 -- chunking is an order-preserving partition with the promised sizes."""
import json
import os
import random
import struct
import subprocess
import time

from lib.common import (REPO, WORK, PY, VERIF, build_props, coq_eval, zlist)

GROUPS = ['GenChunk']


def bits(f):
    return struct.unpack('>Q', struct.pack('>d', float(f)))[0]


def gen_cases(rng, tier):
    cases = []
    big = tier == 'thorough'

    def add(kind, n, ilen, cs, isf, ns, **kw):
        cases.append(dict(kind=kind, n=n, ilen=ilen, cs=cs, cs_is_float=isf, ns=ns, **kw))

    kinds = ['list', 'gen', 'nd']
    # exhaustive small grid: int chunk sizes and n_splits, every iterable_len relation
    top = 14 if not big else 26
    for n in range(0, top):
        for k in list(range(1, n + 3)):
            for ilen in (None, max(0, n - 2), n, n + 3):
                add(kinds[(n + k) % 3], n, ilen, k, False, None)
        for s in range(1, n + 4):
            for ilen in (None, n):
                add(kinds[(n + s) % 2 * 2], n, ilen, None, False, s)     # list / nd (need a length)
    # n_splits sweep (float path n/s), larger
    top = 60 if not big else 120
    for n in range(0, top, 1 if big else 2):
        for s in range(1, top, 3 if not big else 2):
            add('list', n, None, None, False, s)
    # float chunk sizes on a 1/8 grid and random floats >= 1
    for n in range(0, 40 if not big else 70, 3):
        for e in range(8, 48, 3 if not big else 2):
            add(kinds[(n + e) % 3], n, rng.choice([None, n, n + 1, max(0, n - 1)]), bits(e / 8), True, None)
    for _ in range(150 if not big else 400):
        n = rng.randrange(0, 400 if not big else 700)
        r = rng.choice([rng.uniform(1, 9), rng.uniform(1, 60), 1 + rng.random() * 1e-9, float(rng.randrange(1, 9))])
        add(rng.choice(kinds), n, rng.choice([None, None, n, rng.randrange(0, n + 5)]), bits(r), True, None)
    # adversarial n_splits pairs: n / (n / s) rounds up
    for _ in range(120 if not big else 400):
        n = rng.randrange(1, 3000 if not big else 12000)
        s = rng.randrange(1, min(n, 120 if not big else 300) + 2)
        add('list', n, rng.choice([None, n]), None, False, s)
    # generators without a length: chunk_size required; n_splits alone must raise
    for n in (0, 1, 7):
        add('gen_nolen', n, None, None, False, 3)
        add('gen_nolen', n, None, 2, False, None)
        add('gen_nolen', n, 5, None, False, 2)
        add('list', n, None, None, False, None)
    # numpy pre-chunking path (apply_numpy_chunking): announced == produced
    for n in range(0, 30 if not big else 80):
        for s in (1, 2, 3, 5, 7, 13, n + 1):
            add('nd', n, rng.choice([None, None, max(0, n - 3), n + 2]), None, False, s, numpy_path=True, nj=None)
        for k in (1, 2, 3, n + 1):
            add('nd', n, None, k, False, None, numpy_path=True, nj=2)
        add('nd', n, None, bits(1.5 + (n % 5) / 4), True, None, numpy_path=True, nj=2)
        add('nd', n, None, None, False, None, numpy_path=True, nj=1 + n % 4)
    for _ in range(100 if not big else 300):
        n = rng.randrange(1, 400 if not big else 1000)
        add('nd', n, None, None, False, rng.randrange(1, min(n, 60) + 3), numpy_path=True, nj=None)
    return cases


def opt(v):
    return "None" if v is None else f"(Some ({v})%Z)"


def coq_term(c):
    is_nd = 'true' if c['kind'] == 'nd' else 'false'
    has_len = 'true' if c['kind'] in ('list', 'nd') else 'false'
    float_path = c['cs_is_float'] or c['cs'] is None
    if c.get('numpy_path'):
        fn = 'case_numpy_b64' if float_path else 'case_numpy_int'
        return f"{fn} ({c['n']})%Z {opt(c['ilen'])} {opt(c['cs'])} {opt(c['ns'])} {opt(c.get('nj'))}"
    fn = 'case_b64' if float_path else 'case_int'
    return f"{fn} {is_nd} {has_len} ({c['n']})%Z {opt(c['ilen'])} {opt(c['cs'])} {opt(c['ns'])}"


def run_impl(cases, tag):
    cin = os.path.join(WORK, f'c14_{tag}_{os.getpid()}_in.json')
    cout = os.path.join(WORK, f'c14_{tag}_{os.getpid()}_out.json')
    json.dump(cases, open(cin, 'w'))
    env = dict(os.environ, PYTHONPATH=f"{REPO}:{os.path.join(VERIF, 'harness')}", PYTHONHASHSEED='0')
    env.pop('MPIRE_VERIF', None)
    p = subprocess.run([PY, os.path.join(VERIF, 'harness', 'c14_impl.py'), cin, cout], env=env,
                       stdout=subprocess.PIPE, stderr=subprocess.STDOUT, text=True, timeout=1800)
    if p.returncode != 0:
        raise RuntimeError("implementation harness failed: " + p.stdout[-1500:])
    out = json.load(open(cout))
    for f in (cin, cout):
        try:
            os.remove(f)
        except OSError:
            pass
    return out


def shrink(case, fails):
    """greedy shrink of (n, ns, cs, ilen) keeping the failure"""
    cur = dict(case)
    changed = True
    while changed:
        changed = False
        for key in ('n', 'ns', 'ilen', 'cs'):
            v = cur.get(key)
            if not isinstance(v, int) or (key == 'cs' and cur['cs_is_float']):
                continue
            for cand in sorted({v // 2, v - 1, v - 2}):
                if cand < (1 if key in ('ns', 'cs') else 0) or cand >= v:
                    continue
                t = dict(cur)
                t[key] = cand
                if fails(t):
                    cur, changed = t, True
                    break
    return cur


def run(ctx):
    rng = random.Random(ctx['seed'])
    t0 = time.time()
    proof = build_props('C14', GROUPS)
    cases = gen_cases(rng, ctx['tier'])
    impl = run_impl(cases, 'main')
    violations = []
    # (a) direct property oracle on the implementation
    oracle_bad = [(c, r) for c, r in zip(cases, impl) if r['oracle']]
    seen = set()
    for c, r in oracle_bad[:50]:
        small = shrink(c, lambda t: bool(run_impl([t], 'shrink')[0]['oracle']))
        key = json.dumps(small, sort_keys=True)
        if key in seen:
            continue
        seen.add(key)
        msg = run_impl([small], 'shrink')[0]['oracle']
        violations.append(dict(found_input=True, what=msg, signature=f"chunk_tasks:{small['kind']}:"
                               f"{'numpy_path' if small.get('numpy_path') else 'direct'}",
                               replay=dict(kind='c14_case', case=small, expected="property oracle holds", got=msg)))
        if len(violations) >= 3:
            break
    # (b) model vs implementation (kernel differential, bit-exact floats)
    mismatches = []
    diff_error = None
    if proof['ok'] or not proof['gen'].get('GenChunk'):
        try:
            pre = "From Coq Require Import ZArith List Bool.\nFrom Mpv Require Import ChunkCases.\nImport ListNotations.\nOpen Scope Z_scope."
            vals = coq_eval('c14', pre, [coq_term(c) for c in cases], jobs=12, timeout=600 if ctx['tier'] == 'quick' else 2400)
            for c, r, v in zip(cases, impl, vals):
                got = zlist(v)
                want = r['lens']
                if want == [-3]:
                    want = None
                if got != want:
                    mismatches.append(dict(case=c, model=got, impl=r['lens']))
        except Exception as e:      # model does not build / evaluate: correspondence not established
            diff_error = str(e)[:800]
    else:
        diff_error = "model not built: " + str(proof['failed_obligation'])
    res = dict(proof=proof, violations=violations, cases=len(cases), mismatches=mismatches, diff_error=diff_error)
    broken = None
    if proof['failed_obligation']:
        broken = proof['failed_obligation']
    elif diff_error:
        broken = "correspondence chunk model vs mpire.utils.chunk_tasks could not be evaluated: " + diff_error
    elif mismatches:
        m = mismatches[0]
        broken = (f"correspondence chunk model vs mpire.utils.chunk_tasks: {len(mismatches)} of {len(cases)} cases differ; "
                  f"first: case={m['case']} model={m['model'][:12]} impl={m['impl'][:12]}")
    res['broken_obligation'] = broken
    nontrivial = len({(c['kind'], c['n'], c['ilen'], c['cs'], c['ns'], bool(c.get('numpy_path'))) for c, r in zip(cases, impl)
                      if len(r['lens']) >= 2})
    dist = {}
    for c in cases:
        k = ('numpy:' if c.get('numpy_path') else '') + c['kind'] + ':' + (
            'float_cs' if c['cs_is_float'] else 'int_cs' if c['cs'] is not None else 'n_splits' if c['ns'] is not None else 'none')
        dist[k] = dist.get(k, 0) + 1
    res['coverage'] = dict(
        evaluations=len(cases), distinct_nontrivial=nontrivial,
        rule="cases = (iterable kind, n, iterable_len, chunk_size int|binary64, n_splits[, numpy path]); exhaustive small "
             "grid + seeded random + adversarial n_splits pairs; non-trivial = distinct case producing >= 2 chunks; each "
             "case is run on the real chunk_tasks/apply_numpy_chunking (direct property oracle) and on the Coq model "
             "(vm_compute, binary64 by Flocq, bit-exact) and the chunk lengths compared",
        samples=[dict(case=cases[i], impl_lens=impl[i]['lens'][:16]) for i in (0, len(cases) // 3, len(cases) // 2, len(cases) - 1)],
        distribution=dist, model_impl_mismatches=len(mismatches), oracle_failures=len(oracle_bad))
    # (c) through the pool: the chunk lengths main really dispatches (its own log), for parameter combinations incl.
    #     chunk_size AND n_splits given together -- the explicit chunk size wins
    from lib import runner
    prng = random.Random(ctx['seed'] + 1414)
    pscens = []
    for k in range(16 if ctx['tier'] == 'quick' else 120):
        n = prng.choice([7, 10, 23, 40])
        params = {}
        mode = prng.choice(['both', 'both', 'cs', 'ns'])
        if mode in ('both', 'cs'):
            params['chunk_size'] = prng.choice([1, 2, 3, 5])
        if mode in ('both', 'ns'):
            params['n_splits'] = prng.choice([1, 2, 3, 7])
        inp = prng.choice(['list', 'gen'])
        if inp == 'gen':
            params['iterable_len'] = n
        pscens.append({'id': f'pc{k}', 'pool': {'n_jobs': prng.choice([1, 2, 3]), 'start_method': prng.choice(['fork', 'threading'])}, 'budget': 60,
                       'calls': [{'kind': prng.choice(['map', 'map_unordered', 'imap', 'imap_unordered']), 'n': n, 'input': inp, 'elem': 'scalar',
                                  'params': params, 'base': 0}], 'mode': mode})
    precs = runner.run_many(pscens, 'c14_pool', jobs=8)
    for r in precs:
        if len(res['violations']) >= 4:
            break
        sc = r['scenario']
        c = sc['calls'][0]
        if r['status'] != 'done' or not r['result'] or r['result']['calls'][0].get('outcome') != 'ok':
            res['violations'].append(dict(found_input=True, what=f"pool-level chunking scenario failed: {r['status']}", signature='chunk_tasks:pool',
                                          replay=dict(kind='scenario', scenario=sc, got=r['status'])))
            continue
        lens = [e['len'] for evs in r['events'].values() for e in evs
                if e.get('k') == 'call' and e.get('m') == 'add_task' and e.get('what') == 'chunk']
        n, p = c['n'], c['params']
        if 'chunk_size' in p:
            want = [p['chunk_size']] * (n // p['chunk_size']) + ([n % p['chunk_size']] if n % p['chunk_size'] else [])
            if lens != want:
                res['violations'].append(dict(found_input=True, signature='chunk_tasks:pool',
                                              what=f"map(n={n}, {p}): dispatched chunk lengths {lens[:12]}, promised {want[:12]}",
                                              replay=dict(kind='scenario', scenario=sc, got=f"lens {lens[:12]}")))
        elif sum(lens) != n or len(lens) != min(n, p['n_splits']):
            res['violations'].append(dict(found_input=True, signature='chunk_tasks:pool',
                                          what=f"map(n={n}, {p}): {len(lens)} chunks with lengths {lens[:12]}",
                                          replay=dict(kind='scenario', scenario=sc, got=f"lens {lens[:12]}")))
    res['coverage']['pool_level_scenarios'] = len(precs)
    res['coverage']['evaluations'] += len(precs)
    res['wall_s'] = time.time() - t0
    return res


def replay(payload):
    if payload.get('kind') == 'scenario':
        from lib import runner
        r = runner.run_many([payload['scenario']], 'replay', jobs=1, keep=True)[0]
        lens = [e['len'] for evs in r['events'].values() for e in evs
                if e.get('k') == 'call' and e.get('m') == 'add_task' and e.get('what') == 'chunk']
        print('status', r['status'], 'dispatched chunk lengths', lens, 'params', payload['scenario']['calls'][0]['params'])
        return 1
    r = run_impl([payload['case']], 'replay')[0]
    print("case:", payload['case'])
    print("implementation:", r)
    return 1 if r['oracle'] else 0

"""C15 -- bounded look-ahead: max_tasks_active limits consumption of the input."""
import math
import random
import time

from lib import scen as S, runner
from lib.common import build_props

GROUPS = ['GenProto', 'GenParams']


def gen(rng, count, tier):
    scens = []
    sms = ['fork', 'fork', 'threading', 'forkserver', 'spawn'] if tier == 'quick' else S.START_METHODS
    for k in range(count):
        nj = rng.choice([1, 2, 3, 4])
        n = rng.choice([30, 60, 120, 400]) if tier == 'quick' else rng.choice([30, 120, 1000, 5000])
        params = {}
        cs = rng.choice([1, 2, 3, 5, 8, 2.5, 4.75])
        params['chunk_size'] = cs
        mta = rng.choice([None, 1, 2, 3, 7, 20, max(1, int(cs) - 1)])
        if mta is not None:
            params['max_tasks_active'] = mta
        if rng.random() < 0.25:
            params['worker_lifespan'] = rng.choice([2, 5])
        call = {'kind': 'lookahead', 'n': n, 'params': params, 'variant': 'imap_unordered',
                'consumer': rng.choice([[0.0], [0.0, 0.0, 0.004], [0.002], [0.0, 0.01]]),
                'known_len': rng.random() < 0.7}
        if k % 4 == 3:
            # the input is longer than the iterable_len given (the call is cut to iterable_len elements); iterable_len on or off a
            # chunk boundary.  Nothing beyond the look-ahead bound may be drawn from the input, also at the end of the call
            call['known_len'] = True
            call['extra'] = rng.choice([1, 50, 3000])
            if isinstance(cs, int) and rng.random() < 0.7:
                call['n'] = n = max(cs, (n // cs) * cs)
        sc = {'id': f'b{k}', 'pool': {'n_jobs': nj, 'start_method': sms[k % len(sms)]}, 'calls': [call], 'budget': 90,
              'env': {'VERIF_TASK_SLEEP': rng.choice(['0', '0.001', '0.003'])}}
        scens.append(sc)
    return scens


def bound_of(sc):
    p = sc['calls'][0]['params']
    nj = sc['pool']['n_jobs']
    c = math.ceil(p['chunk_size'])
    mta = p.get('max_tasks_active')
    if mta is None:
        mta = 2 * nj * c
    return mta + c


def oracle(rec):
    out = rec['result']['calls'][0]
    if out.get('outcome') != 'ok':
        return f"call raised {out['exc']['type']}: {out['exc']['args']}"
    la = out['lookahead']
    n = rec['scenario']['calls'][0]['n']
    if la['delivered'] != n or sorted(v[1][1][0] for v in out['value']) != list(range(n)):
        return f"delivered {la['delivered']} of {n} results"
    b = bound_of(rec['scenario'])
    if la['worst'] > b:
        return f"drawn - delivered reached {la['worst']} > max_tasks_active + chunk = {b}"
    if la['idle_draws']:
        return f"the input generator advanced {la['idle_draws']} times while the consumer was not asking for results"
    return None


def analyse(recs):
    bad, hangs = [], []
    for rec in recs:
        if rec['status'] != 'done' or not rec['result'] or not rec['result']['calls']:
            hangs.append(rec)
            continue
        msg = oracle(rec)
        if msg:
            bad.append((rec, msg))
    return bad, hangs


def run(ctx):
    rng = random.Random(ctx['seed'] + 15)
    t0 = time.time()
    proof = build_props('C15', GROUPS)
    scens = gen(rng, 36 if ctx['tier'] == 'quick' else 300, ctx['tier'])
    recs = runner.run_many(scens, 'c15', jobs=8)
    bad, hangs = analyse(recs)
    out_v = []
    for rec, msg in bad[:3]:
        again = runner.run_many([rec['scenario']] * 2, 'c15_re', jobs=2)
        b2, h2 = analyse(again)
        if b2 or h2:
            out_v.append(dict(found_input=True, what=msg, signature='C15:lookahead',
                              replay=dict(kind='scenario', scenario=rec['scenario'], got=msg)))
    for rec in hangs[:2]:
        again = runner.run_many([rec['scenario']], 'c15_re', jobs=1)
        if again[0]['status'] != 'done':
            out_v.append(dict(found_input=True, what=f"scenario did not finish: {rec['status']}", signature='C15:stall',
                              replay=dict(kind='scenario', scenario=rec['scenario'], got=rec['status'], stacks=rec['stacks'][-3000:])))
    worst = [(r['result']['calls'][0]['lookahead']['worst'], bound_of(r['scenario'])) for r in recs
             if r['status'] == 'done' and r['result']['calls'] and 'lookahead' in r['result']['calls'][0]]
    cov = dict(evaluations=len(recs), distinct_nontrivial=len({str(r['scenario']['pool']) + str(r['scenario']['calls']) for r in recs if r['status'] == 'done'}),
               rule="imap_unordered over a counting generator (30..400 elements quick, up to 5000 thorough) with counting consumer: "
                    "chunk sizes incl. reals, max_tasks_active None / tiny / below the chunk size / large, slow and fast consumers "
                    "and workers, lifespans, 4 start methods; oracle: max(drawn - delivered) <= max_tasks_active + ceil(chunk), "
                    "the generator does not advance while the consumer sleeps, all results delivered (no stall)",
               samples=[dict(scenario=recs[0]['scenario'], lookahead=(recs[0]['result'] or {}).get('calls', [{}])[0].get('lookahead'))],
               worst_vs_bound=worst[:40], oracle_failures=len(bad), unfinished=len(hangs))
    return dict(proof=proof, violations=out_v, broken_obligation=proof['failed_obligation'], coverage=cov, wall_s=time.time() - t0)


def replay(payload):
    recs = runner.run_many([payload['scenario']], 'replay', jobs=1, keep=True)
    bad, hangs = analyse(recs)
    print("status:", recs[0]['status'])
    for rec, msg in bad:
        print("oracle:", msg)
    return 1 if (bad or hangs) else 0

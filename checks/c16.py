"""C16 -- order_tasks assigns chunk i to worker i mod n_jobs."""
import random
import time

from lib import scen as S, runner, conf
from lib.common import build_props

GROUPS = ['GenProto', 'GenStruct']


def gen(rng, count, tier):
    scens = []
    sms = ['fork', 'fork', 'threading', 'forkserver', 'spawn'] if tier == 'quick' else S.START_METHODS
    for k in range(count):
        nj = rng.choice([1, 2, 3, 4])
        keep = rng.random() < 0.6
        via_setter = rng.random() < 0.4
        late_setter = keep and via_setter and rng.random() < 0.5      # switched on while kept-alive workers are already running
        pool = {'n_jobs': nj, 'start_method': sms[k % len(sms)], 'keep_alive': keep, 'order_tasks': not via_setter}
        calls = []
        if late_setter:
            calls.append({'kind': 'map_unordered', 'n': 6, 'input': 'list', 'elem': 'scalar', 'params': {'chunk_size': 1}, 'base': 9000,
                          'unordered_dispatch': True})
        if via_setter:
            calls.append({'kind': 'setter', 'name': 'set_order_tasks', 'args': [True]})
        for j in range(rng.choice([1, 2, 3])):
            n = rng.choice([1, 3, 7, 12, 20, 33])
            params = {}
            m = rng.choice(['cs', 'cs', 'ns', 'def'])
            if m == 'cs':
                params['chunk_size'] = rng.choice([1, 2, 3, 5])
            elif m == 'ns':
                params['n_splits'] = rng.choice([2, 3, 7, n])
            if rng.random() < 0.4:
                params['worker_lifespan'] = rng.choice([1, 2, 3])
            if rng.random() < 0.3:
                params['max_tasks_active'] = rng.choice([1, 2, 4])
            call = {'kind': rng.choice(['map', 'map_unordered', 'imap', 'imap_unordered']), 'n': n, 'input': 'list',
                    'elem': 'scalar', 'params': params, 'base': 1000 * (j + 1)}
            if j == 0 and rng.random() < 0.3 and n >= 7:
                # the input iterable itself raises after some chunks were handed out; the caller catches it
                # (unordered variants only: an ordered call cut short by its own input leaves the ordering flag set --
                #  finding D17, adjacent to C06, outside this property)
                call.update(input='gen_raising', raise_at=rng.choice([n - 1, n - 2, n // 2 + 1]), expect_exc='RuntimeError',
                            kind=rng.choice(['map_unordered', 'imap_unordered']))
                call['params'] = {'chunk_size': rng.choice([1, 2]), 'iterable_len': n}
            calls.append(call)
            if rng.random() < 0.3 and not call.get('expect_exc'):
                # tasks submitted with apply_async between the calls take chunk numbers too: the next call still starts at 0
                calls.append({'kind': 'apply_batch', 'jobs': [{'id': i, 'args': [1000 * (j + 1) + 800 + i], 'cbs': [False, False]}
                                                                for i in range(rng.choice([1, 2, 4]))], 'get_timeout': 20, 'no_join': True})
        if calls and calls[-1].get('expect_exc') and len([c for c in calls if 'n' in c]) == 1:
            calls.append({'kind': 'map', 'n': 9, 'input': 'list', 'elem': 'scalar', 'params': {'chunk_size': 2}, 'base': 5000})
        beh = {'task': [{'worker': 0, 'do': 'sleep', 's': 0.03}]}
        if k % 5 == 4 and nj >= 2:
            # apply tasks that are all STILL RUNNING (none has completed) when the first map call starts: its chunks are
            # numbered from zero all the same
            na = rng.choice([a for a in (1, 2, 3, 5) if a % nj != 0] or [1])
            calls.insert(0, {'kind': 'apply_batch', 'jobs': [{'id': i, 'args': [700 + i], 'cbs': [False, False]} for i in range(na)],
                             'fire_and_forget': True})
            beh['task'] += [{'at': 700 + i, 'do': 'sleep', 's': 1.2} for i in range(na)]
        scens.append({'id': f'o{k}', 'pool': pool, 'calls': calls, 'budget': 60, 'behaviour': beh})
    return scens


def oracle(rec):
    """returns (message or None, number of (task, worker) pairs checked)"""
    nj = rec['scenario']['pool']['n_jobs']
    # main's own log: add_task(chunk) events grouped by job id, each in order
    jobs = {}
    order_of_jobs = []
    for name, evs in rec['events'].items():
        prev = None
        for e in evs:
            if e.get('k') != 'call':
                continue
            if e.get('m') == '_get_task_worker_id':
                prev = e
            elif e.get('m') == 'add_task' and e.get('what') == 'chunk' and e.get('wid_arg') is None:
                j = e['job']
                if j not in jobs:
                    jobs[j] = []
                    order_of_jobs.append(j)
                jobs[j].append((e['len'], prev.get('chosen') if prev else None))
    map_calls = [c for c in rec['scenario']['calls'] if c['kind'] in ('map', 'map_unordered', 'imap', 'imap_unordered')]
    if len(order_of_jobs) != len(map_calls):
        return f"{len(map_calls)} map calls but {len(order_of_jobs)} dispatch sequences in main's log", 0
    task_worker = {}
    for e in S.task_events(rec):
        a = e['args']
        if isinstance(a, list) and a[0] == 'tuple' and a[1]:
            task_worker.setdefault(a[1][0], []).append(int(str(e['inst']).split(':')[0]))
    checked = 0
    for call, j in zip(map_calls, order_of_jobs):
        pos = call.get('base', 0)
        if call.get('expect_exc') or call.get('unordered_dispatch'):
            continue                      # cut short by its own input / dispatched before ordering was switched on: not judged
        for k, (ln, chosen) in enumerate(jobs[j]):
            if chosen != k % nj:
                return f"call base={call.get('base')}: chunk {k} was put on worker {chosen}, expected {k % nj}", checked
            for t in range(pos, pos + ln):
                ws = task_worker.get(t, [])
                checked += 1
                if ws != [k % nj]:
                    return f"call base={call.get('base')}: task {t} (chunk {k}) ran on worker(s) {ws}, expected {k % nj}", checked
            pos += ln
    return None, checked


def analyse(recs):
    bad, hangs, pairs = [], [], 0
    for rec in recs:
        if rec['status'] != 'done' or not rec['result']:
            hangs.append(rec)
            continue
        errs = [c for c, sc in zip(rec['result']['calls'], rec['scenario']['calls'])
                if c.get('outcome') != 'ok' and not (sc.get('expect_exc') and c.get('exc', {}).get('type') == sc['expect_exc'])]
        if errs:
            bad.append((rec, f"call raised {errs[0]['exc']['type']}: {errs[0]['exc']['args']}"))
            continue
        msg, n = oracle(rec)
        pairs += n
        if msg:
            bad.append((rec, msg))
    return bad, hangs, pairs


def run(ctx):
    rng = random.Random(ctx['seed'] + 16)
    t0 = time.time()
    proof = build_props('C16', GROUPS)
    scens = gen(rng, 40 if ctx['tier'] == 'quick' else 300, ctx['tier'])
    recs = runner.run_many(scens, 'c16', jobs=10)
    bad, hangs, pairs = analyse(recs)
    out_v = []
    for rec, msg in bad[:3]:
        again = runner.run_many([rec['scenario']] * 2, 'c16_re', jobs=2)
        b2, h2, _ = analyse(again)
        if b2 or h2:
            out_v.append(dict(found_input=True, what=msg, signature='C16:assignment',
                              replay=dict(kind='scenario', scenario=rec['scenario'], got=msg)))
    for rec in hangs[:2]:
        again = runner.run_many([rec['scenario']], 'c16_re', jobs=1)
        if again[0]['status'] != 'done':
            out_v.append(dict(found_input=True, what=f"scenario did not finish: {rec['status']}", signature='C16:hang',
                              replay=dict(kind='scenario', scenario=rec['scenario'], got=rec['status'], stacks=rec['stacks'][-3000:])))
    sel = []
    for rec in recs:
        if rec['status'] == 'done':
            sel += conf.selection_cases(rec)
    broken = proof['failed_obligation']
    sel_bad = []
    if proof['ok']:
        try:
            sel_bad = conf.evaluate(sel, 'c16_sel')
        except Exception as e:
            broken = "selection kernel could not be evaluated: " + str(e)[:500]
    if broken is None and sel_bad:
        d, got, obs = sel_bad[0]
        broken = f"generated selection kernel vs observed add_task: {len(sel_bad)} of {len(sel)} differ; first {d}: model {got} observed {obs}"
    cov = dict(evaluations=len(recs), distinct_nontrivial=len({str(r['scenario']['pool']) + str(r['scenario']['calls']) for r in recs if r['status'] == 'done'}),
               rule="histories of 1-3 map-family calls on pools with order_tasks set by constructor or setter, keep_alive on/off, "
                    "lifespans, chunkings, 4 start methods; oracle: main's own add_task log gives chunk k -> tasks, each task's "
                    "worker id (from the user function's log) must be k mod n_jobs, numbering from 0 in every call; every "
                    "add_task also replayed through the generated selection kernel",
               samples=[dict(scenario=recs[0]['scenario'])], task_worker_pairs_checked=pairs,
               traces_validated_against_impl=len(sel), selection_mismatches=len(sel_bad), oracle_failures=len(bad), unfinished=len(hangs))
    return dict(proof=proof, violations=out_v, broken_obligation=broken, coverage=cov, wall_s=time.time() - t0)


def replay(payload):
    recs = runner.run_many([payload['scenario']], 'replay', jobs=1, keep=True)
    bad, hangs, _ = analyse(recs)
    print("status:", recs[0]['status'])
    for rec, msg in bad:
        print("oracle:", msg)
    return 1 if (bad or hangs) else 0

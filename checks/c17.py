"""C17 -- SIGINT yields KeyboardInterrupt after clean shutdown, or correct completion."""
import os
import random
import re
import time

from lib import scen as S, runner
from lib.common import build_props

GROUPS = ['GenStruct', 'GenAsync', 'GenObserve']
HELPERS = ('resource_tracker import main', 'forkserver import main')
CAL = {}
POOL_THREADS = ('_results_handler', '_restart_handler', '_timeout_handler', '_unexpected_death_handler', '_progress_bar_handler',
                'join_task_queues')


def base_scen(rng, k, sm):
    nj = rng.choice([2, 3])
    pool = {'n_jobs': nj, 'start_method': sm}
    if rng.random() < 0.3:
        pool['keep_alive'] = True
    params = {'chunk_size': rng.choice([1, 2])}
    if rng.random() < 0.3:
        params['worker_lifespan'] = rng.choice([2, 3])
    if rng.random() < 0.25:
        params['progress_bar'] = True
    call = {'kind': rng.choice(['map', 'map_unordered', 'imap', 'imap_unordered']), 'n': 12, 'input': rng.choice(['list', 'gen']),
            'elem': 'scalar', 'params': params, 'base': 1000, 'init': rng.random() < 0.3, 'exit': rng.random() < 0.3}
    if call['input'] == 'gen':
        params['iterable_len'] = 12
    return {'id': f's{k}', 'pool': pool, 'calls': [call], 'budget': 40, 'behaviour': {}, 'want_leaks': True, 'settle': 0.3, 'warmup': True,
            'env': {'VERIF_TASK_SLEEP': '0.01'}}


def with_sigint(sc, sig, tag):
    import copy
    s2 = copy.deepcopy(sc)
    s2['calls'][0]['sigint'] = sig
    s2['id'] = sc['id'] + tag
    s2['sig'] = sig
    return s2


def live(snap):
    return [c for c in snap.get('children', []) if c['state'] != 'Z' and not any(h in c['cmd'] for h in HELPERS)]


def pool_threads(snap):
    return [t for t in snap.get('threads', []) if any(p in t for p in POOL_THREADS)]


def oracle(rec, strict=True):
    """returns (message or None, class of the finding)"""
    res, sc = rec['result'], rec['scenario']
    call, out = sc['calls'][0], res['calls'][0]
    where = f"SIGINT {sc['sig']}"
    if 'pool_exc' in res and res['pool_exc']['type'] != 'KeyboardInterrupt':
        return f"{where}: leaving the pool raised {res['pool_exc']['type']}: {res['pool_exc']['args'][:100]}", 'pool_exit'
    if out.get('outcome') == 'ok':
        if call.get('elem') == 'bigtuple':
            msg = None if len(out.get('value') or []) == call['n'] else f"{len(out.get('value') or [])} results for {call['n']} tasks"
        else:
            msg = S.check_value(call, out)
        if msg:
            return f"{where}: the call returned but {msg}", 'wrong_result'
    else:
        e = out['exc']
        if e['type'] != 'KeyboardInterrupt':
            return f"{where}: the call raised {e['type']}: {e['args'][:140]} instead of KeyboardInterrupt", 'wrong_exception'
        if out['wall'] > 15 + 6.0 * CAL.get(sc['pool']['start_method'], 0.0):
            return f"{where}: KeyboardInterrupt only after {out['wall']:.1f}s", 'slow'
        part = out.get('partial', [])
        exp = S.expected_value(call) if call.get('elem') != 'bigtuple' else []
        if call.get('elem') == 'bigtuple':
            pass
        elif call['kind'] == 'imap' and part != exp[:len(part)]:
            return f"{where}: imap yielded wrong values before KeyboardInterrupt: {str(part)[:100]}", 'wrong_result'
        if call.get('elem') != 'bigtuple' and call['kind'] == 'imap_unordered' and any(S.key(v) not in {S.key(x) for x in exp} for v in part):
            return f"{where}: imap_unordered yielded wrong values before KeyboardInterrupt", 'wrong_result'
        # a kept-alive pool keeps its workers after a call by design: a SIGINT that arrives in the clean-up tail of a
        # call whose work is done finds them alive; for such pools only the state after leaving the pool is judged
        if strict and not sc['pool'].get('keep_alive'):
            ar = out.get('at_raise', {})
            # worker processes = the pids that logged a worker instance start (the tqdm / insights manager processes are not workers)
            wpids = {e['pid'] for e in runner.all_events(rec, 'instance_start')}
            alive_workers = [c for c in live(ar) if c['pid'] in wpids]
            if alive_workers or pool_threads(ar):
                return (f"{where}: KeyboardInterrupt reached the caller while {len(alive_workers)} worker process(es) and helper threads "
                        f"{pool_threads(ar)} of the pool were still alive"), 'alive_at_raise'
    aft = res.get('after_exit', {})
    if live(aft) or pool_threads(aft):
        return f"{where}: after the pool was left: live children {live(aft)[:2]}, pool threads {pool_threads(aft)}", 'leak_after_exit'
    base = res.get('baseline', {})
    if base and aft and aft.get('sigint') != base.get('sigint'):
        return f"{where}: SIGINT handler changed from {base.get('sigint')} to {aft.get('sigint')}", 'handler_changed'
    return None, None


def analyse(recs):
    bad, hangs = [], []
    for rec in recs:
        if rec['status'] != 'done' or not rec['result'] or not rec['result']['calls']:
            hangs.append(rec)
            continue
        msg, cls = oracle(rec)
        if msg:
            bad.append((rec, msg, cls))
    return bad, hangs


_RANGES = {}


def _fn_ranges(fname):
    """[(qualified-ish name, first line, last line)] of every function in /repo/mpire/<fname> (innermost = smallest range)"""
    import ast
    from lib.common import REPO
    if fname not in _RANGES:
        out = []
        try:
            tree = ast.parse(open(os.path.join(REPO, 'mpire', fname)).read())
            for node in ast.walk(tree):
                if isinstance(node, (ast.FunctionDef, ast.AsyncFunctionDef)):
                    out.append((node.name, node.lineno, node.end_lineno))
        except (OSError, SyntaxError):
            pass
        _RANGES[fname] = out
    return _RANGES[fname]


def norm_point(at):
    """a delivery point without line numbers (they move with every edit of the file): the enclosing function instead"""
    try:
        kind, rest = at.split('|', 1)
        a, b, c = rest.split(':')
        if kind == 'call':                       # call|file:func:firstline
            return f"{kind}|{a}:{b}"
        if kind in ('xcall', 'cret'):            # xcall|file:line:callee
            line = int(b)
            encl = [r for r in _fn_ranges(a) if r[1] <= line <= r[2]]
            fn = min(encl, key=lambda r: r[2] - r[1])[0] if encl else '?'
            return f"{kind}|{a}:{fn}:{c}"
    except (ValueError, IndexError):
        pass
    return at


def point_regex(norm):
    """regex over concrete point ids for a normalised point"""
    kind, rest = norm.split('|', 1)
    parts = rest.split(':')
    if kind == 'call':
        return r"call\|%s:%s:\d+" % (re.escape(parts[0]), re.escape(parts[1]))
    fname, fn, callee = parts
    lines = sorted({ln for name, lo, hi in _fn_ranges(fname) if name == fn for ln in range(lo, hi + 1)})
    return r"%s\|%s:(%s):%s" % (kind, re.escape(fname), '|'.join(map(str, lines)) or r'\d+', re.escape(callee))


def sig_point(rec):
    sg = rec['scenario']['sig']
    if sg.get('norm'):
        return sg['norm']
    if sg.get('at'):
        return norm_point(sg['at'])
    return sg.get('at_re') or 'time'


def run(ctx):
    rng = random.Random(ctx['seed'] + 17)
    t0 = time.time()
    proof = build_props('C17', GROUPS)
    CAL.update(runner.calibrate())
    quick = ctx['tier'] == 'quick'
    sms = ['fork', 'fork', 'fork', 'forkserver', 'spawn', 'threading']
    bases = [base_scen(rng, k, sms[k % len(sms)]) for k in range(6 if quick else 9)]
    # 1. at which points of the library can a signal handler run in the main thread during the call?
    rec_runs = runner.run_many([with_sigint(b, {'mode': 'record'}, 'r') for b in bases], 'c17_rec', jobs=6)
    scens = []
    nlines = 0
    for b, r in zip(bases, rec_runs):
        lines = {}
        if r['status'] == 'done' and r['result']['calls']:
            lines = r['result']['calls'][0].get('lines', {})
        nlines += len(lines)
        keys = sorted(lines)
        pick = keys if not quick else rng.sample(keys, min(len(keys), 14))
        for key in pick:
            hits = lines[key]
            for hit in sorted({1, hits}):
                scens.append(with_sigint(b, {'mode': 'line', 'at': key, 'hit': hit, 'group': rng.random() < 0.3}, f'@{key}#{hit}'))
        for j in range(4 if quick else 20):
            scens.append(with_sigint(b, {'mode': 'time', 'delay': round(rng.uniform(0.0, 0.5), 3), 'group': rng.random() < 0.5}, f't{j}'))
    # corpus that runs every time: the delivery points of the listed (open) findings, on a configuration that reaches them
    from lib.common import known_findings
    for f in known_findings():
        if f.get('property') == 'C17' and f.get('status') == 'open' and f.get('signature', '').count(':') >= 2 and '|' in f['signature']:
            at = f['signature'].split(':', 2)[2]
            b = base_scen(random.Random(1), 900, 'fork')
            b['calls'][0]['params']['progress_bar'] = True
            b['pool'].pop('keep_alive', None)
            b['budget'] = 15
            scens.insert(0, with_sigint(b, {'mode': 'line', 'at_re': point_regex(at), 'hit': 1, 'norm': at}, '@known'))
    # ... and points that every run visits: the start-up of the progress-bar handler thread (deferred on purpose by the library)
    for j, pat in enumerate([r'xcall\|progress_bar\.py:\d+:wait', r'xcall\|progress_bar\.py:\d+:start', r'call\|progress_bar\.py:__enter__:\d+']):
        b = base_scen(random.Random(2 + j), 910 + j, ['fork', 'threading', 'forkserver'][j])
        b['calls'][0]['params']['progress_bar'] = True
        b['pool'].pop('keep_alive', None)
        b['budget'] = 20
        scens.insert(0, with_sigint(b, {'mode': 'line', 'at_re': pat, 'hit': 1}, '@pb'))
    # ... and an interrupt while many LARGE task arguments are queued (more than the pipes hold): terminate() has to empty the
    # queues completely before it can join them
    for j in range(3 if quick else 12):
        b = base_scen(random.Random(40 + j), 920 + j, 'fork')
        b['pool'].pop('keep_alive', None)
        nq = [24, 40][j % 2]
        b['calls'][0].update({'kind': ['map', 'map_unordered', 'imap_unordered'][j % 3], 'n': nq, 'input': 'list', 'elem': 'bigtuple',
                              'arg_bytes': [200000, 1000000][j % 2], 'params': {'chunk_size': 1, 'max_tasks_active': nq},
                              'init': False, 'exit': False})
        b['env'] = {'VERIF_TASK_SLEEP': '0.05'}
        b['budget'] = 40
        scens.insert(0, with_sigint(b, {'mode': 'time', 'delay': [0.15, 0.3, 0.5][j % 3], 'group': j % 2 == 0}, f'@big{j}'))
    recs = runner.run_many(scens, 'c17', jobs=10)
    bad, hangs = analyse(recs)
    out_v, seen = [], set()
    for rec, msg, cls in bad:
        sig = cls + ':' + sig_point(rec)
        if cls in seen and len(out_v) > 12:
            continue
        seen.add(cls)
        again = runner.run_many([rec['scenario']] * 2, 'c17_re', jobs=2)
        b2, h2 = analyse(again)
        if b2 or h2:
            out_v.append(dict(found_input=True, what=msg, signature='C17:' + sig,
                              replay=dict(kind='scenario', scenario=rec['scenario'], got=msg)))
    known_sigs = {f['signature'] for f in known_findings() if f.get('property') == 'C17' and f.get('status') == 'open'}
    reported = set()
    for rec in hangs[:12]:
        sig = 'hang:' + sig_point(rec)
        if sig in reported:
            continue
        reported.add(sig)
        # a listed finding is not run a second time (each run waits for the watchdog)
        again = [rec] if 'C17:' + sig in known_sigs else runner.run_many([rec['scenario']], 'c17_re', jobs=1)
        if again[0]['status'] != 'done':
            out_v.append(dict(found_input=True, what=f"SIGINT {rec['scenario']['sig']}: the call did not finish ({rec['status']})", signature='C17:' + sig,
                              replay=dict(kind='scenario', scenario=rec['scenario'], got=rec['status'], stacks=rec['stacks'][-3000:])))
    outcomes = {}
    for r in recs:
        if r['status'] == 'done' and r['result']['calls']:
            o = r['result']['calls'][0]
            key = ('KeyboardInterrupt' if o.get('outcome') == 'exc' and o['exc']['type'] == 'KeyboardInterrupt' else
                   'completed' if o.get('outcome') == 'ok' else 'other:' + o.get('exc', {}).get('type', '?'))
            outcomes[key] = outcomes.get(key, 0) + 1
    classes = {}
    for _, _, cls in bad:
        classes[cls] = classes.get(cls, 0) + 1
    cov = dict(evaluations=len(recs) + len(rec_runs), distinct_nontrivial=len({str(r['scenario']['pool']) + str(r['scenario']['calls']) for r in recs}),
               rule="for each of several configurations (n_jobs, 4 start methods, keep_alive, lifespan, progress bar, map/imap ordered/unordered) a "
                    "recording run lists every point of mpire/{pool,comms,async_result,signal,progress_bar,tqdm_utils}.py at which CPython can run a "
                    "signal handler in the main thread during the call (entry of a Python function; right after a C call returns); SIGINT is then "
                    "delivered (to the process or its whole group) exactly at the 1st / last occurrence of a chosen point (setprofile injection, "
                    "deterministic and replayable; exceptions raised there obey the frame's try blocks) and at random wall-clock instants. Oracle: "
                    "KeyboardInterrupt within seconds with no worker process or pool thread alive when it reaches the caller, or a complete "
                    "correct result; nothing else; after the pool is left no child, no pool thread, SIGINT handler as before",
               samples=[dict(scenario=recs[0]['scenario'])], lines_recorded=nlines, outcomes=outcomes, finding_classes=classes,
               oracle_failures=len(bad), unfinished=len(hangs))
    return dict(proof=proof, violations=out_v, broken_obligation=proof['failed_obligation'], coverage=cov, wall_s=time.time() - t0)


def replay(payload):
    CAL.update(runner.calibrate())
    recs = runner.run_many([payload['scenario']], 'replay', jobs=1, keep=True)
    bad, hangs = analyse(recs)
    print("status:", recs[0]['status'])
    for rec, msg, cls in bad:
        print("oracle:", cls, msg)
    if hangs:
        print(recs[0]['stacks'][-3000:])
    return 1 if (bad or hangs) else 0

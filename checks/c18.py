"""C18 -- worker insights account for every task."""
import json
import os
import random
import subprocess
import time
from fractions import Fraction

from lib import scen as S, runner
from lib.common import build_props, coq_eval, WORK, REPO, VERIF, PY

GROUPS = ['GenObserve', 'GenProto']


def coq_str(s):
    return '"' + s.replace('"', '""') + '"'


def kernel_differential(rng, n):
    cases = []
    for _ in range(n):
        nj = rng.choice([1, 2, 3])
        m = nj * 5
        style = rng.random()
        durs = [rng.choice([0, 0, rng.randrange(1, 50)]) if style < 0.5 else rng.randrange(0, 6) for _ in range(m)]
        args = [rng.choice(['', 'a%d' % i, 'Arg 0: %d' % i]) if d else rng.choice(['', 'x']) for i, d in enumerate(durs)]
        times = [[rng.randrange(0, 100) for _ in range(nj)] for _ in range(5)]
        if rng.random() < 0.1:
            times = [[0] * nj for _ in range(5)]
        cases.append({'durs': durs, 'args': args, 'times': times, 'counts': [rng.randrange(0, 9) for _ in range(nj)]})
    d = os.path.join(WORK, 'c18k.%d' % os.getpid())          # per process: quick and thorough may run at the same time
    os.makedirs(d, exist_ok=True)
    json.dump(cases, open(os.path.join(d, 'cases.json'), 'w'))
    env = dict(os.environ, PYTHONPATH=f"{REPO}:{os.path.join(VERIF, 'harness')}", PYTHONHASHSEED='0')
    subprocess.run([PY, os.path.join(VERIF, 'harness', 'c18_impl.py'), os.path.join(d, 'cases.json'), os.path.join(d, 'out.json')],
                   env=env, check=True, timeout=120)
    impl = json.load(open(os.path.join(d, 'out.json')))
    bodies = []
    for c in cases:
        dl = "[" + "; ".join(f"{x}%Z" for x in c['durs']) + "]"
        al = "[" + "; ".join(coq_str(a) for a in c['args']) + "]%string"
        # print durations and the INDEX-free args as a list of (Z * string)
        bodies.append(f"(top5 {dl} {al})")
    got = coq_eval('c18k', "From Coq Require Import List String ZArith.\nImport ListNotations.\nFrom Mpv Require Import Observe.\nOpen Scope string_scope.\nOpen Scope Z_scope.\n", bodies, jobs=2)
    bad = []
    for c, r, g in zip(cases, impl['results'], got):
        want = "[" + "; ".join(f'({int(dv)}%Z, {coq_str(a)}%string)' for dv, a in zip(r['top_d'], r['top_a'])) + "]"
        norm = lambda t: t.replace(' ', '').replace('%Z', '').replace('%string', '')
        if norm(g) != norm(want):
            bad.append(dict(case=c, implementation=[r['top_d'], r['top_a']], model=g))
        # direct oracle on the real function's ratios (exact reference with Fractions)
        tot = [sum(t) for t in c['times']]
        T = sum(tot)
        for x, rr in zip(tot, r['ratios']):
            ref = Fraction(x) / (Fraction(T) + Fraction(1, 10**8))
            if not (0 <= rr <= 1) or abs(Fraction(rr) - ref) > Fraction(1, 10**9):
                bad.append(dict(case=c, ratios=r['ratios'], reference=float(ref)))
                break
        if r['counts'] != c['counts']:
            bad.append(dict(case=c, counts=r['counts']))
    if impl['disabled'] != {}:
        bad.append(dict(case='insights disabled', got=impl['disabled']))
    return len(cases), bad


def gen(rng, k, sms):
    sm = sms[k % len(sms)]
    nj = rng.choice([1, 2, 3, 4])
    enabled = rng.random() < 0.85
    pool = {'n_jobs': nj, 'start_method': sm, 'enable_insights': enabled, 'keep_alive': rng.random() < 0.5}
    calls = []
    for j in range(rng.choice([1, 2, 3])):
        params = {}
        m = rng.choice(['cs', 'cs', 'def', 'ns'])
        if m == 'cs':
            params['chunk_size'] = rng.choice([1, 2, 5])
        elif m == 'ns':
            params['n_splits'] = rng.choice([1, 3, 7])
        if rng.random() < 0.4:
            params['worker_lifespan'] = rng.choice([1, 2, 3])
        n = rng.choice([1, 4, 11, 25])
        inp = rng.choice(['list', 'gen', 'ndarray'])
        call = {'kind': rng.choice(['map', 'map_unordered', 'imap', 'imap_unordered']), 'n': n, 'input': inp, 'elem': 'scalar',
                'params': params, 'base': 1000 * (j + 1), 'init': rng.random() < 0.4, 'exit': rng.random() < 0.4, 'want_insights': True}
        if inp == 'gen' and rng.random() < 0.7:
            params['iterable_len'] = n
        if inp == 'ndarray':
            call['func'] = 'task_np'
            call['init'] = call['exit'] = False
        if rng.random() < 0.25:
            # tasks submitted through apply_async count as well
            nb = rng.choice([1, 3, 6])
            call = {'kind': 'apply_batch', 'jobs': [{'id': i, 'args': [call['base'] + i], 'cbs': [False, False]} for i in range(nb)],
                    'get_timeout': 20, 'no_join': pool['keep_alive'], 'want_insights': True, 'base': call['base'], 'n': nb, 'input': 'apply',
                    'params': {}}
        calls.append(call)
        if rng.random() < 0.2:
            calls.append({'kind': 'setter', 'name': 'set_keep_alive', 'args': [rng.random() < 0.5]})
    calls.append({'kind': 'stop_and_join'})
    return {'id': f'i{k}', 'pool': pool, 'calls': calls, 'budget': 60, 'behaviour': {},
            'env': {'VERIF_TASK_SLEEP': rng.choice(['0', '0.002', '0.01'])}}


def oracle(rec):
    res, sc = rec['result'], rec['scenario']
    nj = sc['pool']['n_jobs']
    if 'pool_exc' in res:
        return f"leaving the pool raised {res['pool_exc']['type']}: {res['pool_exc']['args'][:100]}"
    # how many times the task function ran in each call, and which calls started fresh workers (main's own log)
    fresh = []
    for name, evs in rec['events'].items():
        pending, seen = False, set()
        for e in evs:
            if e.get('k') != 'call':
                continue
            if e.get('m') == 'init_comms':
                pending = True
            elif e.get('m') == 'add_task' and e.get('what') in ('chunk', 'tuple') and e.get('job') is not None and e['job'] >= 0 and e['job'] not in seen:
                seen.add(e['job'])
                fresh.append(pending)
                pending = False
    task_events = [e for e in runner.all_events(rec, 'task')]
    acc, di = 0, 0
    for c, o in zip(sc['calls'], res['calls']):
        if 'n' not in c:
            continue
        if o.get('outcome') != 'ok':
            return f"call base={c['base']} raised {o['exc']['type']}: {o['exc']['args'][:100]}"
        if c['kind'] == 'apply_batch' and any(v[0] != 'ok' for v in o.get('value', [])):
            return f"apply batch base={c['base']}: {str(o.get('value'))[:120]}"
        ins = o.get('insights')
        if not sc['pool']['enable_insights']:
            if ins != {}:
                return f"insights disabled but get_insights() returned {str(ins)[:100]}"
            continue
        if c['input'] == 'ndarray':
            ran = sum(1 for e in task_events if 'np_len' in e and e.get('first') is not None and c['base'] <= e['first'] < c['base'] + 1000)
        else:
            ran = sum(1 for e in task_events if e.get('args') and e['args'][1] and isinstance(e['args'][1][0], int)
                      and c['base'] <= e['args'][1][0] < c['base'] + 1000)
        njobs_of_call = len(c['jobs']) if c['kind'] == 'apply_batch' else (1 if ran else 0)
        if any(fresh[di:di + njobs_of_call]):
            acc = 0
        di += njobs_of_call
        acc += ran
        if ins is None:
            return f"call base={c['base']}: get_insights() failed: {o.get('insights_error')}"
        missing = [key for key in ('n_completed_tasks', 'start_up_ratio', 'working_ratio', 'top_5_max_task_durations', 'top_5_max_task_args',
                                   'working_time', 'start_up_time', 'init_time', 'waiting_time', 'exit_time') if key not in ins]
        if missing:
            return (f"call base={c['base']} ({c['kind']}): insights are enabled but get_insights() returned {str(ins)[:80]} "
                    f"(missing {missing[:3]})")
        cnt = ins['n_completed_tasks']
        if len(cnt) != nj:
            return f"call base={c['base']}: {len(cnt)} counter entries for n_jobs={nj}"
        if sum(cnt) != acc:
            return (f"call base={c['base']}: completed-task counters {cnt} sum to {sum(cnt)} but {acc} tasks were executed since the workers "
                    f"were last started ({ran} in this call; lifespan={c['params'].get('worker_lifespan')}, keep_alive={sc['pool']['keep_alive']})")
        ratios = [ins[f'{p}_ratio'] for p in ('start_up', 'init', 'waiting', 'working', 'exit')]
        if any(not (0 <= r <= 1) for r in ratios):
            return f"call base={c['base']}: ratio outside [0,1]: {ratios}"
        if abs(sum(ratios) - 1) > 1e-3:
            return f"call base={c['base']}: ratios sum to {sum(ratios)}: {ratios}"
        for key in ('start_up_time', 'init_time', 'waiting_time', 'working_time', 'exit_time'):
            if len(ins[key]) != nj or any(str(v).startswith('-') for v in ins[key]):
                return f"call base={c['base']}: {key} = {ins[key]}"
        td, ta = ins['top_5_max_task_durations'], ins['top_5_max_task_args']
        if len(td) > 5 or len(td) != len(ta) or any(not isinstance(a, str) or a == '' for a in ta):
            return f"call base={c['base']}: top-5 lists malformed: {td} {ta}"
        if td != sorted(td, reverse=True):
            return f"call base={c['base']}: top-5 durations not in decreasing order: {td}"
        # a map-family call has just ended: every worker synced its longest tasks when it took the (lethal or non-lethal)
        # pill, so the merged list accounts for the tasks of this call
        if c['kind'] != 'apply_batch' and c['input'] != 'ndarray' and not c['params'].get('worker_lifespan') and len(td) < min(5, ran):
            return (f"call base={c['base']}: {ran} tasks of this call were executed but the top-5 list has only {len(td)} entries "
                    f"(keep_alive={sc['pool']['keep_alive']})")
    return None


def analyse(recs):
    bad, hangs = [], []
    for rec in recs:
        if rec['status'] != 'done' or not rec['result'] or len(rec['result']['calls']) < len(rec['scenario']['calls']):
            hangs.append(rec)
            continue
        msg = oracle(rec)
        if msg:
            bad.append((rec, msg))
    return bad, hangs


def run(ctx):
    rng = random.Random(ctx['seed'] + 18)
    t0 = time.time()
    proof = build_props('C18', GROUPS)
    quick = ctx['tier'] == 'quick'
    nk, kbad = kernel_differential(rng, 250 if quick else 2500)
    sms = ['fork', 'fork', 'threading', 'forkserver', 'spawn']
    scens = [gen(rng, k, sms) for k in range(45 if quick else 450)]
    recs = runner.run_many(scens, 'c18', jobs=8)
    bad, hangs = analyse(recs)
    out_v, seen = [], set()
    if kbad:
        out_v.append(dict(found_input=True, what=f"get_insights differs from the model / the reference: {str(kbad[0])[:300]}", signature='C18:kernel',
                          replay=dict(kind='kernel', case=kbad[0])))
    for rec, msg in bad[:6]:
        sig = msg.split(':')[1][:40] if ':' in msg else msg[:40]
        if sig in seen:
            continue
        seen.add(sig)
        again = runner.run_many([rec['scenario']] * 2, 'c18_re', jobs=2)
        b2, h2 = analyse(again)
        if b2 or h2:
            out_v.append(dict(found_input=True, what=msg, signature='C18:' + sig, replay=dict(kind='scenario', scenario=rec['scenario'], got=msg)))
    for rec in hangs[:2]:
        again = runner.run_many([rec['scenario']], 'c18_re', jobs=1)
        if again[0]['status'] != 'done':
            out_v.append(dict(found_input=True, what=f"scenario with insights did not finish ({rec['status']})", signature='C18:hang',
                              replay=dict(kind='scenario', scenario=rec['scenario'], got=rec['status'], stacks=rec['stacks'][-3000:])))
    dist = {}
    for sc in scens:
        for key in ('start:' + sc['pool']['start_method'], 'enabled:' + str(sc['pool']['enable_insights']), 'keep_alive:' + str(sc['pool']['keep_alive']),
                    'calls:' + str(sum(1 for c in sc['calls'] if 'n' in c)),
                    'lifespan:' + str(any(c.get('params', {}).get('worker_lifespan') for c in sc['calls']))):
            dist[key] = dist.get(key, 0) + 1
    cov = dict(evaluations=len(recs) + nk, distinct_nontrivial=len({str(r['scenario']['pool']) + str(r['scenario']['calls']) for r in recs}),
               rule="(kernel) the REAL get_insights on random counter states (zero / tied / unsynced-args slots, all-zero times) against the "
                    "Coq top-5 model evaluated by vm_compute and an exact-fraction reference for the ratios; (end to end) pools with insights "
                    "enabled / disabled, 1-3 consecutive map-family calls with and without keep_alive, lifespans, chunkings, list / generator / "
                    "numpy input, 4 start methods: one counter per worker id, counters sum to the number of task-function invocations since "
                    "the workers were last started (fresh-start detection from main's own log), ratios in [0,1] summing to 1, times non-negative, "
                    "top-5 short / decreasing / with argument strings, {} when disabled",
               samples=[dict(scenario=recs[0]['scenario'])], distribution=dist, kernel_cases=nk, oracle_failures=len(bad), unfinished=len(hangs))
    return dict(proof=proof, violations=out_v, broken_obligation=proof['failed_obligation'], coverage=cov, wall_s=time.time() - t0)


def replay(payload):
    if payload.get('kind') == 'kernel':
        print('kernel case', json.dumps(payload['case'])[:600])
        return 1
    recs = runner.run_many([payload['scenario']], 'replay', jobs=1, keep=True)
    bad, hangs = analyse(recs)
    print("status:", recs[0]['status'])
    for rec, msg in bad:
        print("oracle:", msg)
    return 1 if (bad or hangs) else 0

"""C19 -- the progress bar counts every work item once and ends at the total."""
import json
import os
import random
import subprocess
import time

from lib import scen as S, runner
from lib.common import build_props, coq_eval, WORK, REPO, VERIF, PY

GROUPS = ['GenObserve']
STYLES = ['std', 'std', 'std', 'rich', 'notebook', None]


def kernel_differential(rng, n):
    """comms.task_completed_progress_bar (real, clock replaced) against the Coq kernel tcpb on the same inputs"""
    cases = []
    for _ in range(n):
        cases.append(dict(force=rng.random() < 0.3, due=rng.random() < 0.5, loc=rng.randrange(0, 6), arr=rng.randrange(0, 50)))
    d = os.path.join(WORK, 'c19k.%d' % os.getpid())          # per process: quick and thorough may run at the same time
    os.makedirs(d, exist_ok=True)
    json.dump(cases, open(os.path.join(d, 'cases.json'), 'w'))
    env = dict(os.environ, PYTHONPATH=f"{REPO}:{os.path.join(VERIF, 'harness')}", PYTHONHASHSEED='0')
    subprocess.run([PY, os.path.join(VERIF, 'harness', 'c19_impl.py'), os.path.join(d, 'cases.json'), os.path.join(d, 'out.json')],
                   env=env, check=True, timeout=120)
    impl = json.load(open(os.path.join(d, 'out.json')))
    b = lambda x: 'true' if x else 'false'
    bodies = [f"(tcpb {b(c['force'])} {b(c['due'])} {c['loc']} {c['arr']})" for c in cases]
    got = coq_eval("c19k", "From Coq Require Import ZArith.\nFrom Mpv Require Import Observe.\nOpen Scope Z_scope.\n", bodies, jobs=2)
    bad = []
    for c, r, g in zip(cases, impl['results'], got):
        if g.replace(' ', '').replace('%nat', '') != f"({r[0]},{r[1]})":
            bad.append(dict(case=c, implementation=r, model=g))
    return len(cases), bad


def gen(rng, k, sms):
    sm = sms[k % len(sms)]
    nj = rng.choice([1, 2, 3, 4])
    pool = {'n_jobs': nj, 'start_method': sm, 'keep_alive': rng.random() < 0.5}
    calls = []
    style = STYLES[k % len(STYLES)]
    for j in range(rng.choice([1, 2, 3])):
        params = {'progress_bar': True}
        if style is not None:
            params['progress_bar_style'] = style
        m = rng.choice(['cs', 'cs', 'def', 'ns'])
        if m == 'cs':
            params['chunk_size'] = rng.choice([1, 2, 5])
        elif m == 'ns':
            params['n_splits'] = rng.choice([1, 3, 7])
        if rng.random() < 0.4:
            params['worker_lifespan'] = rng.choice([1, 2, 3])
        n = rng.choice([0, 1, 4, 13, 30])
        inp = rng.choice(['list', 'gen', 'gen', 'ndarray', 'gen_slow'])
        call = {'kind': rng.choice(['map', 'map_unordered', 'imap', 'imap_unordered']), 'n': n, 'input': inp, 'elem': 'scalar',
                'params': params, 'base': 1000 * (j + 1), 'init': rng.random() < 0.3, 'exit': rng.random() < 0.4, 'want_exit_results': True}
        if inp == 'gen' and rng.random() < 0.5:
            params['iterable_len'] = n              # sized; otherwise the length is unknown until the input is exhausted
        if inp == 'gen_slow':
            # an input slower than the workers: everything is displayed before the total becomes known
            call['n'] = n = rng.choice([1, 3, 4])
            call['gen_delay'] = rng.choice([0.12, 0.25])
            call['gen_tail'] = rng.choice([0.3, 0.6])
            if rng.random() < 0.7:
                params.pop('iterable_len', None)
                params.pop('n_splits', None)
                params['chunk_size'] = 1
        if inp == 'ndarray':
            call['func'] = 'task_np'
            call['init'] = call['exit'] = False
            if n == 0:
                call['n'] = n = 1
        calls.append(call)
        if pool['keep_alive'] and rng.random() < 0.4:
            # apply tasks still in flight when the next call (with its own bar) starts: they are not work items of that call
            calls.append({'kind': 'apply_batch', 'fire_and_forget': True,
                          'jobs': [{'id': i, 'args': [1000 * (j + 1) + 800 + i], 'cbs': [False, False]} for i in range(rng.choice([2, 4]))]})
    calls.append({'kind': 'stop_and_join'})
    return {'id': f'b{k}', 'pool': pool, 'calls': calls, 'budget': 60, 'behaviour': {'task': [{'at': 1000 * q + 800 + i, 'do': 'sleep', 's': 0.25} for q in range(1, 5) for i in range(4)]}, 'style': style,
            'env': {'VERIF_TASK_SLEEP': rng.choice(['0', '0.005', '0.02'])}, 'want_leaks': False}


def oracle(rec):
    res, sc = rec['result'], rec['scenario']
    if 'pool_exc' in res:
        return f"leaving the pool raised {res['pool_exc']['type']}: {res['pool_exc']['args'][:100]}"
    task_events = [e for e in runner.all_events(rec, 'task')]
    # bar events of the main process, per bar object, in the handler thread's own order
    bars = {}
    for name, evs in rec['events'].items():
        seg = 0
        for e in evs:
            if e.get('k') == 'bar_start':          # a handler thread (one per call with a bar) begins
                seg += 1
            elif e.get('k') == 'bar':
                bars.setdefault((name, seg), []).append(e)
    bar_list = sorted(bars.values(), key=lambda l: l[0]['t'])
    bi = 0
    for c, o in zip(sc['calls'], res['calls']):
        if 'n' not in c:
            continue
        if o.get('outcome') != 'ok':
            return f"call base={c['base']} raised {o['exc']['type']}: {o['exc']['args'][:140]}"
        msg = S.check_value(c, o)
        if msg:
            return f"call base={c['base']} with a progress bar: {msg}"
        if c['input'] == 'ndarray':
            items = sum(1 for e in task_events if 'np_len' in e and e.get('first') is not None and c['base'] <= e['first'] < c['base'] + 500)
        else:
            items = sum(1 for e in task_events if e.get('args') and e['args'][1] and isinstance(e['args'][1][0], int)
                        and c['base'] <= e['args'][1][0] < c['base'] + 500)
        if c.get('exit') and 'exit_results' in o:
            # showing the bar leaves exit results alone: one per worker_exit invocation of this pool so far is checked by C11
            pass
        if bi >= len(bar_list):
            if items == 0:
                continue
            return f"call base={c['base']}: no progress bar activity recorded for {items} work items"
        evs = bar_list[bi]
        bi += 1
        last = 0
        for e in evs:
            if e['n'] is None:
                continue
            if e['n'] < last:
                return f"call base={c['base']}: displayed count went from {last} down to {e['n']}"
            if e['total'] is not None and e['n'] > e['total']:
                return f"call base={c['base']}: displayed count {e['n']} exceeds the displayed total {e['total']}"
            last = e['n']
        final = evs[-1]
        if final['n'] != items:
            return (f"call base={c['base']}: the bar ended at {final['n']} but {items} work items were processed "
                    f"(lifespan={c['params'].get('worker_lifespan')}, input={c['input']}, sized={'iterable_len' in c['params'] or c['input'] not in ('gen', 'gen_slow')})")
        if final['total'] is not None and final['total'] != items and not (items == 0):
            return f"call base={c['base']}: the bar's total ended at {final['total']} but {items} work items were processed"
    return None


def analyse(recs):
    bad, hangs = [], []
    for rec in recs:
        if rec['status'] != 'done' or not rec['result'] or len(rec['result']['calls']) < len(rec['scenario']['calls']):
            hangs.append(rec)
            continue
        msg = oracle(rec)
        if msg:
            bad.append((rec, msg))
    return bad, hangs


def run(ctx):
    rng = random.Random(ctx['seed'] + 19)
    t0 = time.time()
    proof = build_props('C19', GROUPS)
    quick = ctx['tier'] == 'quick'
    nk, kbad = kernel_differential(rng, 200 if quick else 2000)
    sms = ['fork', 'fork', 'threading', 'forkserver', 'spawn']
    scens = [gen(rng, k, sms) for k in range(48 if quick else 480)]
    recs = runner.run_many(scens, 'c19', jobs=8)
    bad, hangs = analyse(recs)
    out_v, seen = [], set()
    if kbad:
        out_v.append(dict(found_input=True, what=f"task_completed_progress_bar differs from the model: {str(kbad[0])[:300]}", signature='C19:kernel',
                          replay=dict(kind='kernel', case=kbad[0])))
    for rec, msg in bad[:6]:
        sig = msg.split(':')[1][:40] if ':' in msg else msg[:40]
        if sig in seen:
            continue
        seen.add(sig)
        again = runner.run_many([rec['scenario']] * 2, 'c19_re', jobs=2)
        b2, h2 = analyse(again)
        if b2 or h2:
            out_v.append(dict(found_input=True, what=msg, signature='C19:' + sig, replay=dict(kind='scenario', scenario=rec['scenario'], got=msg)))
    for rec in hangs[:3]:
        again = runner.run_many([rec['scenario']], 'c19_re', jobs=1)
        if again[0]['status'] != 'done':
            out_v.append(dict(found_input=True, what=f"call with a progress bar did not finish ({rec['status']}), style {rec['scenario']['style']}", signature='C19:hang',
                              replay=dict(kind='scenario', scenario=rec['scenario'], got=rec['status'], stacks=rec['stacks'][-3000:])))
    dist = {}
    for sc in scens:
        for key in ('start:' + sc['pool']['start_method'], 'style:' + str(sc['style']), 'keep_alive:' + str(sc['pool']['keep_alive'])):
            dist[key] = dist.get(key, 0) + 1
        for c in sc['calls']:
            if 'n' in c:
                for key in ('n:' + str(c['n']), 'input:' + c['input'], 'sized:' + str(c['input'] not in ('gen', 'gen_slow') or 'iterable_len' in c['params']),
                            'lifespan:' + str(c['params'].get('worker_lifespan'))):
                    dist[key] = dist.get(key, 0) + 1
    cov = dict(evaluations=len(recs) + nk, distinct_nontrivial=len({str(r['scenario']['pool']) + str(r['scenario']['calls']) for r in recs}),
               rule="(kernel) the REAL comms.task_completed_progress_bar with the clock replaced against the Coq kernel tcpb; (end to end) 1-3 "
                    "consecutive map-family calls with progress_bar=True on pools with and without keep_alive, n in {0,1,4,13,30}, sized and "
                    "unsized generators, numpy input (items = array chunks), lifespans, chunkings, styles std / rich / notebook / default, 4 "
                    "start methods: every update of the bar object recorded through the guarded hook: count never decreases, never exceeds "
                    "the total, ends at the number of work items really processed (user function's own log) and at the total; results "
                    "unchanged by the bar",
               samples=[dict(scenario=recs[0]['scenario'])], distribution=dist, kernel_cases=nk, oracle_failures=len(bad), unfinished=len(hangs))
    return dict(proof=proof, violations=out_v, broken_obligation=proof['failed_obligation'], coverage=cov, wall_s=time.time() - t0)


def replay(payload):
    if payload.get('kind') == 'kernel':
        print('kernel case', json.dumps(payload['case'])[:600])
        return 1
    recs = runner.run_many([payload['scenario']], 'replay', jobs=1, keep=True)
    bad, hangs = analyse(recs)
    print("status:", recs[0]['status'])
    for rec, msg in bad:
        print("oracle:", msg)
    return 1 if (bad or hangs) else 0

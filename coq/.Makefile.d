Gen/GenChunk.vo Gen/GenChunk.glob Gen/GenChunk.v.beautified Gen/GenChunk.required_vo: Gen/GenChunk.v Lib/NumOps.vo
Gen/GenChunk.vio: Gen/GenChunk.v Lib/NumOps.vio
Gen/GenChunk.vos Gen/GenChunk.vok Gen/GenChunk.required_vos: Gen/GenChunk.v Lib/NumOps.vos
Lib/NumOps.vo Lib/NumOps.glob Lib/NumOps.v.beautified Lib/NumOps.required_vo: Lib/NumOps.v 
Lib/NumOps.vio: Lib/NumOps.v 
Lib/NumOps.vos Lib/NumOps.vok Lib/NumOps.required_vos: Lib/NumOps.v 
Model/Chunk.vo Model/Chunk.glob Model/Chunk.v.beautified Model/Chunk.required_vo: Model/Chunk.v Lib/NumOps.vo Gen/GenChunk.vo
Model/Chunk.vio: Model/Chunk.v Lib/NumOps.vio Gen/GenChunk.vio
Model/Chunk.vos Model/Chunk.vok Model/Chunk.required_vos: Model/Chunk.v Lib/NumOps.vos Gen/GenChunk.vos
Proofs/ChunkPartition.vo Proofs/ChunkPartition.glob Proofs/ChunkPartition.v.beautified Proofs/ChunkPartition.required_vo: Proofs/ChunkPartition.v Lib/NumOps.vo Gen/GenChunk.vo Model/Chunk.vo Spec/ChunkSpec.vo
Proofs/ChunkPartition.vio: Proofs/ChunkPartition.v Lib/NumOps.vio Gen/GenChunk.vio Model/Chunk.vio Spec/ChunkSpec.vio
Proofs/ChunkPartition.vos Proofs/ChunkPartition.vok Proofs/ChunkPartition.required_vos: Proofs/ChunkPartition.v Lib/NumOps.vos Gen/GenChunk.vos Model/Chunk.vos Spec/ChunkSpec.vos
Spec/ChunkSpec.vo Spec/ChunkSpec.glob Spec/ChunkSpec.v.beautified Spec/ChunkSpec.required_vo: Spec/ChunkSpec.v Lib/NumOps.vo Gen/GenChunk.vo Model/Chunk.vo
Spec/ChunkSpec.vio: Spec/ChunkSpec.v Lib/NumOps.vio Gen/GenChunk.vio Model/Chunk.vio
Spec/ChunkSpec.vos Spec/ChunkSpec.vok Spec/ChunkSpec.required_vos: Spec/ChunkSpec.v Lib/NumOps.vos Gen/GenChunk.vos Model/Chunk.vos

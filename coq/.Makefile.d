Gen/GenArgs.vo Gen/GenArgs.glob Gen/GenArgs.v.beautified Gen/GenArgs.required_vo: Gen/GenArgs.v Lib/NumOps.vo
Gen/GenArgs.vio: Gen/GenArgs.v Lib/NumOps.vio
Gen/GenArgs.vos Gen/GenArgs.vok Gen/GenArgs.required_vos: Gen/GenArgs.v Lib/NumOps.vos
Gen/GenAsync.vo Gen/GenAsync.glob Gen/GenAsync.v.beautified Gen/GenAsync.required_vo: Gen/GenAsync.v Lib/NumOps.vo
Gen/GenAsync.vio: Gen/GenAsync.v Lib/NumOps.vio
Gen/GenAsync.vos Gen/GenAsync.vok Gen/GenAsync.required_vos: Gen/GenAsync.v Lib/NumOps.vos
Gen/GenChunk.vo Gen/GenChunk.glob Gen/GenChunk.v.beautified Gen/GenChunk.required_vo: Gen/GenChunk.v Lib/NumOps.vo
Gen/GenChunk.vio: Gen/GenChunk.v Lib/NumOps.vio
Gen/GenChunk.vos Gen/GenChunk.vok Gen/GenChunk.required_vos: Gen/GenChunk.v Lib/NumOps.vos
Gen/GenObserve.vo Gen/GenObserve.glob Gen/GenObserve.v.beautified Gen/GenObserve.required_vo: Gen/GenObserve.v Lib/NumOps.vo
Gen/GenObserve.vio: Gen/GenObserve.v Lib/NumOps.vio
Gen/GenObserve.vos Gen/GenObserve.vok Gen/GenObserve.required_vos: Gen/GenObserve.v Lib/NumOps.vos
Gen/GenParams.vo Gen/GenParams.glob Gen/GenParams.v.beautified Gen/GenParams.required_vo: Gen/GenParams.v Lib/NumOps.vo
Gen/GenParams.vio: Gen/GenParams.v Lib/NumOps.vio
Gen/GenParams.vos Gen/GenParams.vok Gen/GenParams.required_vos: Gen/GenParams.v Lib/NumOps.vos
Gen/GenProto.vo Gen/GenProto.glob Gen/GenProto.v.beautified Gen/GenProto.required_vo: Gen/GenProto.v Lib/NumOps.vo
Gen/GenProto.vio: Gen/GenProto.v Lib/NumOps.vio
Gen/GenProto.vos Gen/GenProto.vok Gen/GenProto.required_vos: Gen/GenProto.v Lib/NumOps.vos
Gen/GenStruct.vo Gen/GenStruct.glob Gen/GenStruct.v.beautified Gen/GenStruct.required_vo: Gen/GenStruct.v Lib/NumOps.vo
Gen/GenStruct.vio: Gen/GenStruct.v Lib/NumOps.vio
Gen/GenStruct.vos Gen/GenStruct.vok Gen/GenStruct.required_vos: Gen/GenStruct.v Lib/NumOps.vos
Lib/B64.vo Lib/B64.glob Lib/B64.v.beautified Lib/B64.required_vo: Lib/B64.v Lib/NumOps.vo
Lib/B64.vio: Lib/B64.v Lib/NumOps.vio
Lib/B64.vos Lib/B64.vok Lib/B64.required_vos: Lib/B64.v Lib/NumOps.vos
Lib/NumOps.vo Lib/NumOps.glob Lib/NumOps.v.beautified Lib/NumOps.required_vo: Lib/NumOps.v 
Lib/NumOps.vio: Lib/NumOps.v 
Lib/NumOps.vos Lib/NumOps.vok Lib/NumOps.required_vos: Lib/NumOps.v 
Model/Apply.vo Model/Apply.glob Model/Apply.v.beautified Model/Apply.required_vo: Model/Apply.v Lib/NumOps.vo Gen/GenAsync.vo Gen/GenStruct.vo Model/OrderHist.vo
Model/Apply.vio: Model/Apply.v Lib/NumOps.vio Gen/GenAsync.vio Gen/GenStruct.vio Model/OrderHist.vio
Model/Apply.vos Model/Apply.vok Model/Apply.required_vos: Model/Apply.v Lib/NumOps.vos Gen/GenAsync.vos Gen/GenStruct.vos Model/OrderHist.vos
Model/Chunk.vo Model/Chunk.glob Model/Chunk.v.beautified Model/Chunk.required_vo: Model/Chunk.v Lib/NumOps.vo Gen/GenChunk.vo
Model/Chunk.vio: Model/Chunk.v Lib/NumOps.vio Gen/GenChunk.vio
Model/Chunk.vos Model/Chunk.vok Model/Chunk.required_vos: Model/Chunk.v Lib/NumOps.vos Gen/GenChunk.vos
Model/ChunkCases.vo Model/ChunkCases.glob Model/ChunkCases.v.beautified Model/ChunkCases.required_vo: Model/ChunkCases.v Lib/NumOps.vo Lib/B64.vo Gen/GenChunk.vo Model/Chunk.vo
Model/ChunkCases.vio: Model/ChunkCases.v Lib/NumOps.vio Lib/B64.vio Gen/GenChunk.vio Model/Chunk.vio
Model/ChunkCases.vos Model/ChunkCases.vok Model/ChunkCases.required_vos: Model/ChunkCases.v Lib/NumOps.vos Lib/B64.vos Gen/GenChunk.vos Model/Chunk.vos
Model/Conf.vo Model/Conf.glob Model/Conf.v.beautified Model/Conf.required_vo: Model/Conf.v Lib/NumOps.vo Gen/GenProto.vo Model/Core.vo
Model/Conf.vio: Model/Conf.v Lib/NumOps.vio Gen/GenProto.vio Model/Core.vio
Model/Conf.vos Model/Conf.vok Model/Conf.required_vos: Model/Conf.v Lib/NumOps.vos Gen/GenProto.vos Model/Core.vos
Model/Core.vo Model/Core.glob Model/Core.v.beautified Model/Core.required_vo: Model/Core.v Lib/NumOps.vo Gen/GenProto.vo
Model/Core.vio: Model/Core.v Lib/NumOps.vio Gen/GenProto.vio
Model/Core.vos Model/Core.vok Model/Core.required_vos: Model/Core.v Lib/NumOps.vos Gen/GenProto.vos
Model/Death.vo Model/Death.glob Model/Death.v.beautified Model/Death.required_vo: Model/Death.v Gen/GenStruct.vo
Model/Death.vio: Model/Death.v Gen/GenStruct.vio
Model/Death.vos Model/Death.vok Model/Death.required_vos: Model/Death.v Gen/GenStruct.vos
Model/Fail.vo Model/Fail.glob Model/Fail.v.beautified Model/Fail.required_vo: Model/Fail.v Gen/GenAsync.vo Gen/GenStruct.vo Gen/GenObserve.vo Model/OrderHist.vo Model/Apply.vo
Model/Fail.vio: Model/Fail.v Gen/GenAsync.vio Gen/GenStruct.vio Gen/GenObserve.vio Model/OrderHist.vio Model/Apply.vio
Model/Fail.vos Model/Fail.vok Model/Fail.required_vos: Model/Fail.v Gen/GenAsync.vos Gen/GenStruct.vos Gen/GenObserve.vos Model/OrderHist.vos Model/Apply.vos
Model/FailAux.vo Model/FailAux.glob Model/FailAux.v.beautified Model/FailAux.required_vo: Model/FailAux.v Gen/GenAsync.vo Gen/GenStruct.vo Model/OrderHist.vo Model/Fail.vo
Model/FailAux.vio: Model/FailAux.v Gen/GenAsync.vio Gen/GenStruct.vio Model/OrderHist.vio Model/Fail.vio
Model/FailAux.vos Model/FailAux.vok Model/FailAux.required_vos: Model/FailAux.v Gen/GenAsync.vos Gen/GenStruct.vos Model/OrderHist.vos Model/Fail.vos
Model/Hist.vo Model/Hist.glob Model/Hist.v.beautified Model/Hist.required_vo: Model/Hist.v Gen/GenStruct.vo Gen/GenParams.vo Model/OrderHist.vo
Model/Hist.vio: Model/Hist.v Gen/GenStruct.vio Gen/GenParams.vio Model/OrderHist.vio
Model/Hist.vos Model/Hist.vok Model/Hist.required_vos: Model/Hist.v Gen/GenStruct.vos Gen/GenParams.vos Model/OrderHist.vos
Model/Observe.vo Model/Observe.glob Model/Observe.v.beautified Model/Observe.required_vo: Model/Observe.v Gen/GenObserve.vo Model/OrderHist.vo Model/Core.vo Model/Apply.vo
Model/Observe.vio: Model/Observe.v Gen/GenObserve.vio Model/OrderHist.vio Model/Core.vio Model/Apply.vio
Model/Observe.vos Model/Observe.vok Model/Observe.required_vos: Model/Observe.v Gen/GenObserve.vos Model/OrderHist.vos Model/Core.vos Model/Apply.vos
Model/OrderHist.vo Model/OrderHist.glob Model/OrderHist.v.beautified Model/OrderHist.required_vo: Model/OrderHist.v Gen/GenStruct.vo
Model/OrderHist.vio: Model/OrderHist.v Gen/GenStruct.vio
Model/OrderHist.vos Model/OrderHist.vok Model/OrderHist.required_vos: Model/OrderHist.v Gen/GenStruct.vos
Model/Reorder.vo Model/Reorder.glob Model/Reorder.v.beautified Model/Reorder.required_vo: Model/Reorder.v Gen/GenStruct.vo Model/OrderHist.vo
Model/Reorder.vio: Model/Reorder.v Gen/GenStruct.vio Model/OrderHist.vio
Model/Reorder.vos Model/Reorder.vok Model/Reorder.required_vos: Model/Reorder.v Gen/GenStruct.vos Model/OrderHist.vos
Model/Routes.vo Model/Routes.glob Model/Routes.v.beautified Model/Routes.required_vo: Model/Routes.v Gen/GenStruct.vo Gen/GenObserve.vo Model/OrderHist.vo
Model/Routes.vio: Model/Routes.v Gen/GenStruct.vio Gen/GenObserve.vio Model/OrderHist.vio
Model/Routes.vos Model/Routes.vok Model/Routes.required_vos: Model/Routes.v Gen/GenStruct.vos Gen/GenObserve.vos Model/OrderHist.vos
Model/Signals.vo Model/Signals.glob Model/Signals.v.beautified Model/Signals.required_vo: Model/Signals.v Gen/GenStruct.vo Gen/GenObserve.vo Model/OrderHist.vo Model/Routes.vo
Model/Signals.vio: Model/Signals.v Gen/GenStruct.vio Gen/GenObserve.vio Model/OrderHist.vio Model/Routes.vio
Model/Signals.vos Model/Signals.vok Model/Signals.required_vos: Model/Signals.v Gen/GenStruct.vos Gen/GenObserve.vos Model/OrderHist.vos Model/Routes.vos
Proofs/ApplyProofs.vo Proofs/ApplyProofs.glob Proofs/ApplyProofs.v.beautified Proofs/ApplyProofs.required_vo: Proofs/ApplyProofs.v Lib/NumOps.vo Gen/GenAsync.vo Gen/GenStruct.vo Model/OrderHist.vo Model/Apply.vo
Proofs/ApplyProofs.vio: Proofs/ApplyProofs.v Lib/NumOps.vio Gen/GenAsync.vio Gen/GenStruct.vio Model/OrderHist.vio Model/Apply.vio
Proofs/ApplyProofs.vos Proofs/ApplyProofs.vok Proofs/ApplyProofs.required_vos: Proofs/ApplyProofs.v Lib/NumOps.vos Gen/GenAsync.vos Gen/GenStruct.vos Model/OrderHist.vos Model/Apply.vos
Proofs/ChunkPartition.vo Proofs/ChunkPartition.glob Proofs/ChunkPartition.v.beautified Proofs/ChunkPartition.required_vo: Proofs/ChunkPartition.v Lib/NumOps.vo Gen/GenChunk.vo Model/Chunk.vo Spec/ChunkSpec.vo
Proofs/ChunkPartition.vio: Proofs/ChunkPartition.v Lib/NumOps.vio Gen/GenChunk.vio Model/Chunk.vio Spec/ChunkSpec.vio
Proofs/ChunkPartition.vos Proofs/ChunkPartition.vok Proofs/ChunkPartition.required_vos: Proofs/ChunkPartition.v Lib/NumOps.vos Gen/GenChunk.vos Model/Chunk.vos Spec/ChunkSpec.vos
Proofs/ChunkSizes.vo Proofs/ChunkSizes.glob Proofs/ChunkSizes.v.beautified Proofs/ChunkSizes.required_vo: Proofs/ChunkSizes.v Lib/NumOps.vo Gen/GenChunk.vo Model/Chunk.vo Spec/ChunkSpec.vo Proofs/ChunkPartition.vo
Proofs/ChunkSizes.vio: Proofs/ChunkSizes.v Lib/NumOps.vio Gen/GenChunk.vio Model/Chunk.vio Spec/ChunkSpec.vio Proofs/ChunkPartition.vio
Proofs/ChunkSizes.vos Proofs/ChunkSizes.vok Proofs/ChunkSizes.required_vos: Proofs/ChunkSizes.v Lib/NumOps.vos Gen/GenChunk.vos Model/Chunk.vos Spec/ChunkSpec.vos Proofs/ChunkPartition.vos
Proofs/CoreBound.vo Proofs/CoreBound.glob Proofs/CoreBound.v.beautified Proofs/CoreBound.required_vo: Proofs/CoreBound.v Lib/NumOps.vo Gen/GenProto.vo Model/Core.vo Spec/ProtoSpec.vo Proofs/CoreLemmas.vo
Proofs/CoreBound.vio: Proofs/CoreBound.v Lib/NumOps.vio Gen/GenProto.vio Model/Core.vio Spec/ProtoSpec.vio Proofs/CoreLemmas.vio
Proofs/CoreBound.vos Proofs/CoreBound.vok Proofs/CoreBound.required_vos: Proofs/CoreBound.v Lib/NumOps.vos Gen/GenProto.vos Model/Core.vos Spec/ProtoSpec.vos Proofs/CoreLemmas.vos
Proofs/CoreCons.vo Proofs/CoreCons.glob Proofs/CoreCons.v.beautified Proofs/CoreCons.required_vo: Proofs/CoreCons.v Lib/NumOps.vo Gen/GenProto.vo Model/Core.vo Spec/ProtoSpec.vo
Proofs/CoreCons.vio: Proofs/CoreCons.v Lib/NumOps.vio Gen/GenProto.vio Model/Core.vio Spec/ProtoSpec.vio
Proofs/CoreCons.vos Proofs/CoreCons.vok Proofs/CoreCons.required_vos: Proofs/CoreCons.v Lib/NumOps.vos Gen/GenProto.vos Model/Core.vos Spec/ProtoSpec.vos
Proofs/CoreIdent.vo Proofs/CoreIdent.glob Proofs/CoreIdent.v.beautified Proofs/CoreIdent.required_vo: Proofs/CoreIdent.v Lib/NumOps.vo Gen/GenProto.vo Gen/GenArgs.vo Gen/GenStruct.vo Model/Core.vo Spec/ProtoSpec.vo Proofs/CoreLemmas.vo Proofs/CoreCons.vo Proofs/CoreOrder.vo Proofs/CoreLife.vo Proofs/CoreInit.vo Model/OrderHist.vo
Proofs/CoreIdent.vio: Proofs/CoreIdent.v Lib/NumOps.vio Gen/GenProto.vio Gen/GenArgs.vio Gen/GenStruct.vio Model/Core.vio Spec/ProtoSpec.vio Proofs/CoreLemmas.vio Proofs/CoreCons.vio Proofs/CoreOrder.vio Proofs/CoreLife.vio Proofs/CoreInit.vio Model/OrderHist.vio
Proofs/CoreIdent.vos Proofs/CoreIdent.vok Proofs/CoreIdent.required_vos: Proofs/CoreIdent.v Lib/NumOps.vos Gen/GenProto.vos Gen/GenArgs.vos Gen/GenStruct.vos Model/Core.vos Spec/ProtoSpec.vos Proofs/CoreLemmas.vos Proofs/CoreCons.vos Proofs/CoreOrder.vos Proofs/CoreLife.vos Proofs/CoreInit.vos Model/OrderHist.vos
Proofs/CoreInit.vo Proofs/CoreInit.glob Proofs/CoreInit.v.beautified Proofs/CoreInit.required_vo: Proofs/CoreInit.v Lib/NumOps.vo Gen/GenProto.vo Model/Core.vo Spec/ProtoSpec.vo Proofs/CoreLemmas.vo Proofs/CoreCons.vo Proofs/CoreOrder.vo Proofs/CoreLife.vo
Proofs/CoreInit.vio: Proofs/CoreInit.v Lib/NumOps.vio Gen/GenProto.vio Model/Core.vio Spec/ProtoSpec.vio Proofs/CoreLemmas.vio Proofs/CoreCons.vio Proofs/CoreOrder.vio Proofs/CoreLife.vio
Proofs/CoreInit.vos Proofs/CoreInit.vok Proofs/CoreInit.required_vos: Proofs/CoreInit.v Lib/NumOps.vos Gen/GenProto.vos Model/Core.vos Spec/ProtoSpec.vos Proofs/CoreLemmas.vos Proofs/CoreCons.vos Proofs/CoreOrder.vos Proofs/CoreLife.vos
Proofs/CoreInv.vo Proofs/CoreInv.glob Proofs/CoreInv.v.beautified Proofs/CoreInv.required_vo: Proofs/CoreInv.v Lib/NumOps.vo Gen/GenProto.vo Model/Core.vo Spec/ProtoSpec.vo Proofs/CoreLemmas.vo Proofs/CoreCons.vo Proofs/CoreOrder.vo Proofs/CoreLife.vo
Proofs/CoreInv.vio: Proofs/CoreInv.v Lib/NumOps.vio Gen/GenProto.vio Model/Core.vio Spec/ProtoSpec.vio Proofs/CoreLemmas.vio Proofs/CoreCons.vio Proofs/CoreOrder.vio Proofs/CoreLife.vio
Proofs/CoreInv.vos Proofs/CoreInv.vok Proofs/CoreInv.required_vos: Proofs/CoreInv.v Lib/NumOps.vos Gen/GenProto.vos Model/Core.vos Spec/ProtoSpec.vos Proofs/CoreLemmas.vos Proofs/CoreCons.vos Proofs/CoreOrder.vos Proofs/CoreLife.vos
Proofs/CoreLemmas.vo Proofs/CoreLemmas.glob Proofs/CoreLemmas.v.beautified Proofs/CoreLemmas.required_vo: Proofs/CoreLemmas.v Lib/NumOps.vo Gen/GenProto.vo Model/Core.vo Spec/ProtoSpec.vo
Proofs/CoreLemmas.vio: Proofs/CoreLemmas.v Lib/NumOps.vio Gen/GenProto.vio Model/Core.vio Spec/ProtoSpec.vio
Proofs/CoreLemmas.vos Proofs/CoreLemmas.vok Proofs/CoreLemmas.required_vos: Proofs/CoreLemmas.v Lib/NumOps.vos Gen/GenProto.vos Model/Core.vos Spec/ProtoSpec.vos
Proofs/CoreLife.vo Proofs/CoreLife.glob Proofs/CoreLife.v.beautified Proofs/CoreLife.required_vo: Proofs/CoreLife.v Lib/NumOps.vo Gen/GenProto.vo Model/Core.vo Spec/ProtoSpec.vo Proofs/CoreLemmas.vo Proofs/CoreCons.vo Proofs/CoreOrder.vo
Proofs/CoreLife.vio: Proofs/CoreLife.v Lib/NumOps.vio Gen/GenProto.vio Model/Core.vio Spec/ProtoSpec.vio Proofs/CoreLemmas.vio Proofs/CoreCons.vio Proofs/CoreOrder.vio
Proofs/CoreLife.vos Proofs/CoreLife.vok Proofs/CoreLife.required_vos: Proofs/CoreLife.v Lib/NumOps.vos Gen/GenProto.vos Model/Core.vos Spec/ProtoSpec.vos Proofs/CoreLemmas.vos Proofs/CoreCons.vos Proofs/CoreOrder.vos
Proofs/CoreMeasure.vo Proofs/CoreMeasure.glob Proofs/CoreMeasure.v.beautified Proofs/CoreMeasure.required_vo: Proofs/CoreMeasure.v Lib/NumOps.vo Gen/GenProto.vo Model/Core.vo Spec/ProtoSpec.vo Proofs/CoreLemmas.vo Proofs/CoreCons.vo Proofs/CoreOrder.vo Proofs/CoreLife.vo Proofs/CoreInv.vo Proofs/CoreInit.vo Proofs/CoreProgress.vo
Proofs/CoreMeasure.vio: Proofs/CoreMeasure.v Lib/NumOps.vio Gen/GenProto.vio Model/Core.vio Spec/ProtoSpec.vio Proofs/CoreLemmas.vio Proofs/CoreCons.vio Proofs/CoreOrder.vio Proofs/CoreLife.vio Proofs/CoreInv.vio Proofs/CoreInit.vio Proofs/CoreProgress.vio
Proofs/CoreMeasure.vos Proofs/CoreMeasure.vok Proofs/CoreMeasure.required_vos: Proofs/CoreMeasure.v Lib/NumOps.vos Gen/GenProto.vos Model/Core.vos Spec/ProtoSpec.vos Proofs/CoreLemmas.vos Proofs/CoreCons.vos Proofs/CoreOrder.vos Proofs/CoreLife.vos Proofs/CoreInv.vos Proofs/CoreInit.vos Proofs/CoreProgress.vos
Proofs/CoreOrder.vo Proofs/CoreOrder.glob Proofs/CoreOrder.v.beautified Proofs/CoreOrder.required_vo: Proofs/CoreOrder.v Lib/NumOps.vo Gen/GenProto.vo Model/Core.vo Spec/ProtoSpec.vo Proofs/CoreLemmas.vo Proofs/CoreCons.vo
Proofs/CoreOrder.vio: Proofs/CoreOrder.v Lib/NumOps.vio Gen/GenProto.vio Model/Core.vio Spec/ProtoSpec.vio Proofs/CoreLemmas.vio Proofs/CoreCons.vio
Proofs/CoreOrder.vos Proofs/CoreOrder.vok Proofs/CoreOrder.required_vos: Proofs/CoreOrder.v Lib/NumOps.vos Gen/GenProto.vos Model/Core.vos Spec/ProtoSpec.vos Proofs/CoreLemmas.vos Proofs/CoreCons.vos
Proofs/CoreProgress.vo Proofs/CoreProgress.glob Proofs/CoreProgress.v.beautified Proofs/CoreProgress.required_vo: Proofs/CoreProgress.v Lib/NumOps.vo Gen/GenProto.vo Model/Core.vo Spec/ProtoSpec.vo Proofs/CoreLemmas.vo Proofs/CoreCons.vo Proofs/CoreOrder.vo Proofs/CoreLife.vo Proofs/CoreInv.vo
Proofs/CoreProgress.vio: Proofs/CoreProgress.v Lib/NumOps.vio Gen/GenProto.vio Model/Core.vio Spec/ProtoSpec.vio Proofs/CoreLemmas.vio Proofs/CoreCons.vio Proofs/CoreOrder.vio Proofs/CoreLife.vio Proofs/CoreInv.vio
Proofs/CoreProgress.vos Proofs/CoreProgress.vok Proofs/CoreProgress.required_vos: Proofs/CoreProgress.v Lib/NumOps.vos Gen/GenProto.vos Model/Core.vos Spec/ProtoSpec.vos Proofs/CoreLemmas.vos Proofs/CoreCons.vos Proofs/CoreOrder.vos Proofs/CoreLife.vos Proofs/CoreInv.vos
Proofs/CoreResult.vo Proofs/CoreResult.glob Proofs/CoreResult.v.beautified Proofs/CoreResult.required_vo: Proofs/CoreResult.v Lib/NumOps.vo Gen/GenProto.vo Model/Core.vo Spec/ProtoSpec.vo Proofs/CoreCons.vo
Proofs/CoreResult.vio: Proofs/CoreResult.v Lib/NumOps.vio Gen/GenProto.vio Model/Core.vio Spec/ProtoSpec.vio Proofs/CoreCons.vio
Proofs/CoreResult.vos Proofs/CoreResult.vok Proofs/CoreResult.required_vos: Proofs/CoreResult.v Lib/NumOps.vos Gen/GenProto.vos Model/Core.vos Spec/ProtoSpec.vos Proofs/CoreCons.vos
Proofs/DeathProofs.vo Proofs/DeathProofs.glob Proofs/DeathProofs.v.beautified Proofs/DeathProofs.required_vo: Proofs/DeathProofs.v Gen/GenStruct.vo Model/Death.vo
Proofs/DeathProofs.vio: Proofs/DeathProofs.v Gen/GenStruct.vio Model/Death.vio
Proofs/DeathProofs.vos Proofs/DeathProofs.vok Proofs/DeathProofs.required_vos: Proofs/DeathProofs.v Gen/GenStruct.vos Model/Death.vos
Proofs/FailAuxProofs.vo Proofs/FailAuxProofs.glob Proofs/FailAuxProofs.v.beautified Proofs/FailAuxProofs.required_vo: Proofs/FailAuxProofs.v Gen/GenAsync.vo Gen/GenStruct.vo Model/OrderHist.vo Model/Fail.vo Model/FailAux.vo
Proofs/FailAuxProofs.vio: Proofs/FailAuxProofs.v Gen/GenAsync.vio Gen/GenStruct.vio Model/OrderHist.vio Model/Fail.vio Model/FailAux.vio
Proofs/FailAuxProofs.vos Proofs/FailAuxProofs.vok Proofs/FailAuxProofs.required_vos: Proofs/FailAuxProofs.v Gen/GenAsync.vos Gen/GenStruct.vos Model/OrderHist.vos Model/Fail.vos Model/FailAux.vos
Proofs/FailProofs.vo Proofs/FailProofs.glob Proofs/FailProofs.v.beautified Proofs/FailProofs.required_vo: Proofs/FailProofs.v Gen/GenAsync.vo Gen/GenStruct.vo Gen/GenObserve.vo Model/OrderHist.vo Model/Apply.vo Proofs/ApplyProofs.vo Model/Fail.vo
Proofs/FailProofs.vio: Proofs/FailProofs.v Gen/GenAsync.vio Gen/GenStruct.vio Gen/GenObserve.vio Model/OrderHist.vio Model/Apply.vio Proofs/ApplyProofs.vio Model/Fail.vio
Proofs/FailProofs.vos Proofs/FailProofs.vok Proofs/FailProofs.required_vos: Proofs/FailProofs.v Gen/GenAsync.vos Gen/GenStruct.vos Gen/GenObserve.vos Model/OrderHist.vos Model/Apply.vos Proofs/ApplyProofs.vos Model/Fail.vos
Proofs/HistProofs.vo Proofs/HistProofs.glob Proofs/HistProofs.v.beautified Proofs/HistProofs.required_vo: Proofs/HistProofs.v Gen/GenStruct.vo Gen/GenParams.vo Model/OrderHist.vo Model/Hist.vo
Proofs/HistProofs.vio: Proofs/HistProofs.v Gen/GenStruct.vio Gen/GenParams.vio Model/OrderHist.vio Model/Hist.vio
Proofs/HistProofs.vos Proofs/HistProofs.vok Proofs/HistProofs.required_vos: Proofs/HistProofs.v Gen/GenStruct.vos Gen/GenParams.vos Model/OrderHist.vos Model/Hist.vos
Proofs/ObserveProofs.vo Proofs/ObserveProofs.glob Proofs/ObserveProofs.v.beautified Proofs/ObserveProofs.required_vo: Proofs/ObserveProofs.v Gen/GenObserve.vo Model/OrderHist.vo Lib/NumOps.vo Gen/GenProto.vo Model/Core.vo Spec/ProtoSpec.vo Proofs/CoreLemmas.vo Proofs/CoreCons.vo Proofs/CoreResult.vo Proofs/CoreIdent.vo Model/Apply.vo Proofs/ApplyProofs.vo Model/Observe.vo
Proofs/ObserveProofs.vio: Proofs/ObserveProofs.v Gen/GenObserve.vio Model/OrderHist.vio Lib/NumOps.vio Gen/GenProto.vio Model/Core.vio Spec/ProtoSpec.vio Proofs/CoreLemmas.vio Proofs/CoreCons.vio Proofs/CoreResult.vio Proofs/CoreIdent.vio Model/Apply.vio Proofs/ApplyProofs.vio Model/Observe.vio
Proofs/ObserveProofs.vos Proofs/ObserveProofs.vok Proofs/ObserveProofs.required_vos: Proofs/ObserveProofs.v Gen/GenObserve.vos Model/OrderHist.vos Lib/NumOps.vos Gen/GenProto.vos Model/Core.vos Spec/ProtoSpec.vos Proofs/CoreLemmas.vos Proofs/CoreCons.vos Proofs/CoreResult.vos Proofs/CoreIdent.vos Model/Apply.vos Proofs/ApplyProofs.vos Model/Observe.vos
Proofs/OrderHistProofs.vo Proofs/OrderHistProofs.glob Proofs/OrderHistProofs.v.beautified Proofs/OrderHistProofs.required_vo: Proofs/OrderHistProofs.v Gen/GenStruct.vo Model/OrderHist.vo
Proofs/OrderHistProofs.vio: Proofs/OrderHistProofs.v Gen/GenStruct.vio Model/OrderHist.vio
Proofs/OrderHistProofs.vos Proofs/OrderHistProofs.vok Proofs/OrderHistProofs.required_vos: Proofs/OrderHistProofs.v Gen/GenStruct.vos Model/OrderHist.vos
Proofs/ReorderProofs.vo Proofs/ReorderProofs.glob Proofs/ReorderProofs.v.beautified Proofs/ReorderProofs.required_vo: Proofs/ReorderProofs.v Gen/GenStruct.vo Model/OrderHist.vo Model/Reorder.vo
Proofs/ReorderProofs.vio: Proofs/ReorderProofs.v Gen/GenStruct.vio Model/OrderHist.vio Model/Reorder.vio
Proofs/ReorderProofs.vos Proofs/ReorderProofs.vok Proofs/ReorderProofs.required_vos: Proofs/ReorderProofs.v Gen/GenStruct.vos Model/OrderHist.vos Model/Reorder.vos
Proofs/RouteProofs.vo Proofs/RouteProofs.glob Proofs/RouteProofs.v.beautified Proofs/RouteProofs.required_vo: Proofs/RouteProofs.v Gen/GenStruct.vo Gen/GenObserve.vo Model/OrderHist.vo Model/Routes.vo
Proofs/RouteProofs.vio: Proofs/RouteProofs.v Gen/GenStruct.vio Gen/GenObserve.vio Model/OrderHist.vio Model/Routes.vio
Proofs/RouteProofs.vos Proofs/RouteProofs.vok Proofs/RouteProofs.required_vos: Proofs/RouteProofs.v Gen/GenStruct.vos Gen/GenObserve.vos Model/OrderHist.vos Model/Routes.vos
Proofs/SignalProofs.vo Proofs/SignalProofs.glob Proofs/SignalProofs.v.beautified Proofs/SignalProofs.required_vo: Proofs/SignalProofs.v Gen/GenStruct.vo Gen/GenObserve.vo Model/OrderHist.vo Model/Routes.vo Proofs/RouteProofs.vo Model/Signals.vo
Proofs/SignalProofs.vio: Proofs/SignalProofs.v Gen/GenStruct.vio Gen/GenObserve.vio Model/OrderHist.vio Model/Routes.vio Proofs/RouteProofs.vio Model/Signals.vio
Proofs/SignalProofs.vos Proofs/SignalProofs.vok Proofs/SignalProofs.required_vos: Proofs/SignalProofs.v Gen/GenStruct.vos Gen/GenObserve.vos Model/OrderHist.vos Model/Routes.vos Proofs/RouteProofs.vos Model/Signals.vos
Proofs/SortRecovers.vo Proofs/SortRecovers.glob Proofs/SortRecovers.v.beautified Proofs/SortRecovers.required_vo: Proofs/SortRecovers.v 
Proofs/SortRecovers.vio: Proofs/SortRecovers.v 
Proofs/SortRecovers.vos Proofs/SortRecovers.vok Proofs/SortRecovers.required_vos: Proofs/SortRecovers.v 
Props/C01.vo Props/C01.glob Props/C01.v.beautified Props/C01.required_vo: Props/C01.v Lib/NumOps.vo Gen/GenChunk.vo Model/Chunk.vo Proofs/ChunkPartition.vo Gen/GenProto.vo Model/Core.vo Spec/ProtoSpec.vo Proofs/CoreCons.vo Proofs/CoreResult.vo Proofs/SortRecovers.vo Gen/GenStruct.vo Model/Reorder.vo Proofs/ReorderProofs.vo Gen/GenParams.vo Model/OrderHist.vo Model/Hist.vo Proofs/HistProofs.vo
Props/C01.vio: Props/C01.v Lib/NumOps.vio Gen/GenChunk.vio Model/Chunk.vio Proofs/ChunkPartition.vio Gen/GenProto.vio Model/Core.vio Spec/ProtoSpec.vio Proofs/CoreCons.vio Proofs/CoreResult.vio Proofs/SortRecovers.vio Gen/GenStruct.vio Model/Reorder.vio Proofs/ReorderProofs.vio Gen/GenParams.vio Model/OrderHist.vio Model/Hist.vio Proofs/HistProofs.vio
Props/C01.vos Props/C01.vok Props/C01.required_vos: Props/C01.v Lib/NumOps.vos Gen/GenChunk.vos Model/Chunk.vos Proofs/ChunkPartition.vos Gen/GenProto.vos Model/Core.vos Spec/ProtoSpec.vos Proofs/CoreCons.vos Proofs/CoreResult.vos Proofs/SortRecovers.vos Gen/GenStruct.vos Model/Reorder.vos Proofs/ReorderProofs.vos Gen/GenParams.vos Model/OrderHist.vos Model/Hist.vos Proofs/HistProofs.vos
Props/C02.vo Props/C02.glob Props/C02.v.beautified Props/C02.required_vo: Props/C02.v Lib/NumOps.vo Gen/GenProto.vo Model/Core.vo Spec/ProtoSpec.vo Proofs/CoreCons.vo Proofs/CoreResult.vo Gen/GenStruct.vo Gen/GenParams.vo Model/OrderHist.vo Model/Hist.vo Proofs/HistProofs.vo
Props/C02.vio: Props/C02.v Lib/NumOps.vio Gen/GenProto.vio Model/Core.vio Spec/ProtoSpec.vio Proofs/CoreCons.vio Proofs/CoreResult.vio Gen/GenStruct.vio Gen/GenParams.vio Model/OrderHist.vio Model/Hist.vio Proofs/HistProofs.vio
Props/C02.vos Props/C02.vok Props/C02.required_vos: Props/C02.v Lib/NumOps.vos Gen/GenProto.vos Model/Core.vos Spec/ProtoSpec.vos Proofs/CoreCons.vos Proofs/CoreResult.vos Gen/GenStruct.vos Gen/GenParams.vos Model/OrderHist.vos Model/Hist.vos Proofs/HistProofs.vos
Props/C03.vo Props/C03.glob Props/C03.v.beautified Props/C03.required_vo: Props/C03.v Lib/NumOps.vo Gen/GenProto.vo Model/Core.vo Spec/ProtoSpec.vo Proofs/CoreInv.vo Proofs/CoreInit.vo Proofs/CoreProgress.vo Proofs/CoreMeasure.vo Gen/GenAsync.vo Gen/GenStruct.vo Gen/GenObserve.vo Model/OrderHist.vo Model/Apply.vo Model/Fail.vo Proofs/FailProofs.vo
Props/C03.vio: Props/C03.v Lib/NumOps.vio Gen/GenProto.vio Model/Core.vio Spec/ProtoSpec.vio Proofs/CoreInv.vio Proofs/CoreInit.vio Proofs/CoreProgress.vio Proofs/CoreMeasure.vio Gen/GenAsync.vio Gen/GenStruct.vio Gen/GenObserve.vio Model/OrderHist.vio Model/Apply.vio Model/Fail.vio Proofs/FailProofs.vio
Props/C03.vos Props/C03.vok Props/C03.required_vos: Props/C03.v Lib/NumOps.vos Gen/GenProto.vos Model/Core.vos Spec/ProtoSpec.vos Proofs/CoreInv.vos Proofs/CoreInit.vos Proofs/CoreProgress.vos Proofs/CoreMeasure.vos Gen/GenAsync.vos Gen/GenStruct.vos Gen/GenObserve.vos Model/OrderHist.vos Model/Apply.vos Model/Fail.vos Proofs/FailProofs.vos
Props/C04.vo Props/C04.glob Props/C04.v.beautified Props/C04.required_vo: Props/C04.v Gen/GenAsync.vo Gen/GenStruct.vo Model/OrderHist.vo Model/Apply.vo Model/Fail.vo Proofs/FailProofs.vo Model/FailAux.vo Proofs/FailAuxProofs.vo
Props/C04.vio: Props/C04.v Gen/GenAsync.vio Gen/GenStruct.vio Model/OrderHist.vio Model/Apply.vio Model/Fail.vio Proofs/FailProofs.vio Model/FailAux.vio Proofs/FailAuxProofs.vio
Props/C04.vos Props/C04.vok Props/C04.required_vos: Props/C04.v Gen/GenAsync.vos Gen/GenStruct.vos Model/OrderHist.vos Model/Apply.vos Model/Fail.vos Proofs/FailProofs.vos Model/FailAux.vos Proofs/FailAuxProofs.vos
Props/C05.vo Props/C05.glob Props/C05.v.beautified Props/C05.required_vo: Props/C05.v Gen/GenObserve.vo Model/Signals.vo Proofs/SignalProofs.vo Model/Routes.vo Proofs/RouteProofs.vo
Props/C05.vio: Props/C05.v Gen/GenObserve.vio Model/Signals.vio Proofs/SignalProofs.vio Model/Routes.vio Proofs/RouteProofs.vio
Props/C05.vos Props/C05.vok Props/C05.required_vos: Props/C05.v Gen/GenObserve.vos Model/Signals.vos Proofs/SignalProofs.vos Model/Routes.vos Proofs/RouteProofs.vos
Props/C06.vo Props/C06.glob Props/C06.v.beautified Props/C06.required_vo: Props/C06.v Gen/GenStruct.vo Gen/GenParams.vo Model/OrderHist.vo Model/Hist.vo Proofs/HistProofs.vo
Props/C06.vio: Props/C06.v Gen/GenStruct.vio Gen/GenParams.vio Model/OrderHist.vio Model/Hist.vio Proofs/HistProofs.vio
Props/C06.vos Props/C06.vok Props/C06.required_vos: Props/C06.v Gen/GenStruct.vos Gen/GenParams.vos Model/OrderHist.vos Model/Hist.vos Proofs/HistProofs.vos
Props/C07.vo Props/C07.glob Props/C07.v.beautified Props/C07.required_vo: Props/C07.v Gen/GenAsync.vo Gen/GenStruct.vo Model/OrderHist.vo Model/Apply.vo Proofs/ApplyProofs.vo Model/Fail.vo Proofs/FailProofs.vo
Props/C07.vio: Props/C07.v Gen/GenAsync.vio Gen/GenStruct.vio Model/OrderHist.vio Model/Apply.vio Proofs/ApplyProofs.vio Model/Fail.vio Proofs/FailProofs.vio
Props/C07.vos Props/C07.vok Props/C07.required_vos: Props/C07.v Gen/GenAsync.vos Gen/GenStruct.vos Model/OrderHist.vos Model/Apply.vos Proofs/ApplyProofs.vos Model/Fail.vos Proofs/FailProofs.vos
Props/C08.vo Props/C08.glob Props/C08.v.beautified Props/C08.required_vo: Props/C08.v Gen/GenAsync.vo Gen/GenStruct.vo Model/OrderHist.vo Model/Apply.vo Proofs/ApplyProofs.vo Model/Fail.vo Proofs/FailProofs.vo Model/FailAux.vo Proofs/FailAuxProofs.vo Gen/GenParams.vo Model/Hist.vo Proofs/HistProofs.vo
Props/C08.vio: Props/C08.v Gen/GenAsync.vio Gen/GenStruct.vio Model/OrderHist.vio Model/Apply.vio Proofs/ApplyProofs.vio Model/Fail.vio Proofs/FailProofs.vio Model/FailAux.vio Proofs/FailAuxProofs.vio Gen/GenParams.vio Model/Hist.vio Proofs/HistProofs.vio
Props/C08.vos Props/C08.vok Props/C08.required_vos: Props/C08.v Gen/GenAsync.vos Gen/GenStruct.vos Model/OrderHist.vos Model/Apply.vos Proofs/ApplyProofs.vos Model/Fail.vos Proofs/FailProofs.vos Model/FailAux.vos Proofs/FailAuxProofs.vos Gen/GenParams.vos Model/Hist.vos Proofs/HistProofs.vos
Props/C09.vo Props/C09.glob Props/C09.v.beautified Props/C09.required_vo: Props/C09.v Lib/NumOps.vo Gen/GenAsync.vo Gen/GenStruct.vo Model/Apply.vo Proofs/ApplyProofs.vo
Props/C09.vio: Props/C09.v Lib/NumOps.vio Gen/GenAsync.vio Gen/GenStruct.vio Model/Apply.vio Proofs/ApplyProofs.vio
Props/C09.vos Props/C09.vok Props/C09.required_vos: Props/C09.v Lib/NumOps.vos Gen/GenAsync.vos Gen/GenStruct.vos Model/Apply.vos Proofs/ApplyProofs.vos
Props/C10.vo Props/C10.glob Props/C10.v.beautified Props/C10.required_vo: Props/C10.v Gen/GenStruct.vo Gen/GenParams.vo Model/OrderHist.vo Model/Hist.vo Proofs/HistProofs.vo
Props/C10.vio: Props/C10.v Gen/GenStruct.vio Gen/GenParams.vio Model/OrderHist.vio Model/Hist.vio Proofs/HistProofs.vio
Props/C10.vos Props/C10.vok Props/C10.required_vos: Props/C10.v Gen/GenStruct.vos Gen/GenParams.vos Model/OrderHist.vos Model/Hist.vos Proofs/HistProofs.vos
Props/C11.vo Props/C11.glob Props/C11.v.beautified Props/C11.required_vo: Props/C11.v Lib/NumOps.vo Gen/GenProto.vo Model/Core.vo Spec/ProtoSpec.vo Proofs/CoreInit.vo Gen/GenStruct.vo Gen/GenParams.vo Model/OrderHist.vo Model/Hist.vo Proofs/HistProofs.vo Gen/GenAsync.vo Model/FailAux.vo Proofs/FailAuxProofs.vo
Props/C11.vio: Props/C11.v Lib/NumOps.vio Gen/GenProto.vio Model/Core.vio Spec/ProtoSpec.vio Proofs/CoreInit.vio Gen/GenStruct.vio Gen/GenParams.vio Model/OrderHist.vio Model/Hist.vio Proofs/HistProofs.vio Gen/GenAsync.vio Model/FailAux.vio Proofs/FailAuxProofs.vio
Props/C11.vos Props/C11.vok Props/C11.required_vos: Props/C11.v Lib/NumOps.vos Gen/GenProto.vos Model/Core.vos Spec/ProtoSpec.vos Proofs/CoreInit.vos Gen/GenStruct.vos Gen/GenParams.vos Model/OrderHist.vos Model/Hist.vos Proofs/HistProofs.vos Gen/GenAsync.vos Model/FailAux.vos Proofs/FailAuxProofs.vos
Props/C12.vo Props/C12.glob Props/C12.v.beautified Props/C12.required_vo: Props/C12.v Lib/NumOps.vo Gen/GenProto.vo Gen/GenStruct.vo Model/Core.vo Spec/ProtoSpec.vo Proofs/CoreCons.vo Proofs/CoreResult.vo Proofs/CoreLife.vo Model/Death.vo Proofs/DeathProofs.vo Gen/GenParams.vo Model/OrderHist.vo Model/Hist.vo Proofs/HistProofs.vo Gen/GenAsync.vo Model/FailAux.vo Proofs/FailAuxProofs.vo
Props/C12.vio: Props/C12.v Lib/NumOps.vio Gen/GenProto.vio Gen/GenStruct.vio Model/Core.vio Spec/ProtoSpec.vio Proofs/CoreCons.vio Proofs/CoreResult.vio Proofs/CoreLife.vio Model/Death.vio Proofs/DeathProofs.vio Gen/GenParams.vio Model/OrderHist.vio Model/Hist.vio Proofs/HistProofs.vio Gen/GenAsync.vio Model/FailAux.vio Proofs/FailAuxProofs.vio
Props/C12.vos Props/C12.vok Props/C12.required_vos: Props/C12.v Lib/NumOps.vos Gen/GenProto.vos Gen/GenStruct.vos Model/Core.vos Spec/ProtoSpec.vos Proofs/CoreCons.vos Proofs/CoreResult.vos Proofs/CoreLife.vos Model/Death.vos Proofs/DeathProofs.vos Gen/GenParams.vos Model/OrderHist.vos Model/Hist.vos Proofs/HistProofs.vos Gen/GenAsync.vos Model/FailAux.vos Proofs/FailAuxProofs.vos
Props/C13.vo Props/C13.glob Props/C13.v.beautified Props/C13.required_vo: Props/C13.v Lib/NumOps.vo Gen/GenProto.vo Gen/GenArgs.vo Gen/GenStruct.vo Model/Core.vo Spec/ProtoSpec.vo Proofs/CoreIdent.vo Proofs/CoreLife.vo Gen/GenParams.vo Model/OrderHist.vo Model/Hist.vo Proofs/HistProofs.vo
Props/C13.vio: Props/C13.v Lib/NumOps.vio Gen/GenProto.vio Gen/GenArgs.vio Gen/GenStruct.vio Model/Core.vio Spec/ProtoSpec.vio Proofs/CoreIdent.vio Proofs/CoreLife.vio Gen/GenParams.vio Model/OrderHist.vio Model/Hist.vio Proofs/HistProofs.vio
Props/C13.vos Props/C13.vok Props/C13.required_vos: Props/C13.v Lib/NumOps.vos Gen/GenProto.vos Gen/GenArgs.vos Gen/GenStruct.vos Model/Core.vos Spec/ProtoSpec.vos Proofs/CoreIdent.vos Proofs/CoreLife.vos Gen/GenParams.vos Model/OrderHist.vos Model/Hist.vos Proofs/HistProofs.vos
Props/C14.vo Props/C14.glob Props/C14.v.beautified Props/C14.required_vo: Props/C14.v Lib/NumOps.vo Gen/GenChunk.vo Model/Chunk.vo Spec/ChunkSpec.vo Proofs/ChunkPartition.vo Proofs/ChunkSizes.vo Gen/GenParams.vo
Props/C14.vio: Props/C14.v Lib/NumOps.vio Gen/GenChunk.vio Model/Chunk.vio Spec/ChunkSpec.vio Proofs/ChunkPartition.vio Proofs/ChunkSizes.vio Gen/GenParams.vio
Props/C14.vos Props/C14.vok Props/C14.required_vos: Props/C14.v Lib/NumOps.vos Gen/GenChunk.vos Model/Chunk.vos Spec/ChunkSpec.vos Proofs/ChunkPartition.vos Proofs/ChunkSizes.vos Gen/GenParams.vos
Props/C15.vo Props/C15.glob Props/C15.v.beautified Props/C15.required_vo: Props/C15.v Lib/NumOps.vo Gen/GenProto.vo Gen/GenParams.vo Model/Core.vo Spec/ProtoSpec.vo Proofs/CoreBound.vo Gen/GenChunk.vo Model/Chunk.vo Spec/ChunkSpec.vo Proofs/ChunkPartition.vo
Props/C15.vio: Props/C15.v Lib/NumOps.vio Gen/GenProto.vio Gen/GenParams.vio Model/Core.vio Spec/ProtoSpec.vio Proofs/CoreBound.vio Gen/GenChunk.vio Model/Chunk.vio Spec/ChunkSpec.vio Proofs/ChunkPartition.vio
Props/C15.vos Props/C15.vok Props/C15.required_vos: Props/C15.v Lib/NumOps.vos Gen/GenProto.vos Gen/GenParams.vos Model/Core.vos Spec/ProtoSpec.vos Proofs/CoreBound.vos Gen/GenChunk.vos Model/Chunk.vos Spec/ChunkSpec.vos Proofs/ChunkPartition.vos
Props/C16.vo Props/C16.glob Props/C16.v.beautified Props/C16.required_vo: Props/C16.v Lib/NumOps.vo Gen/GenProto.vo Gen/GenStruct.vo Model/Core.vo Spec/ProtoSpec.vo Proofs/CoreOrder.vo Model/OrderHist.vo Proofs/OrderHistProofs.vo
Props/C16.vio: Props/C16.v Lib/NumOps.vio Gen/GenProto.vio Gen/GenStruct.vio Model/Core.vio Spec/ProtoSpec.vio Proofs/CoreOrder.vio Model/OrderHist.vio Proofs/OrderHistProofs.vio
Props/C16.vos Props/C16.vok Props/C16.required_vos: Props/C16.v Lib/NumOps.vos Gen/GenProto.vos Gen/GenStruct.vos Model/Core.vos Spec/ProtoSpec.vos Proofs/CoreOrder.vos Model/OrderHist.vos Proofs/OrderHistProofs.vos
Props/C17.vo Props/C17.glob Props/C17.v.beautified Props/C17.required_vo: Props/C17.v Gen/GenObserve.vo Gen/GenAsync.vo Gen/GenStruct.vo Model/OrderHist.vo Model/Apply.vo Model/Fail.vo Proofs/FailProofs.vo Model/Signals.vo Proofs/SignalProofs.vo Model/Routes.vo Proofs/RouteProofs.vo
Props/C17.vio: Props/C17.v Gen/GenObserve.vio Gen/GenAsync.vio Gen/GenStruct.vio Model/OrderHist.vio Model/Apply.vio Model/Fail.vio Proofs/FailProofs.vio Model/Signals.vio Proofs/SignalProofs.vio Model/Routes.vio Proofs/RouteProofs.vio
Props/C17.vos Props/C17.vok Props/C17.required_vos: Props/C17.v Gen/GenObserve.vos Gen/GenAsync.vos Gen/GenStruct.vos Model/OrderHist.vos Model/Apply.vos Model/Fail.vos Proofs/FailProofs.vos Model/Signals.vos Proofs/SignalProofs.vos Model/Routes.vos Proofs/RouteProofs.vos
Props/C18.vo Props/C18.glob Props/C18.v.beautified Props/C18.required_vo: Props/C18.v Gen/GenObserve.vo Lib/NumOps.vo Gen/GenProto.vo Model/Core.vo Spec/ProtoSpec.vo Proofs/CoreCons.vo Proofs/CoreResult.vo Model/Observe.vo Proofs/ObserveProofs.vo
Props/C18.vio: Props/C18.v Gen/GenObserve.vio Lib/NumOps.vio Gen/GenProto.vio Model/Core.vio Spec/ProtoSpec.vio Proofs/CoreCons.vio Proofs/CoreResult.vio Model/Observe.vio Proofs/ObserveProofs.vio
Props/C18.vos Props/C18.vok Props/C18.required_vos: Props/C18.v Gen/GenObserve.vos Lib/NumOps.vos Gen/GenProto.vos Model/Core.vos Spec/ProtoSpec.vos Proofs/CoreCons.vos Proofs/CoreResult.vos Model/Observe.vos Proofs/ObserveProofs.vos
Props/C19.vo Props/C19.glob Props/C19.v.beautified Props/C19.required_vo: Props/C19.v Gen/GenObserve.vo Model/Observe.vo Proofs/ObserveProofs.vo
Props/C19.vio: Props/C19.v Gen/GenObserve.vio Model/Observe.vio Proofs/ObserveProofs.vio
Props/C19.vos Props/C19.vok Props/C19.required_vos: Props/C19.v Gen/GenObserve.vos Model/Observe.vos Proofs/ObserveProofs.vos
Spec/ChunkSpec.vo Spec/ChunkSpec.glob Spec/ChunkSpec.v.beautified Spec/ChunkSpec.required_vo: Spec/ChunkSpec.v Lib/NumOps.vo Gen/GenChunk.vo Model/Chunk.vo
Spec/ChunkSpec.vio: Spec/ChunkSpec.v Lib/NumOps.vio Gen/GenChunk.vio Model/Chunk.vio
Spec/ChunkSpec.vos Spec/ChunkSpec.vok Spec/ChunkSpec.required_vos: Spec/ChunkSpec.v Lib/NumOps.vos Gen/GenChunk.vos Model/Chunk.vos
Spec/ProtoSpec.vo Spec/ProtoSpec.glob Spec/ProtoSpec.v.beautified Spec/ProtoSpec.required_vo: Spec/ProtoSpec.v Lib/NumOps.vo Gen/GenProto.vo Model/Core.vo
Spec/ProtoSpec.vio: Spec/ProtoSpec.v Lib/NumOps.vio Gen/GenProto.vio Model/Core.vio
Spec/ProtoSpec.vos Spec/ProtoSpec.vok Spec/ProtoSpec.required_vos: Spec/ProtoSpec.v Lib/NumOps.vos Gen/GenProto.vos Model/Core.vos

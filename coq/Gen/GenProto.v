(* GENERATION FAILED for group GenProto: free name 'worker_lifespan' is not declared for this kernel *)
Definition generation_failed_GenProto : unit := tt.

(* Lib/B64.v -- IEEE-754 binary64 (Python float) as a numops instance, computed bit-exactly
   inside Coq by Flocq.  Used for the correspondence check of the chunker on float chunk sizes
   and for the statement of the binary64 theorems. *)
From Coq Require Import ZArith List Bool.
From Flocq Require Import Core BinarySingleNaN Binary Bits.
From Mpv Require Import NumOps.
Open Scope Z_scope.

Definition Hprec64 : FLX.Prec_gt_0 53 := eq_refl.
Definition Hmax64 : Prec_lt_emax 53 1024 := eq_refl.

Definition b64 := binary64.
Definition b64_ofZ (z : Z) : b64 := Binary.binary_normalize 53 1024 Hprec64 Hmax64 mode_NE z 0 false.
Definition b64_add (a b : b64) : b64 := b64_plus mode_NE a b.
Definition b64_sub (a b : b64) : b64 := b64_minus mode_NE a b.
Definition b64_divf (a b : b64) : b64 := b64_div mode_NE a b.
(* math.ceil: round to an integral value upwards, then read the integer (exact) *)
Definition b64_ceil (a : b64) : Z :=
  Binary.Btrunc 53 1024 (Binary.Bnearbyint 53 1024 Hmax64 unop_nan_pl64 mode_UP a).

Definition B64Ops : numops b64 :=
  {| nadd := b64_add; nsub := b64_sub; nofZ := b64_ofZ; nceil := b64_ceil;
     ndivZ := fun a b => b64_divf (b64_ofZ a) (b64_ofZ b) |}.

(* floats travel between Python and Coq as the 64-bit pattern (struct.pack('>d')) *)
Definition b64_bits (a : b64) : Z := bits_of_b64 a.
Definition b64_of (bits : Z) : b64 := b64_of_bits bits.

(* Lib/NumOps.v -- the arithmetic a Python "int or float" chunk size needs, as a record of
   operations, so that kernels translated from utils.py are generic in the number
   representation.  Instances: ZOps (Python int), FracOps q (exact rationals with a fixed
   denominator q: the idealised "real" arithmetic), and B64Ops (IEEE binary64 via Flocq, in
   Lib/B64.v). *)
From Coq Require Import ZArith List Bool Lia.
Import ListNotations.
Open Scope Z_scope.

Record numops (num : Type) : Type := mkNumOps {
  nadd  : num -> num -> num;     (* a + b            *)
  nsub  : num -> num -> num;     (* a - b            *)
  nofZ  : Z -> num;              (* int -> num       *)
  nceil : num -> Z;              (* math.ceil        *)
  ndivZ : Z -> Z -> num;         (* int / int (true division) *)
}.
Arguments nadd {num}. Arguments nsub {num}. Arguments nofZ {num}.
Arguments nceil {num}. Arguments ndivZ {num}.

(* Python int: chunk_size given as an int.  True division never happens on this path (it is
   only used when chunk_size is None, which yields a float); it is totalised with floor
   division and no theorem about ZOps uses it. *)
Definition ZOps : numops Z :=
  {| nadd := Z.add; nsub := Z.sub; nofZ := fun z => z; nceil := fun z => z;
     ndivZ := fun a b => a / b |}.

(* Exact rationals with fixed denominator q > 0: the number c stands for c / q. *)
Definition FracOps (q : Z) : numops Z :=
  {| nadd := Z.add; nsub := Z.sub; nofZ := fun z => z * q;
     nceil := fun c => (c + q - 1) / q;
     ndivZ := fun a b => a (* only meaningful when b = q: a / q *) |}.

(* results of translated code: Python exceptions are explicit error values *)
Inductive res (T : Type) : Type := Ok (v : T) | Err (code : Z).   (* 1 = raise, 2 = TypeError on None *)
Arguments Ok {T}. Arguments Err {T}.
Inductive ctl (S : Type) : Type := Continue (s : S) | Stop | Fail (code : Z).
Arguments Continue {S}. Arguments Stop {S}. Arguments Fail {S}.

(* list helpers shared by generated kernels *)
Definition take {A} (k : Z) (l : list A) : list A := firstn (Z.to_nat k) l.
Definition drop {A} (k : Z) (l : list A) : list A := skipn (Z.to_nat k) l.
Definition zlen {A} (l : list A) : Z := Z.of_nat (length l).

Lemma zlen_nonneg {A} (l : list A) : 0 <= zlen l.
Proof. unfold zlen; lia. Qed.
Lemma zlen_take {A} k (l : list A) : zlen (take k l) = Z.min (Z.max 0 k) (zlen l).
Proof. unfold zlen, take. rewrite firstn_length. lia. Qed.
Lemma zlen_drop {A} k (l : list A) : zlen (drop k l) = zlen l - Z.min (Z.max 0 k) (zlen l).
Proof. unfold zlen, drop. rewrite skipn_length. lia. Qed.
Lemma take_drop {A} k (l : list A) : take k l ++ drop k l = l.
Proof. apply firstn_skipn. Qed.
Lemma zlen_app {A} (a b : list A) : zlen (a ++ b) = zlen a + zlen b.
Proof. unfold zlen. rewrite app_length. lia. Qed.
Lemma zlen_nil_iff {A} (l : list A) : zlen l = 0 <-> l = [].
Proof. unfold zlen. destruct l; simpl; split; intros; try reflexivity; try discriminate; lia. Qed.

(* Python slicing l[a:b] with step 1, negative indices included *)
Definition norm_idx (i len : Z) : Z := let i := if i <? 0 then i + len else i in Z.max 0 (Z.min i len).
Definition pyslice {A} (a b : Z) (l : list A) : list A :=
  let a := norm_idx a (zlen l) in let b := norm_idx b (zlen l) in take (b - a) (drop a l).
Definition pyslice_to {A} (b : Z) (l : list A) : list A := take (norm_idx b (zlen l)) l.
Definition pyslice_from {A} (a : Z) (l : list A) : list A := drop (norm_idx a (zlen l)) l.

(* `a or b` on Optional[int] values *)
Definition py_or_optZ (a b : option Z) : option Z :=
  match a with Some v => if v =? 0 then b else Some v | None => b end.

(* take / drop algebra *)
Lemma take_take {A} a b (l : list A) : take a (take b l) = take (Z.min a b) l.
Proof.
  unfold take. rewrite firstn_firstn. f_equal.
  destruct (Z_le_gt_dec a 0), (Z_le_gt_dec b 0); lia.
Qed.
Lemma skipn_skipn_ {A} (a b : nat) (l : list A) : skipn a (skipn b l) = skipn (b + a) l.
Proof.
  revert l; induction b as [|b IH]; intros l; simpl; [reflexivity|].
  destruct l as [|x l]; simpl; [destruct a; reflexivity|]. apply IH.
Qed.
Lemma drop_drop {A} a b (l : list A) : 0 <= a -> 0 <= b -> drop a (drop b l) = drop (b + a) l.
Proof. intros. unfold drop. rewrite skipn_skipn_. f_equal. lia. Qed.
Lemma take_all {A} k (l : list A) : zlen l <= k -> take k l = l.
Proof. unfold take, zlen. intros. apply firstn_all2. lia. Qed.
Lemma take_nonpos {A} k (l : list A) : k <= 0 -> take k l = [].
Proof. unfold take. intros. replace (Z.to_nat k) with O by lia. reflexivity. Qed.
Lemma drop_nonpos {A} k (l : list A) : k <= 0 -> drop k l = l.
Proof. unfold drop. intros. replace (Z.to_nat k) with O by lia. reflexivity. Qed.
Lemma firstn_add {A} (a b : nat) (l : list A) : firstn (a + b) l = firstn a l ++ firstn b (skipn a l).
Proof.
  revert l; induction a as [|a IH]; intros l; simpl; [reflexivity|].
  destruct l as [|x l]; simpl; [destruct b; reflexivity|]. rewrite IH. reflexivity.
Qed.
Lemma take_add {A} a b (l : list A) : 0 <= a -> 0 <= b -> take (a + b) l = take a l ++ take b (drop a l).
Proof. intros. unfold take, drop. rewrite Z2Nat.inj_add by lia. apply firstn_add. Qed.
Lemma norm_idx_id i len : 0 <= i <= len -> norm_idx i len = i.
Proof. unfold norm_idx. intros. destruct (i <? 0) eqn:E; lia. Qed.
Lemma norm_idx_clip i len : 0 <= len <= i -> norm_idx i len = len.
Proof. unfold norm_idx. intros. destruct (i <? 0) eqn:E; lia. Qed.
Lemma pyslice_take_drop {A} a k (l : list A) : 0 <= a <= zlen l -> 0 <= k ->
  pyslice a (a + k) l = take k (drop a l).
Proof.
  intros Ha Hk. unfold pyslice. rewrite (norm_idx_id a) by lia.
  destruct (Z_le_gt_dec (a + k) (zlen l)).
  - rewrite norm_idx_id by lia. f_equal. lia.
  - rewrite norm_idx_clip by lia. rewrite (take_all k). 2:{ rewrite zlen_drop. lia. }
    apply take_all. rewrite zlen_drop. lia.
Qed.
Lemma pyslice_to_take {A} b (l : list A) : 0 <= b -> pyslice_to b l = take b l.
Proof.
  intros. unfold pyslice_to. destruct (Z_le_gt_dec b (zlen l)).
  - rewrite norm_idx_id by lia. reflexivity.
  - rewrite norm_idx_clip. 2:{ pose proof (zlen_nonneg l). lia. }
    rewrite !take_all; try reflexivity; lia.
Qed.
Lemma drop_ge {A} k (l : list A) : zlen l <= k -> drop k l = [].
Proof. unfold drop, zlen. intros. apply skipn_all2. lia. Qed.
Lemma drop_take_len {A} k (l : list A) : 0 <= k -> drop k l = drop (zlen (take k l)) l.
Proof.
  intros. rewrite zlen_take. destruct (Z_le_gt_dec k (zlen l)).
  - f_equal. lia.
  - rewrite !drop_ge; try reflexivity; lia.
Qed.
Lemma take_len_take {A} k (l : list A) : take (zlen (take k l)) l = take k l.
Proof.
  rewrite zlen_take. pose proof (zlen_nonneg l). destruct (Z_le_gt_dec k 0).
  - rewrite !take_nonpos; try reflexivity; lia.
  - destruct (Z_le_gt_dec k (zlen l)).
    + f_equal. lia.
    + rewrite !take_all; try reflexivity; lia.
Qed.

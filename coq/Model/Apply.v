(* Model/Apply.v -- apply_async: submissions, per-worker FIFO execution, failures returned as
   results, the results handler and the timeout handler as the two possible setters of a job's
   AsyncResult.  AsyncResult._set is the kernel translated from async_result.py (Gen/GenAsync.v);
   whether a failing apply task is returned as a result or stops the pool is read off
   worker._run_safely. *)
From Coq Require Import List Arith Lia Bool ZArith String.
From Mpv Require Import NumOps GenAsync GenStruct OrderHist.
Import ListNotations.
Close Scope Z_scope.
Open Scope nat_scope.

Fixpoint follows_in (a b : string) (l : list string) : bool :=
  match l with
  | x :: ((y :: _) as r) => (String.eqb x a && String.eqb y b) || follows_in a b r
  | _ => false
  end.
(* facts read off the source *)
Definition failure_returned_as_result : bool :=
  follows_in "if self.is_apply_func:" "  exception = self._get_exception(exception_args, err)" run_safely_failure_branch &&
  has "  return (exception, False, True, False)" run_safely_failure_branch.
Definition interrupted_task_sends_nothing : bool := has "return (None, False, False, False)" run_safely_interrupt_branch.
Fixpoint pos_of (x : string) (l : list string) : nat :=
  match l with [] => 0 | y :: r => if String.eqb x y then 0 else S (pos_of x r) end.
(* death watch, APPLY branch: the job is failed, then the worker is replaced; the exception event is
   only raised in the other (map) branch *)
Definition death_in_apply_restarts_worker : bool :=
  has "      job._set(success=False, result=err)" death_handler_body &&
  (pos_of "      job._set(success=False, result=err)" death_handler_body <? pos_of "      if job_type == JobType.APPLY:" death_handler_body) &&
  (pos_of "      if job_type == JobType.APPLY:" death_handler_body <? pos_of "        self._start_worker(worker_id)" death_handler_body) &&
  (pos_of "        self._start_worker(worker_id)" death_handler_body <? pos_of "      else:" death_handler_body) &&
  (pos_of "      else:" death_handler_body <? pos_of "        self._worker_comms.signal_exception_thrown(job_id)" death_handler_body) &&
  has "        self._worker_comms.signal_exception_thrown(job_id)" death_handler_body.

(* timeout handler: the overrunning worker is interrupted BEFORE the job is marked failed (and its error callback
   run): from then on that worker cannot deliver a result for the job any more, so the timeout is the job's only _set *)
Definition timeout_interrupts_before_it_sets : bool :=
  has "      self._send_kill_signal_to_worker(worker_id)" timeout_handler_body &&
  (pos_of "      self._send_kill_signal_to_worker(worker_id)" timeout_handler_body
   <? pos_of "        self._cache[job_id]._set(success=False, result=err)" timeout_handler_body) &&
  has "        self._cache[job_id]._set(success=False, result=err)" timeout_handler_body.

Inductive oc := OOk (v : Z) | ORaise (e : Z) | OBlock | ODie.       (* what the user function does with this task *)
Inductive jphase := JQueued | JRunning | JSent (ok : bool) (v : Z) | JGone | JDead.   (* JDead: the process was killed inside the task *)
Definition TIMEOUT : Z := (-7)%Z.
Definition DIED : Z := (-9)%Z.

Record job := mkJob {
  j_w : nat; j_oc : oc; j_to : bool; j_cbs : bool * bool;         (* worker, outcome, has a timeout, (callback, error_callback) given *)
  j_phase : jphase;
  j_succ : option bool; j_val : Z; j_ready : bool; j_cache : bool; j_cb : list Z; j_ecb : list Z
}.
Record ast := mkA { jobs : list job; exn : bool }.

Definition set_result (j : job) (ok : bool) (v : Z) (ph : jphase) : job :=
  let '(_, (su, va, re, ca, cb, ecb)) :=
      async_set (fst (j_cbs j)) (snd (j_cbs j)) true ok v (j_succ j) (j_val j) (j_ready j) (j_cache j) (j_cb j) (j_ecb j) in
  mkJob (j_w j) (j_oc j) (j_to j) (j_cbs j) ph su va re ca cb ecb.
Definition with_phase (j : job) (ph : jphase) : job :=
  mkJob (j_w j) (j_oc j) (j_to j) (j_cbs j) ph (j_succ j) (j_val j) (j_ready j) (j_cache j) (j_cb j) (j_ecb j).

Definition upd {A} (l : list A) (i : nat) (x : A) : list A :=
  firstn i l ++ match skipn i l with [] => [] | _ :: t => x :: t end.

(* worker FIFO: job i may start when no earlier job of the same worker is still queued or running *)
Definition busy (j : job) : bool := match j_phase j with JQueued | JRunning | JDead => true | _ => false end.
Definition may_start (l : list job) (i : nat) (w : nat) : bool :=
  forallb (fun j => negb ((j_w j =? w) && busy j)) (firstn i l).

Inductive alabel := ASubmit (w : nat) (o : oc) (to cb ecb : bool) | AWork (i : nat) | ARes (i : nat) | ATimeout (i : nat) | ADeath (i : nat).

Definition astep (s : ast) (a : alabel) : option ast :=
  match a with
  | ASubmit w o to cb ecb =>
      Some (mkA (jobs s ++ [mkJob w o to (cb, ecb) JQueued None 0%Z false true [] []]) (exn s))
  | AWork i =>
      match nth_error (jobs s) i with
      | Some j =>
          match j_phase j with
          | JQueued => if may_start (jobs s) i (j_w j) then Some (mkA (upd (jobs s) i (with_phase j JRunning)) (exn s)) else None
          | JRunning =>
              match j_oc j with
              | OOk v => Some (mkA (upd (jobs s) i (with_phase j (JSent true v))) (exn s))
              | ORaise e => if failure_returned_as_result
                            then Some (mkA (upd (jobs s) i (with_phase j (JSent false e))) (exn s))
                            else Some (mkA (upd (jobs s) i (with_phase j JGone)) true)
              | OBlock => None
              | ODie => Some (mkA (upd (jobs s) i (with_phase j JDead)) (exn s))
              end
          | _ => None
          end
      | None => None
      end
  | ARes i =>                                       (* results handler: cache lookup, then _set *)
      match nth_error (jobs s) i with
      | Some j =>
          match j_phase j with
          | JSent ok v => Some (mkA (upd (jobs s) i (if j_cache j then set_result j ok v JGone else with_phase j JGone)) (exn s))
          | _ => None
          end
      | None => None
      end
  | ATimeout i =>                                   (* timeout handler: only a task that overruns its timeout *)
      match nth_error (jobs s) i with
      | Some j =>
          match j_phase j, j_oc j with
          | JRunning, OBlock =>
              if j_to j then
                if timeout_interrupts_before_it_sets
                then Some (mkA (upd (jobs s) i (if j_cache j then set_result j false TIMEOUT JGone else with_phase j JGone)) (exn s))
                else (* the task keeps running while the error callback runs: it can still complete and be set a second time *)
                     Some (mkA (upd (jobs s) i (if j_cache j then set_result j false TIMEOUT JRunning else j)) true)
              else None
          | _, _ => None
          end
      | None => None
      end
  | ADeath i =>                                     (* death watch: the job the dead worker was running fails, a replacement takes over its queue *)
      match nth_error (jobs s) i with
      | Some j =>
          match j_phase j with
          | JDead => if death_in_apply_restarts_worker
                     then Some (mkA (upd (jobs s) i (if j_cache j then set_result j false DIED JGone else with_phase j JGone)) (exn s))
                     else Some (mkA (upd (jobs s) i (with_phase j JGone)) true)
          | _ => None
          end
      | None => None
      end
  end.

Fixpoint arun (s : ast) (l : list alabel) : ast :=
  match l with [] => s | a :: r => match astep s a with Some s' => arun s' r | None => arun s r end end.
Definition ainit : ast := mkA [] false.

(* Model/Chunk.v -- chunk_tasks as a total function: the generated loop body (Gen/GenChunk.v,
   translated from utils.py on every run) iterated by structural recursion on fuel.
   Every continuing iteration consumes at least one element, so fuel = length + 1 suffices;
   running out of fuel is an explicit error value and is excluded by theorem (chunks_fuel_ok). *)
From Coq Require Import ZArith List Bool Lia.
From Mpv Require Import NumOps GenChunk.
Import ListNotations.
Open Scope Z_scope.

Section Chunk.
Context {num : Type} (N : numops num) {A : Type}.

Definition cstate : Type := (num * Z * list A)%type.

Fixpoint chunk_loop (fuel : nat) (body : cstate -> list (list A) * ctl cstate) (st : cstate)
  : res (list (list A)) :=
  match fuel with
  | O => Err 99                                      (* out of fuel *)
  | S f =>
      let '(outs, c) := body st in
      match c with
      | Stop => Ok outs
      | Fail e => Err e
      | Continue st' =>
          match chunk_loop f body st' with
          | Ok more => Ok (outs ++ more)
          | Err e => Err e
          end
      end
  end.

(* list(chunk_tasks(xs, iterable_len, chunk_size, n_splits)); is_ndarray / has_len describe the
   kind of iterable (ndarray: sliced; list/range: has a len; generator: neither) *)
Definition chunk_tasks (is_ndarray has_len : bool) (xs : list A) (iterable_len : option Z)
    (chunk_size : option num) (n_splits : option Z) : res (list (list A)) :=
  match chunk_tasks_init N has_len xs iterable_len chunk_size n_splits with
  | Err e => Err e
  | Ok (cs, cur, ret, it) =>
      chunk_loop (S (length xs)) (chunk_tasks_body N is_ndarray xs iterable_len cs) (cur, ret, it)
  end.

Definition numpy_chunking (xs : list A) (iterable_len : option Z) (chunk_size : option num)
    (n_splits n_jobs : option Z) :=
  @apply_numpy_chunking num A (chunk_tasks true true) xs iterable_len chunk_size n_splits n_jobs.

End Chunk.

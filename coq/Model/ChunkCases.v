(* Model/ChunkCases.v -- entry points the correspondence harness evaluates with vm_compute:
   the same cases the real chunk_tasks / apply_numpy_chunking are run on. *)
From Coq Require Import ZArith List Bool.
From Mpv Require Import NumOps B64 GenChunk Chunk.
Import ListNotations.
Open Scope Z_scope.

Definition seqZ (n : Z) : list Z := map Z.of_nat (seq 0 (Z.to_nat n)).
Definition lens {A} (r : res (list (list A))) : list Z :=
  match r with Ok c => map (@zlen A) c | Err e => [- e] end.

Definition case_int (is_nd has_len : bool) (n : Z) (ilen cs ns : option Z) : list Z :=
  lens (chunk_tasks ZOps is_nd has_len (seqZ n) ilen cs ns).
(* float chunk sizes travel as bit patterns; cs = None with n_splits makes a float n/s *)
Definition case_b64 (is_nd has_len : bool) (n : Z) (ilen cs_bits ns : option Z) : list Z :=
  lens (chunk_tasks B64Ops is_nd has_len (seqZ n) ilen (option_map b64_of cs_bits) ns).

Definition numpy_lens (r : res (list (list Z) * Z * Z * option Z)) : list Z :=
  match r with Ok (items, ann, _, _) => ann :: map (@zlen Z) items | Err e => [- e] end.
Definition case_numpy_int (n : Z) (ilen cs ns nj : option Z) : list Z :=
  numpy_lens (numpy_chunking ZOps (seqZ n) ilen cs ns nj).
Definition case_numpy_b64 (n : Z) (ilen cs_bits ns nj : option Z) : list Z :=
  numpy_lens (numpy_chunking B64Ops (seqZ n) ilen (option_map b64_of cs_bits) ns nj).

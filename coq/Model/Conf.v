(* Model/Conf.v -- actor-local conformance: replay ONE worker instance of the Core model on the
   messages a real instance received (in its own order) and list the observable actions the
   model performs; the harness compares them with the instance's own log.  The simulation uses
   Core.step itself (single-slot state), so what is validated is the step function the theorems
   are about.  No cross-actor order is used. *)
From Coq Require Import List Arith Lia Bool ZArith.
From RecordUpdate Require Import RecordUpdate.
From Mpv Require Import NumOps GenProto Core.
Import ListNotations.
Close Scope Z_scope.
Open Scope nat_scope.

(* observable actions, as numbers so that they print compactly:
   1 = worker_init ran, 2 = one task ran, 3 = worker_exit ran, 100+n = batch of n task results put,
   50 = exit result put, 7 = restart requested, 9 = instance finished *)
Definition ev_code (e : event) : Z :=
  match ev_kind e with KInit => 1 | KTask _ => 2 | KExit => 3 end%Z.
Definition batch_code (b : nat * batch) : Z :=
  match snd b with RTasks l => (100 + Z.of_nat (length l))%Z | RExit => 50%Z end.

Definition is_dead (s : st) : bool :=
  match nth_error (slots s) 0 with Some sl => match pc sl with WDead => true | _ => false end | None => true end.

Fixpoint wsim (c : cfg) (fuel : nat) (s : st) (seen_ev seen_res : nat) : list Z :=
  match fuel with
  | O => [(-1)%Z]                                   (* out of fuel: reported, never silently accepted *)
  | S f =>
    if is_dead s then
      (match nth_error (slots s) 0 with Some sl => if restart sl then [7%Z] else [] | None => [] end) ++ [9%Z]
    else
      match step c s (LWorker 0) with
      | Some s' =>
          let new_ev := map ev_code (skipn seen_ev (evlog s')) in
          let nres := seen_res + (length (resq s') - length (resq s)) in
          let new_res := map batch_code (skipn (length (resq s)) (resq s')) in
          new_ev ++ new_res ++ wsim c f s' (length (evlog s')) nres
      | None =>
          match step c s LRes with                   (* the results handler acknowledges a batch *)
          | Some s' => wsim c f s' seen_ev seen_res
          | None => [(-2)%Z]                          (* stuck: the instance waits for a message it never got *)
          end
      end
  end.

Definition mk_msgs (l : list Z) : list msg :=       (* k > 0: chunk of k tasks; 0: lethal pill *)
  map (fun k => if (k =? 0)%Z then MPill else MChunk (repeat 0 (Z.to_nat k))) l.

(* one instance: lifespan (0 = None), has_init, has_exit, init already done?, messages it received *)
Definition worker_instance (life : Z) (hi he : bool) (msgs : list Z) : list Z :=
  let c := mkCfg 1 1000 (if (life =? 0)%Z then None else Some (Z.to_nat life)) false hi he in
  let sl := mkSlot WBoot (mk_msgs msgs) (length msgs) 0 false 0 0 false 0 false false in
  let s := mkSt [sl] [] [] 0 MDrain 0 0 0 [] [] [] [] in
  wsim c (20 + 4 * length msgs + 3 * Z.to_nat (fold_left Z.add msgs 0%Z)) s 0 0.

(* main's worker selection on the observed inputs of one add_task *)
Definition selection (order : bool) (njobs : Z) (tidx : Z) (lastc : list Z) : Z :=
  match get_task_worker_id order njobs None tidx lastc with Ok (w, _) => w | Err _ => (-1)%Z end.

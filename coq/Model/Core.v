(* Model/Core.v -- one successful map-family call as an interleaved small-step machine.

   Actors: main (imap_unordered's dispatch loop, then stop_and_join), the results handler, the
   restart handler and one worker per slot (successive instances).  A schedule is a
   `list label`; "for all interleavings" is `forall l : list label`.  Every guard is a kernel
   regenerated from the Python source (Gen/GenProto.v); the skeleton (which actor does what, in
   which order) is written by hand from pool.py / worker.py / comms.py and is tied to the code by
   Spec/ProtoSpec.v (structural fingerprints) and the correspondence runs.

   Tasks are their input indices; the user function is left uninterpreted (results are identified
   with task indices: transport is assumed value preserving).  Ghost fields: evlog (every
   init/task/exit invocation with worker id and instance number), dlog (every add_task). *)
From Coq Require Import List Arith Lia Bool ZArith.
From RecordUpdate Require Import RecordUpdate.
From Mpv Require Import NumOps GenProto.
Import ListNotations.
Close Scope Z_scope.
Open Scope nat_scope.

Inductive msg := MChunk (c : list nat) | MPill.
Inductive evkind := KInit | KTask (t : nat) | KExit.
Record event := Ev { ev_w : nat; ev_inst : nat; ev_kind : evkind }.
Inductive batch := RTasks (l : list nat) | RExit.

Inductive wpc :=
| WBoot                              (* process started, nothing announced yet *)
| WLoop                              (* at the head of `while lifespan not reached` *)
| WInit (ch : list nat)              (* got a chunk, worker_init still to run *)
| WRun (rest acc : list nat)         (* running the tasks of a chunk *)
| WExit                              (* worker_exit to run (lifespan end or lethal pill) *)
| WFinal                             (* in `finally`: waiting until all results were received *)
| WDead.                             (* process gone *)

Record slot := mkSlot {
  pc : wpc; q : list msg; unf : nat;          (* joinable task queue of the slot + unfinished count *)
  nexec : nat; init_done : bool;              (* n_tasks_executed, init_func_completed *)
  added : nat; received : nat;                (* results hand-shake counters *)
  restart : bool;                             (* restart requested *)
  inst : nat;                                 (* ghost: instance number of the slot *)
  pilled : bool; exited : bool                (* ghost: consumed the lethal pill / ran worker_exit *)
}.
#[export] Instance eta_slot : Settable _ :=
  settable! mkSlot <pc; q; unf; nexec; init_done; added; received; restart; inst; pilled; exited>.

Inductive mpc :=
| MDispatch (rem : list (list nat)) (pend : option (list nat))
| MDrain | MStop | MJoinQ | MJoinW | MJoinR | MDone.

Record st := mkSt {
  slots : list slot;
  resq : list (nat * batch);                  (* shared results queue: (worker id, batch) *)
  items : list nat; exit_items : nat;         (* iterator of the call; exit results received *)
  main : mpc;
  nactive : nat; ndrawn : nat;                (* n_active, n_tasks counted by the dispatch loop *)
  tidx : nat; lastc : list nat;               (* _task_idx, _last_completed_task_worker_id *)
  yielded : list nat;
  evlog : list event; dlog : list (nat * list nat)
}.
#[export] Instance eta_st : Settable _ :=
  settable! mkSt <slots; resq; items; exit_items; main; nactive; ndrawn; tidx; lastc; yielded; evlog; dlog>.

Record cfg := mkCfg {
  njobs : nat; maxact : nat; lifespan : option nat; order : bool; has_init : bool; has_exit : bool }.

(* ---- guards: the generated kernels at nat arguments ---- *)
Definition blocked (a l m : nat) : bool :=
  dispatch_wait false (Z.of_nat a) (Z.of_nat l) (Z.of_nat m).
Definition predraw (a m : nat) : bool := pre_draw_wait false (Z.of_nat a) (Z.of_nat m).
Definition choose (c : cfg) (ti : nat) (lc : list nat) : option (nat * nat * list nat) :=
  match get_task_worker_id (order c) (Z.of_nat (njobs c)) None (Z.of_nat ti) (map Z.of_nat lc) with
  | Ok (w, (ti', lc')) => Some (Z.to_nat w, Z.to_nat ti', map Z.to_nat lc')
  | Err _ => None
  end.
Definition zlife (c : cfg) : option Z := option_map Z.of_nat (lifespan c).
Definition alive_guard (c : cfg) (n : nat) : bool := worker_loop_guard (zlife c) (Z.of_nat n).
Definition wants_restart (c : cfg) (n : nat) : bool := restart_condition false (zlife c) (Z.of_nat n).
Definition exit_pill (c : cfg) (n : nat) : bool := exit_on_pill (has_exit c) (Z.of_nat n).
Definition must_wait (r a : nat) : bool := results_wait (Z.of_nat r) (Z.of_nat a).
Definition exhausted (nt nr : nat) : bool := iterator_exhausted (Some (Z.of_nat nt)) (Z.of_nat nr).

Definition upd {A} (l : list A) (i : nat) (x : A) : list A :=
  firstn i l ++ match skipn i l with [] => [] | _ :: t => x :: t end.
Definition set_slot (s : st) (w : nat) (sl : slot) : st := s <| slots := upd (slots s) w sl |>.

Inductive label := LMain | LRes | LWorker (w : nat) | LRestart (w : nat).

Definition log (s : st) (w : nat) (sl : slot) (k : evkind) : list event := evlog s ++ [Ev w (inst sl) k].

Definition step (c : cfg) (s : st) (a : label) : option st :=
  match a with
  | LMain =>
    match main s with
    | MDispatch rem None =>
        if predraw (nactive s) (maxact c) then                     (* get below the bound before drawing more input *)
          match items s with
          | x :: it => Some (s <| items := it |> <| nactive := nactive s - 1 |> <| yielded := yielded s ++ [x] |>)
          | [] => None
          end
        else
        match rem with
        | ch :: rem' => Some (s <| main := MDispatch rem' (Some ch) |> <| ndrawn := ndrawn s + length ch |>)
        | [] => Some (s <| main := MDrain |>)                     (* set_length(n_tasks) *)
        end
    | MDispatch rem (Some ch) =>
        if blocked (nactive s) (length ch) (maxact c) then
          match items s with                                       (* yield imap_iterator.next() *)
          | x :: it => Some (s <| items := it |> <| nactive := nactive s - 1 |> <| yielded := yielded s ++ [x] |>)
          | [] => None
          end
        else
          match choose c (tidx s) (lastc s) with                   (* add_task *)
          | Some (w, ti, lc) =>
            match nth_error (slots s) w with
            | Some sl => Some (set_slot s w (sl <| q := q sl ++ [MChunk ch] |> <| unf := S (unf sl) |>)
                                 <| main := MDispatch rem None |> <| nactive := nactive s + length ch |>
                                 <| tidx := ti |> <| lastc := lc |> <| dlog := dlog s ++ [(w, ch)] |>)
            | None => None
            end
          | None => None
          end
    | MDrain =>
        match items s with
        | x :: it => Some (s <| items := it |> <| yielded := yielded s ++ [x] |>)
        | [] => if exhausted (ndrawn s) (length (yielded s)) then Some (s <| main := MStop |>) else None
        end
    | MStop =>                                                     (* insert_poison_pill *)
        Some (s <| slots := map (fun sl => sl <| q := q sl ++ [MPill] |> <| unf := S (unf sl) |>) (slots s) |>
                <| main := MJoinQ |>)
    | MJoinQ => if forallb (fun sl => unf sl =? 0) (slots s) then Some (s <| main := MJoinW |>) else None
    | MJoinW => if forallb (fun sl => match pc sl with WDead => negb (restart sl) | _ => false end) (slots s)
                then Some (s <| main := MJoinR |>) else None
    | MJoinR => match resq s with [] => Some (s <| main := MDone |>) | _ => None end
    | MDone => None
    end
  | LRes =>                                                        (* results handler: get_results + _set *)
    match resq s with
    | (w, b) :: r =>
      match nth_error (slots s) w with
      | Some sl =>
        let s' := set_slot s w (sl <| received := S (received sl) |>) <| resq := r |> <| lastc := lastc s ++ [w] |> in
        Some (match b with
              | RTasks l => s' <| items := items s ++ l |>
              | RExit => s' <| exit_items := S (exit_items s) |>
              end)
      | None => None
      end
    | [] => None
    end
  | LWorker w =>
    match nth_error (slots s) w with
    | None => None
    | Some sl =>
      match pc sl with
      | WBoot => Some (set_slot s w (sl <| pc := WLoop |> <| received := 0 |> <| added := 0 |>))
      | WLoop =>
        if alive_guard c (nexec sl) then
          match q sl with
          | MChunk ch :: qr =>
              Some (set_slot s w (sl <| pc := if run_init_guard (has_init c) (init_done sl) then WInit ch else WRun ch [] |>
                                     <| q := qr |>))
          | MPill :: qr =>                                          (* _handle_poison_pill: task_done first *)
              Some (set_slot s w (sl <| pc := if exit_pill c (nexec sl) then WExit else WFinal |> <| q := qr |>
                                     <| unf := unf sl - 1 |> <| pilled := true |>))
          | [] => None
          end
        else Some (set_slot s w (sl <| pc := if has_exit c then WExit else WFinal |>))
      | WInit ch =>
          Some (set_slot s w (sl <| pc := WRun ch [] |> <| init_done := true |>) <| evlog := log s w sl KInit |>)
      | WRun (t :: rest) acc =>
          Some (set_slot s w (sl <| pc := WRun rest (acc ++ [t]) |>) <| evlog := log s w sl (KTask t) |>)
      | WRun [] acc =>                                              (* add_results; n_tasks_executed += ..; task_done *)
          Some (set_slot s w (sl <| pc := WLoop |> <| nexec := nexec sl + length acc |> <| added := S (added sl) |>
                                 <| unf := unf sl - 1 |>)
                  <| resq := resq s ++ [(w, RTasks acc)] |>)
      | WExit =>
          Some (set_slot s w (sl <| pc := WFinal |> <| added := S (added sl) |> <| exited := true |>)
                  <| resq := resq s ++ [(w, RExit)] |> <| evlog := log s w sl KExit |>)
      | WFinal =>
          if must_wait (received sl) (added sl) then None
          else Some (set_slot s w (sl <| pc := WDead |> <| restart := wants_restart c (nexec sl) |>))
      | WDead => None
      end
    end
  | LRestart w =>                                                  (* restart handler: join, reset flag, start *)
    match nth_error (slots s) w with
    | Some sl =>
      match pc sl with
      | WDead => if restart sl
                 then Some (set_slot s w (sl <| pc := WBoot |> <| restart := false |> <| nexec := 0 |>
                                             <| init_done := false |> <| inst := S (inst sl) |> <| exited := false |>))
                 else None
      | _ => None
      end
    | None => None
    end
  end.

(* a schedule: disabled labels are skipped (stutter) *)
Fixpoint run (c : cfg) (s : st) (sched : list label) : st :=
  match sched with
  | [] => s
  | a :: r => match step c s a with Some s' => run c s' r | None => run c s r end
  end.

Definition init_slot : slot := mkSlot WBoot [] 0 0 false 0 0 false 0 false false.
Definition init (c : cfg) (chunks : list (list nat)) : st :=
  mkSt (repeat init_slot (njobs c)) [] [] 0 (MDispatch chunks None) 0 0 0 [] [] [] [].

(* observables *)
Definition exec_of (l : list event) : list (nat * nat) :=           (* (worker, task) in execution order *)
  flat_map (fun e => match ev_kind e with KTask t => [(ev_w e, t)] | _ => [] end) l.
Definition executed (s : st) : list nat := map snd (exec_of (evlog s)).

(* round-robin schedule for running the model *)
Fixpoint rr (n k : nat) : list label :=
  match k with O => [] | S k' => (LMain :: LRes :: flat_map (fun w => [LWorker w; LRestart w]) (seq 0 n)) ++ rr n k' end.

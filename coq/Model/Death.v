(* Model/Death.v -- one worker slot, its successive instances, the restart handler and the death
   watch, each read of the watch being a separate atomic step (that is where the race lives).
   The ORDER of the watch's reads is generated from pool._unexpected_death_handler
   (GenStruct.death_reads); the slot is assigned before start() (GenStruct.start_worker_assign_first,
   pinned by a Spec lemma). *)
From Coq Require Import List Arith Lia Bool.
From Mpv Require Import GenStruct.
Import ListNotations.
Close Scope Z_scope.
Open Scope nat_scope.

Inductive phase :=
| PNew          (* assigned to the slot, not started *)
| PStarted      (* process running, has not announced itself *)
| PUp           (* alive flag raised *)
| PDown         (* alive flag lowered (routine exit: restart requested or pill) *)
| PExited       (* process gone after lowering the flag *)
| PKilled.      (* process gone WITHOUT lowering the flag: abrupt death *)

Record dst := mkD {
  cur : nat;                 (* instance number held by the slot *)
  ph : phase;                (* its phase; predecessors are all exited *)
  flag : bool;               (* the slot's self-reported alive flag *)
  wpos : list dread;         (* reads the watch still has to do in this pass ([] = idle) *)
  captured : nat;            (* instance captured by `worker = self._workers[worker_id]` *)
  fired : bool;              (* the watch declared a death *)
  killed_any : bool          (* ghost: some instance was killed *)
}.

Inductive dlabel := DInst | DKill | DRestart | DWatch.

(* what each read of the watch observes *)
Definition started_of (s : dst) (k : nat) : bool :=
  if k <? cur s then true else if k =? cur s then match ph s with PNew => false | _ => true end else false.
Definition gone_of (s : dst) (k : nat) : bool :=        (* not is_alive(): never started, or exited *)
  if k <? cur s then true
  else if k =? cur s then match ph s with PNew | PExited | PKilled => true | _ => false end else true.
Definition read (s : dst) (r : dread) : bool :=
  match r with
  | RNotNone => true
  | RStarted => started_of s (captured s)
  | RDeadCaptured => gone_of s (captured s)
  | RFlag => flag s
  | RSame => captured s =? cur s
  | RDeadSlot => gone_of s (cur s)
  end.

Definition dstep (s : dst) (a : dlabel) : option dst :=
  match a with
  | DInst =>                                       (* the current instance moves on *)
      match ph s with
      | PNew => Some (mkD (cur s) PStarted (flag s) (wpos s) (captured s) (fired s) (killed_any s))
      | PStarted => Some (mkD (cur s) PUp true (wpos s) (captured s) (fired s) (killed_any s))
      | PUp => Some (mkD (cur s) PDown false (wpos s) (captured s) (fired s) (killed_any s))
      | PDown => Some (mkD (cur s) PExited (flag s) (wpos s) (captured s) (fired s) (killed_any s))
      | _ => None
      end
  | DKill =>                                       (* SIGKILL: possible whenever a process exists *)
      match ph s with
      | PStarted | PUp | PDown => Some (mkD (cur s) PKilled (flag s) (wpos s) (captured s) (fired s) true)
      | _ => None
      end
  | DRestart =>                                    (* restart handler: join the old one, put a NEW instance in the slot *)
      match ph s with
      | PExited => Some (mkD (S (cur s)) PNew (flag s) (wpos s) (captured s) (fired s) (killed_any s))
      | _ => None
      end
  | DWatch =>
      if fired s then None else
      match wpos s with
      | [] => Some (mkD (cur s) (ph s) (flag s) death_reads (cur s) false (killed_any s))    (* capture, new pass *)
      | r :: rest =>
          if read s r
          then match rest with
               | [] => Some (mkD (cur s) (ph s) (flag s) [] (captured s) true (killed_any s))   (* all reads true *)
               | _ => Some (mkD (cur s) (ph s) (flag s) rest (captured s) false (killed_any s))
               end
          else Some (mkD (cur s) (ph s) (flag s) [] (captured s) false (killed_any s))          (* short circuit *)
      end
  end.

Fixpoint drun (s : dst) (l : list dlabel) : dst :=
  match l with [] => s | a :: r => match dstep s a with Some s' => drun s' r | None => drun s r end end.

Definition dinit : dst := mkD 0 PNew false [] 0 false false.

(* Model/Fail.v -- how a failing map-family call ends: user functions that raise, block or get their
   process killed; the exception event and the job id it names; the results handler, the death
   watch and the timeout handler as the three writers of stored exceptions; main's
   _handle_exception.  Every actor step is atomic per shared-object access.  The ORDER of the
   accesses inside _raise, the death watch and the timeout handler is read off the source
   (Gen/GenAsync.v, Gen/GenStruct.v). *)
From Coq Require Import List Arith Lia Bool String ZArith.
From Mpv Require Import GenAsync GenStruct GenObserve OrderHist Apply.
Import ListNotations.
Close Scope string_scope.
Close Scope Z_scope.
Open Scope nat_scope.

(* ---- facts read off the source ---- *)
Definition raise_checks_then_sets_then_queues : bool :=
  match raise_body with
  | [a; b; c; d] => String.eqb a "if not self.worker_comms.exception_thrown():" &&
                    String.eqb b "  self.worker_comms.signal_exception_thrown(job_id)" &&
                    String.eqb d "  self.worker_comms.add_results(self.worker_id, [(job_id, False, exception)])"
  | _ => false end.
Definition run_safely_checks_event_first : bool :=
  match run_safely_body with a :: b :: _ => String.eqb a "if self.worker_comms.exception_thrown():" && String.eqb b "  return (None, True, False, True)" | _ => false end.
Definition results_handler_broadcasts_init : bool :=
  has "        job_ids = set(self._cache.keys()) - {MAIN_PROCESS, EXIT_FUNC} if job_id == INIT_FUNC else {job_id}" results_handler_body.
Fixpoint index_of (x : string) (l : list string) : nat :=
  match l with [] => 0 | y :: r => if String.eqb x y then 0 else S (index_of x r) end.
Definition death_stores_before_signalling : bool :=
  has "      job._set(success=False, result=err)" death_handler_body &&
  (index_of "      job._set(success=False, result=err)" death_handler_body
   <? index_of "        self._worker_comms.signal_exception_thrown(job_id)" death_handler_body).
Definition timeout_signals_kills_then_stores : bool :=
  has "        self._worker_comms.signal_exception_thrown(job_id)" timeout_handler_body &&
  (index_of "        self._worker_comms.signal_exception_thrown(job_id)" timeout_handler_body
   <? index_of "      self._send_kill_signal_to_worker(worker_id)" timeout_handler_body) &&
  (index_of "      self._send_kill_signal_to_worker(worker_id)" timeout_handler_body
   <? index_of "        self._cache[job_id]._set(success=False, result=err)" timeout_handler_body).
Definition handle_exception_waits_for_named_job : bool :=
  has "  exception = self._cache[self._worker_comms.get_exception_thrown_job_id()].get_exception()" handle_exception_body &&
  (index_of "self.terminate()" handle_exception_body <? index_of "raise exception" handle_exception_body).

(* the stored-exception slots of the pool (MAIN_PROCESS / INIT_FUNC / EXIT_FUNC result objects) outlive a call; a
   call that starts its workers begins with empty slots only because _start_workers resets all three *)
Definition stored_exceptions_reset_when_workers_start : bool :=
  has "self._cache[MAIN_PROCESS].reset()" start_workers_body && has "self._cache[INIT_FUNC].reset()" start_workers_body &&
  has "self._cache[EXIT_FUNC].reset()" start_workers_body.

(* every wait of the dispatch loop of imap_unordered (before drawing the next chunk, before dispatching it, while
   collecting the remaining results) stops as soon as the exception event is set: main then handles the failure *)
Definition dispatch_waits_stop_on_exception : bool :=
  has "        while not self._worker_comms.exception_thrown() and n_active > max_tasks_active:" imap_unordered_body_obs &&
  has "        while not self._worker_comms.exception_thrown() and n_active > 0 and (n_active + len(chunk_of_tasks) > max_tasks_active):" imap_unordered_body_obs &&
  has "      while not self._worker_comms.exception_thrown():" imap_unordered_body_obs &&
  has "        if self._worker_comms.exception_thrown():" imap_unordered_body_obs &&
  has "      if self._worker_comms.exception_thrown():" imap_unordered_body_obs &&
  has "        self._handle_exception()" imap_unordered_body_obs.

(* terminate() returns: the helper that empties a queue goes on until the queue is empty AND every announced item was
   taken (a momentarily empty pipe between two large messages is not the end), so the feeder threads can finish *)
Definition terminate_drains_queues_completely : bool :=
  has "  while not q.empty() or n != 0:" drain_and_join_queue_inner_body &&
  has "    q.get(block=True, timeout=1.0)" drain_and_join_queue_inner_body && has "    n -= 1" drain_and_join_queue_inner_body &&
  has "    q.task_done()" drain_and_join_queue_inner_body.

(* the user function runs inside `with TimeIt(...)`: its exception reaches the handler of _run_safely only because
   TimeIt.__exit__ returns nothing (a truthy return value would swallow it) *)
Definition user_exception_reaches_the_handler : bool :=
  negb (existsb (fun l => String.prefix "return" l || String.prefix "  return" l) timeit_exit_body) &&
  match run_func_inner_body with
  | a :: b :: _ => String.prefix "with TimeIt(" a && String.eqb b "  _results = func(*args) if self.is_apply_func else func(args)"
  | _ => false end.
(* the timeout handler scans a SNAPSHOT of the job cache (main and the results handler add and remove jobs meanwhile) *)
Definition timeout_scan_uses_a_snapshot : bool :=
  has "  if self.map_params.worker_init_timeout is None and self.map_params.worker_exit_timeout is None and all((job._timeout is None for job in self._cache.copy().values())):" timeout_handler_body.

(* ---- the model ---- *)
Inductive jid := JMap | JInit | JExit.
Definition jid_eqb (a b : jid) : bool := match a, b with JMap, JMap | JInit, JInit | JExit, JExit => true | _, _ => false end.
Inductive exc := EUser (e : nat) | EDied (w : nat) | ETimeout (w : nat).
Inductive uout := UOk | URaise (e : nat) | UBlock (has_timeout : bool) | UDie.

Inductive fpc :=
| FLoop | FUser (j : jid) (o : uout)
| FRaise1 (j : jid) (e : nat)         (* caught it; next: `if not exception_thrown()` *)
| FRaise2 (j : jid) (e : nat)         (* event set and job id written; next: queue the exception *)
| FStopped | FKilled (j : jid) (reported : bool).

Record fworker := mkFW { wpc : fpc; todo : list (jid * uout) }.
Inductive fmain := FWait | FHandle (j : jid) | FRaised (e : exc) | FDone.

Record fst := mkF {
  ws : list fworker;
  fexn : bool; fjob : jid;                       (* exception event, the job id it names *)
  fresq : list (jid * exc);
  cexc : jid -> option exc;                      (* stored exception per job (MAP job / INIT_FUNC / EXIT_FUNC) *)
  to2 : list (jid * exc);                        (* timeout handler: events signalled, exception still to be stored *)
  fmn : fmain;
  flog : list exc                                (* ghost: what really happened (raised / died / timed out) *)
}.

Definition store (c : jid -> option exc) (j : jid) (e : exc) : jid -> option exc :=
  fun k => if jid_eqb k j then Some e
           else if results_handler_broadcasts_init && jid_eqb j JInit && jid_eqb k JMap then Some e else c k.

Inductive flabel := LW (w : nat) | LRes | LDeath (w : nat) | LTo1 (w : nat) | LTo2 | LMain.

Definition setw (s : fst) (w : nat) (x : fworker) : list fworker := Apply.upd (ws s) w x.

Definition fstep (s : fst) (a : flabel) : option fst :=
  match a with
  | LW w =>
      match nth_error (ws s) w with
      | None => None
      | Some x =>
          match wpc x with
          | FLoop =>
              if run_safely_checks_event_first && fexn s then
                Some (mkF (setw s w (mkFW FStopped (todo x))) (fexn s) (fjob s) (fresq s) (cexc s) (to2 s) (fmn s) (flog s))
              else match todo x with
                   | [] => Some (mkF (setw s w (mkFW FStopped [])) (fexn s) (fjob s) (fresq s) (cexc s) (to2 s) (fmn s) (flog s))
                   | (j, o) :: r => Some (mkF (setw s w (mkFW (FUser j o) r)) (fexn s) (fjob s) (fresq s) (cexc s) (to2 s) (fmn s) (flog s))
                   end
          | FUser j UOk => Some (mkF (setw s w (mkFW FLoop (todo x))) (fexn s) (fjob s) (fresq s) (cexc s) (to2 s) (fmn s) (flog s))
          | FUser j (URaise e) =>
              if user_exception_reaches_the_handler
              then Some (mkF (setw s w (mkFW (FRaise1 j e) (todo x))) (fexn s) (fjob s) (fresq s) (cexc s) (to2 s) (fmn s) (flog s ++ [EUser e]))
              else None
          | FUser j (UBlock _) => None
          | FUser j UDie =>
              Some (mkF (setw s w (mkFW (FKilled j false) (todo x))) (fexn s) (fjob s) (fresq s) (cexc s) (to2 s) (fmn s) (flog s ++ [EDied w]))
          | FRaise1 j e =>
              if raise_checks_then_sets_then_queues && negb (fexn s)
              then Some (mkF (setw s w (mkFW (FRaise2 j e) (todo x))) true j (fresq s) (cexc s) (to2 s) (fmn s) (flog s))
              else Some (mkF (setw s w (mkFW FStopped (todo x))) (fexn s) (fjob s) (fresq s) (cexc s) (to2 s) (fmn s) (flog s))
          | FRaise2 j e =>
              Some (mkF (setw s w (mkFW FStopped (todo x))) (fexn s) (fjob s) (fresq s ++ [(j, EUser e)]) (cexc s) (to2 s) (fmn s) (flog s))
          | FStopped | FKilled _ _ => None
          end
      end
  | LRes =>
      match fresq s with
      | (j, e) :: r => Some (mkF (ws s) (fexn s) (fjob s) r (store (cexc s) j e) (to2 s) (fmn s) (flog s))
      | [] => None
      end
  | LDeath w =>                                     (* the death watch found worker w gone with its flag up *)
      match nth_error (ws s) w with
      | Some x =>
          match wpc x with
          | FKilled j false =>
              if fexn s then None                   (* the watch stops looking once an exception was thrown *)
              else if death_stores_before_signalling
              then Some (mkF (setw s w (mkFW (FKilled j true) (todo x))) true j (fresq s) (store (cexc s) j (EDied w)) (to2 s) (fmn s) (flog s))
              else Some (mkF (setw s w (mkFW (FKilled j true) (todo x))) true j (fresq s) (cexc s) (to2 s) (fmn s) (flog s))
          | _ => None
          end
      | None => None
      end
  | LTo1 w =>                                       (* the timeout handler finds worker w over its limit *)
      match nth_error (ws s) w with
      | Some x =>
          match wpc x with
          | FUser j (UBlock true) =>
              if fexn s then None
              else if timeout_signals_kills_then_stores && timeout_scan_uses_a_snapshot
              then Some (mkF (setw s w (mkFW FStopped (todo x))) true j (fresq s) (cexc s) (to2 s ++ [(j, ETimeout w)]) (fmn s)
                             (flog s ++ [ETimeout w]))
              else None
          | _ => None
          end
      | None => None
      end
  | LTo2 =>
      match to2 s with
      | (j, e) :: r => Some (mkF (ws s) (fexn s) (fjob s) (fresq s) (store (cexc s) j e) r (fmn s) (flog s))
      | [] => None
      end
  | LMain =>
      match fmn s with
      | FWait =>
          if fexn s then
            (if dispatch_waits_stop_on_exception
             then Some (mkF (ws s) (fexn s) (fjob s) (fresq s) (cexc s) (to2 s) (FHandle (fjob s)) (flog s))
             else None)                          (* main keeps waiting for results that will never come *)
          else if forallb (fun x => match wpc x with FStopped => true | _ => false end) (ws s)
               then Some (mkF (ws s) (fexn s) (fjob s) (fresq s) (cexc s) (to2 s) FDone (flog s)) else None
      | FHandle j =>
          if handle_exception_waits_for_named_job && terminate_drains_queues_completely then
            match cexc s j with
            | Some e => Some (mkF (map (fun x => mkFW FStopped (todo x)) (ws s)) (fexn s) (fjob s) (fresq s) (cexc s) (to2 s)
                                  (FRaised e) (flog s))      (* terminate: every worker is gone, then raise *)
            | None => None
            end
          else None
      | _ => None
      end
  end.

Fixpoint frun (s : fst) (l : list flabel) : fst :=
  match l with [] => s | a :: r => match fstep s a with Some s' => frun s' r | None => frun s r end end.
(* a call on a pool whose slots hold `stale` (left behind by earlier calls) *)
Definition finit_stale (stale : jid -> option exc) (scripts : list (list (jid * uout))) : fst :=
  mkF (map (fun t => mkFW FLoop t) scripts) false JMap []
      (if stored_exceptions_reset_when_workers_start then fun _ => None else stale) [] FWait [].
Definition finit (scripts : list (list (jid * uout))) : fst :=
  mkF (map (fun t => mkFW FLoop t) scripts) false JMap [] (fun _ => None) [] FWait [].

(* Model/FailAux.v -- (1) how an exception object travels from the worker to the caller
   (worker._get_exception, exception.populate_exception); (2) the timeout clock: per-worker start
   stamps set and cleared around each user function, and the decision kernel
   comms._has_worker_timed_out (translated, Gen/GenAsync.v). *)
From Coq Require Import List Arith Lia Bool String ZArith.
From Mpv Require Import GenAsync GenStruct OrderHist Fail.
Import ListNotations.
Open Scope Z_scope.
Open Scope string_scope.

(* ---- (1) transport ---- *)
Definition get_exception_guards_three_parts : bool :=
  has "  pickler.dumps(type(err))" get_exception_body && has "  pickler.dumps(err.args)" get_exception_body &&
  has "  pickler.dumps(err.__dict__)" get_exception_body &&
  has "except (pickle.PicklingError, TypeError, AttributeError):" get_exception_body &&
  has "  err = CannotPickleExceptionError(repr(err))" get_exception_body &&
  has "return (type(err), err.args, err.__dict__, traceback_str)" get_exception_body.
Definition get_exception_uses_the_pools_pickler : bool :=
  has "use_dill = self.pool_params.use_dill and dill is not None and (self.pool_params.start_method != 'threading')" get_exception_body &&
  has "pickler = dill if use_dill else pickle" get_exception_body.
Definition populate_rebuilds_args_and_state : bool :=
  match populate_exception_body with
  | [a; b; c; d; e] => String.eqb a "err = err_type.__new__(err_type)" && String.eqb b "err.args = err_args" &&
                       String.eqb c "err.__dict__.update(err_state)" && String.eqb e "return (err, traceback_err)"
  | _ => false end.

(* an exception object: class, args, instance attributes; which of the three the pool's pickler can dump *)
Record pyexc := mkE { ety : Z; eargs : list Z; eattrs : list (Z * Z); pk_ty : bool; pk_args : bool; pk_attrs : bool }.
Definition CANNOT_PICKLE : Z := -1.
Definition erepr (e : pyexc) : Z := ety e * 1000003 + List.fold_right Z.add 0 (eargs e).   (* stands for repr(err) *)
Record wire := mkWire { w_ty : Z; w_args : list Z; w_attrs : list (Z * Z); w_tb : Z }.
Definition get_exception (e : pyexc) (tb : Z) : wire :=
  if get_exception_guards_three_parts then
    if pk_ty e && pk_args e && pk_attrs e then mkWire (ety e) (eargs e) (eattrs e) tb
    else mkWire CANNOT_PICKLE [erepr e] [] tb
  else mkWire (ety e) (eargs e) (eattrs e) tb.
Record rebuilt := mkR { r_ty : Z; r_args : list Z; r_attrs : list (Z * Z); r_cause : Z }.
Definition populate (w : wire) : rebuilt :=
  if populate_rebuilds_args_and_state then mkR (w_ty w) (w_args w) (w_attrs w) (w_tb w) else mkR (w_ty w) [] [] (w_tb w).

(* ---- (2) the timeout clock of one worker slot and one kind of function ---- *)
Definition started_sets_now : bool :=
  match signal_worker_task_started_body, signal_worker_init_started_body, signal_worker_exit_started_body with
  | [a], [b], [c] => String.eqb a "self._workers_time_task_started[worker_id * 3 + 1] = time.time()" &&
                     String.eqb b "self._workers_time_task_started[worker_id * 3] = time.time()" &&
                     String.eqb c "self._workers_time_task_started[worker_id * 3 + 2] = time.time()"
  | _, _, _ => false end.
Definition completed_sets_zero : bool :=
  match signal_worker_task_completed_body, signal_worker_init_completed_body, signal_worker_exit_completed_body with
  | [a], [b], [c] => String.eqb a "self._workers_time_task_started[worker_id * 3 + 1] = 0" &&
                     String.eqb b "self._workers_time_task_started[worker_id * 3] = 0" &&
                     String.eqb c "self._workers_time_task_started[worker_id * 3 + 2] = 0"
  | _, _, _ => false end.
(* the stamp is cleared in a finally: clause, i.e. also when the function raises *)
Definition run_func_clears_in_finally : bool :=
  let clears (body : list string) (started completed : string) :=
    (index_of started body <? index_of "finally:" body)%nat && (index_of "finally:" body <? index_of completed body)%nat &&
    has completed body in
  clears run_func_body "  self.worker_comms.signal_worker_task_started(self.worker_id)" "  self.worker_comms.signal_worker_task_completed(self.worker_id)" &&
  (let body := run_init_func_body in
   (index_of "    self.worker_comms.signal_worker_init_started(self.worker_id)" body <? index_of "  finally:" body)%nat &&
   (index_of "  finally:" body <? index_of "    self.worker_comms.signal_worker_init_completed(self.worker_id)" body)%nat &&
   has "    self.worker_comms.signal_worker_init_completed(self.worker_id)" body) &&
  (let body := run_exit_func_body in
   (index_of "    self.worker_comms.signal_worker_exit_started(self.worker_id)" body <? index_of "  finally:" body)%nat &&
   (index_of "  finally:" body <? index_of "    self.worker_comms.signal_worker_exit_completed(self.worker_id)" body)%nat &&
   has "    self.worker_comms.signal_worker_exit_completed(self.worker_id)" body).

(* worker_init runs at most once per instance and reports under the INIT slot, worker_exit under the EXIT slot -- on BOTH
   branches (with and without a timeout configured); the done-flag is set on both branches (a top-level statement after
   the if/else); each phase clears ITS OWN stamp *)
Definition init_exit_phases_bracketed : bool :=
  match run_init_func_body with
  | a :: b :: _ => String.eqb a "if self.init_func_completed:" && String.eqb b "  return False"
  | _ => false end &&
  has "    _, _, _, should_shut_down = self._run_safely(_init_func, INIT_FUNC)" run_init_func_body &&
  has "  _, _, _, should_shut_down = self._run_safely(_init_func, INIT_FUNC)" run_init_func_body &&
  has "self.init_func_completed = True" run_init_func_body &&
  negb (has "  self.init_func_completed = True" run_init_func_body) &&
  (index_of "  _, _, _, should_shut_down = self._run_safely(_init_func, INIT_FUNC)" run_init_func_body <?
   index_of "self.init_func_completed = True" run_init_func_body)%nat &&
  has "    results, success, send_results, should_shut_down = self._run_safely(_exit_func, EXIT_FUNC)" run_exit_func_body &&
  has "  results, success, send_results, should_shut_down = self._run_safely(_exit_func, EXIT_FUNC)" run_exit_func_body &&
  negb (existsb (fun l => String.eqb l "    self.worker_comms.signal_worker_task_completed(self.worker_id)") run_exit_func_body) &&
  negb (existsb (fun l => String.eqb l "    self.worker_comms.signal_worker_task_completed(self.worker_id)") run_init_func_body) &&
  match run_init_func_body with
  | _ :: _ :: c :: d :: _ => String.eqb c "self.worker_comms.signal_worker_working_on_job(self.worker_id, INIT_FUNC)" && String.eqb d "self.last_job_id = INIT_FUNC"
  | _ => false end &&
  match run_exit_func_body with
  | c :: d :: _ => String.eqb c "self.worker_comms.signal_worker_working_on_job(self.worker_id, EXIT_FUNC)" && String.eqb d "self.last_job_id = EXIT_FUNC"
  | _ => false end.

Inductive tev := TStart (now : Z) | TDone (now : Z) | TCheck (now : Z).
Definition tstep (t : Z) (started : Z) (e : tev) : Z * option bool :=
  match e with
  | TStart now => ((if started_sets_now then now else started), None)
  | TDone _ => ((if completed_sets_zero then 0 else started), None)
  | TCheck now => (started, Some (has_worker_timed_out started now t))
  end.
Fixpoint checks (t : Z) (started : Z) (l : list tev) : list bool :=
  match l with
  | [] => []
  | e :: r => let '(st', o) := tstep t started e in
              match o with Some b => b :: checks t st' r | None => checks t st' r end
  end.

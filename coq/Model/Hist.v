(* Model/Hist.v -- the pool object BETWEEN map-family calls: which workers exist and what they
   were started with, whether the communication objects still count as initialised, the shared
   ordering flag, the parameters on record.  One call is one atomic operation here (its inside is
   Model/Core.v); a history is a `list hop`.  Every effect below is switched by a fact read off the
   current source text (Gen/GenStruct.v), so the theorems are about the code as it is now. *)
From Coq Require Import List Arith Lia Bool String Ascii.
From Mpv Require Import GenStruct GenParams OrderHist.
Import ListNotations.
Close Scope Z_scope.
Open Scope nat_scope.

(* ---- facts read off pool.py / worker.py ---- *)
Fixpoint follows (a b : string) (l : list string) : bool :=       (* b is the line right after a *)
  match l with
  | x :: ((y :: _) as r) => (String.eqb x a && String.eqb y b) || follows a b r
  | _ => false
  end.
Definition setter_resets (body : list string) (guard : string) : bool := follows guard "  self._worker_comms.reset()" body.
Definition setters_reset_comms : bool :=
  setter_resets pass_on_worker_id_body "if pass_on != self.pool_params.pass_worker_id:" &&
  setter_resets set_shared_objects_body "if shared_objects != self.pool_params.shared_objects:" &&
  setter_resets set_use_worker_state_body "if use_worker_state != self.pool_params.use_worker_state:".
(* a pool whose settings changed restarts its workers for good (keep_alive=False), not with a non-lethal pill *)
Definition changed_settings_restart : bool :=
  follows "if self._workers and (not self._worker_comms.is_initialized()):" "  self.stop_and_join(keep_alive=False)"
          imap_unordered_start.
Definition new_params_shipped : bool :=
  follows "if self._workers and self.map_params != new_map_params:" "  self.map_params = new_map_params" imap_unordered_start &&
  follows "  self.map_params = new_map_params" "  self._worker_comms.add_new_map_params(new_map_params)" imap_unordered_start &&
  has "self.map_params = map_params" handle_new_map_params_body &&
  has "func = self._get_func(self.map_params.func)" handle_new_map_params_body.
Definition fresh_workers_when_none : bool :=
  follows "if not self._workers:" "  self.map_params = new_map_params" imap_unordered_start &&
  follows "  self.map_params = new_map_params" "  self._start_workers()" imap_unordered_start.
(* the worker chooses the ordered / unordered helper for EVERY chunk, from the shared flag *)
Definition helper_chosen_per_chunk : bool := has "        func = self._get_func(self.map_params.func)" worker_run_body.
(* the loop guard and the restart request read the CURRENT parameters of the worker *)
Definition lifespan_read_from_current_params : bool :=
  has "  while self.map_params.worker_lifespan is None or n_tasks_executed < self.map_params.worker_lifespan:" worker_run_body.
Fixpoint index_of' (x : string) (l : list string) : nat :=
  match l with [] => 0 | y :: r => if String.eqb x y then 0 else S (index_of' x r) end.
Fixpoint strip_sp (l : string) : string := match l with String " "%char r => strip_sp r | _ => l end.
Definition ordered_calls_set_and_clear_flag : bool :=
  match map_body, imap_body with
  | m1 :: _, i1 :: _ => String.eqb m1 "self._worker_comms.signal_keep_order()" && String.eqb i1 "self._worker_comms.signal_keep_order()"
  | _, _ => false end &&
  (* ... and clear it in a finally block: also when the call raises or the generator is closed early *)
  follows "finally:" "  self._worker_comms.clear_keep_order()" map_body &&
  follows "finally:" "  self._worker_comms.clear_keep_order()" imap_body.
(* a call that is left through any other exception (generator closed early, input iterable raising)
   shuts its workers down *)
Definition cut_short_terminates : bool :=
  follows "except BaseException:" "  self.terminate()" imap_unordered_handlers &&
  follows "  self.terminate()" "  raise" imap_unordered_handlers && has "self._workers = []" terminate_body.
Definition failure_terminates_and_clears : bool :=
  follows "self.terminate()" "self._worker_comms.clear_keep_order()" handle_exception_body &&
  has "self._workers = []" terminate_body.
(* starting workers resets the result objects of the main process, worker_init and worker_exit *)
Definition start_workers_resets : bool :=
  has "self._cache[MAIN_PROCESS].reset()" start_workers_body && has "self._cache[INIT_FUNC].reset()" start_workers_body &&
  has "self._cache[EXIT_FUNC].reset()" start_workers_body.
(* apply_async touches the pool-side map parameters only when it has to start the workers: running workers (and the
   replacements the restart handler builds from the pool-side copy) keep the parameters of the last map call *)
Definition apply_sets_params_only_when_starting : bool :=
  follows "if not self._workers:" "  self.map_params = WorkerMapParams(func, worker_init, worker_exit, None, False, task_timeout, worker_init_timeout, worker_exit_timeout)" apply_async_body &&
  follows "  self.map_params = WorkerMapParams(func, worker_init, worker_exit, None, False, task_timeout, worker_init_timeout, worker_exit_timeout)" "  self._start_workers()" apply_async_body &&
  (* no other statement of apply_async assigns the pool-side parameters *)
  (List.length (filter (fun l => String.eqb (substring 0 18 (strip_sp l)) "self.map_params = ") apply_async_body) =? 1)%nat.
(* a failure that stops the workers while they serve apply tasks (worker_init / worker_exit raising or timing out) has no map
   call around to clean up after it: the NEXT map call and the NEXT apply_async do, before they look at the workers *)
Definition apply_phase_failure_cleaned_up : bool :=
  follows "if self._workers and self._worker_comms.exception_thrown():" "  self.terminate()" imap_unordered_start &&
  (index_of' "if self._workers and self._worker_comms.exception_thrown():" imap_unordered_start <?
   index_of' "if not self._workers:" imap_unordered_start) &&
  match apply_async_body with
  | a :: b :: c :: _ => String.eqb a "if self._workers and (not self._map_running) and self._worker_comms.exception_thrown():" &&
                        String.eqb b "  self.terminate()" && String.eqb c "if not self._workers:"
  | _ => false end && has "self._workers = []" terminate_body.
(* a worker forgets that it served an apply task before it takes the next task: the flag and the apply function are
   reset at the top of EVERY iteration of its loop (inside the while, before the chunk is looked at) *)
Definition apply_mode_reset_per_task : bool :=
  follows "      apply_func = None" "      is_apply_func = False" worker_run_body &&
  has "      self.is_apply_func = is_apply_func" worker_run_body &&
  has "      self.is_apply_func = False" worker_run_body.
(* the death of an idle worker is reported by exactly one call: the stored error is taken out BEFORE it is raised *)
Definition idle_death_reported_once : bool :=
  follows "if self._idle_worker_death is not None:" "  idle_worker_death, self._idle_worker_death = (self._idle_worker_death, None)"
          imap_unordered_start &&
  follows "  idle_worker_death, self._idle_worker_death = (self._idle_worker_death, None)" "  if self._workers:" imap_unordered_start.
Definition eq_compares_all_fields : bool :=
  forallb (fun f => has f map_params_eq_fields) map_params_fields.

(* ---- the model ---- *)
Record mparams := mkMP { mp_func : nat; mp_init : nat; mp_exit : nat; mp_life : option nat; mp_pbar : bool;
                         mp_tt : option nat; mp_ti : option nat; mp_te : option nat }.
Definition opt_eqb (a b : option nat) : bool :=
  match a, b with Some x, Some y => x =? y | None, None => true | _, _ => false end.
(* WorkerMapParams.__eq__ as generated: all declared fields iff eq_compares_all_fields *)
Definition mp_eqb (a b : mparams) : bool :=
  if eq_compares_all_fields then
    (mp_func a =? mp_func b) && (mp_init a =? mp_init b) && (mp_exit a =? mp_exit b) && opt_eqb (mp_life a) (mp_life b) &&
    Bool.eqb (mp_pbar a) (mp_pbar b) && opt_eqb (mp_tt a) (mp_tt b) && opt_eqb (mp_ti a) (mp_ti b) && opt_eqb (mp_te a) (mp_te b)
  else (mp_func a =? mp_func b).

Definition layout := (bool * nat * bool)%type.        (* pass_worker_id, shared objects (0 = None), use_worker_state *)
Definition layout_eqb (a b : layout) : bool :=
  let '(a1, a2, a3) := a in let '(b1, b2, b3) := b in Bool.eqb a1 b1 && (a2 =? b2) && Bool.eqb a3 b3.

Record hst := mkH {
  alive : bool; gen : nat;                         (* workers exist; generation number of the instances *)
  w_layout : layout; w_params : mparams; w_ordered : bool;   (* what the live workers were started with / last told *)
  initialized : bool; keep_order : bool;
  p_layout : layout; p_keep_alive : bool; p_params : option mparams;
  stale_err : bool                                 (* an error of an EARLIER call is still stored in a permanent result object *)
}.

Inductive outcome := Ok | Fails | FailsPerm | CutShort.
(* Fails: task/init/exit exception, timeout, worker death, interrupt, nested-map misuse (all through _handle_exception);
   FailsPerm: worker_init / worker_exit raised or timed out, or the main process failed (the error is stored in one of the
   three permanent result objects); CutShort: a lazy call whose generator is closed before exhaustion, or whose input iterable raises *)
Inductive hop :=
| HCall (ordered : bool) (mp : mparams) (o : outcome)
| HSetLayout (l : layout) | HSetKeepAlive (b : bool) | HStopAndJoin | HTerminate
| HApply (mp : mparams)                  (* apply_async: mp has no lifespan (the caller cannot give one) *)
| HApplyFails (mp : mparams).            (* ... and the apply phase fails pool-wide: worker_init / worker_exit raises or times out *)

(* what a call that ran to completion used *)
Record obs := mkObs { o_gen : nat; o_reused : bool; o_func : nat; o_ordered : bool; o_life : option nat; o_layout : layout;
                      o_tt : option nat; o_want : mparams; o_want_ordered : bool; o_want_layout : layout }.

(* apply_async on state s *)
Definition happly (s : hst) (mp : mparams) : hst :=
      if alive s then
        (* running workers serve the task; the pool-side copy of the parameters is left alone *)
        (mkH (alive s) (gen s) (w_layout s)
             (if apply_mode_reset_per_task then w_params s else mp)          (* else: the worker goes on calling the apply function *)
             (w_ordered s) (initialized s) (keep_order s) (p_layout s) (p_keep_alive s)
             (if apply_sets_params_only_when_starting then p_params s else Some mp) (stale_err s))
      else
        (mkH true (S (gen s)) (p_layout s) mp false true (keep_order s) (p_layout s) (p_keep_alive s) (Some mp)
             (if start_workers_resets then false else stale_err s)).

Definition hstep (s : hst) (o : hop) : hst * option obs :=
  match o with
  | HSetLayout l =>
      (mkH (alive s) (gen s) (w_layout s) (w_params s) (w_ordered s)
           (if setters_reset_comms && negb (layout_eqb l (p_layout s)) then false else initialized s)
           (keep_order s) l (p_keep_alive s) (p_params s) (stale_err s), None)
  | HSetKeepAlive b =>
      (mkH (alive s) (gen s) (w_layout s) (w_params s) (w_ordered s) (initialized s) (keep_order s) (p_layout s) b (p_params s) (stale_err s), None)
  | HStopAndJoin =>
      (mkH false (gen s) (w_layout s) (w_params s) (w_ordered s) (initialized s) (keep_order s) (p_layout s) (p_keep_alive s)
           (p_params s) (stale_err s), None)
  | HTerminate =>
      (mkH false (gen s) (w_layout s) (w_params s) (w_ordered s) (initialized s) (keep_order s) (p_layout s) (p_keep_alive s)
           (p_params s) (stale_err s), None)
  | HApply mp => (happly s mp, None)
  | HApplyFails mp =>
      (* the workers stop, the error sits in a permanent result object and the exception flag stays set; `alive` is what
         the NEXT call or apply_async finds after its clean-up step *)
      let s1 := happly s mp in
      (mkH (if apply_phase_failure_cleaned_up then false else alive s1) (gen s1) (w_layout s1) (w_params s1) (w_ordered s1)
           (initialized s1) (keep_order s1) (p_layout s1) (p_keep_alive s1) (p_params s1) true, None)
  | HCall ordered mp out =>
      let ko := if ordered && ordered_calls_set_and_clear_flag then true else keep_order s in
      (* settings changed while workers are alive: restart them *)
      let alive1 := if alive s && negb (initialized s) then (if changed_settings_restart then false else p_keep_alive s)
                    else alive s in
      (* live workers get new parameters when they differ *)
      let differs := match p_params s with Some p => negb (mp_eqb p mp) | None => true end in
      let wp1 := if alive1 && differs && new_params_shipped then mp else w_params s in
      let wo1 := if alive1 && differs && new_params_shipped then ko else w_ordered s in
      (* no workers: start fresh ones with the pool's current settings *)
      let fresh := negb alive1 && fresh_workers_when_none in
      let gen2 := if fresh then S (gen s) else gen s in
      let wl2 := if fresh then p_layout s else w_layout s in
      let wp2 := if fresh then mp else wp1 in
      let wo2 := if fresh then ko else wo1 in
      let init2 := if fresh then true else initialized s in
      let stale2 := if fresh && start_workers_resets && idle_death_reported_once then false else stale_err s in
      let used_ordered := if helper_chosen_per_chunk then ko else wo2 in
      let ob := mkObs gen2 (negb fresh) (mp_func wp2) used_ordered
                      (if lifespan_read_from_current_params then mp_life wp2 else mp_life (w_params s)) wl2 (mp_tt wp2)
                      mp ordered (p_layout s) in
      match out with
      | Ok =>
          (mkH (p_keep_alive s) gen2 wl2 wp2 wo2 init2
               (if ordered_calls_set_and_clear_flag then false else ko) (p_layout s) (p_keep_alive s) (Some mp) stale2, Some ob)
      | Fails =>
          (mkH (if failure_terminates_and_clears then false else true) gen2 wl2 wp2 wo2 init2
               (if failure_terminates_and_clears then false else ko) (p_layout s) (p_keep_alive s) (Some mp) stale2, None)
      | FailsPerm =>
          (mkH (if failure_terminates_and_clears then false else true) gen2 wl2 wp2 wo2 init2
               (if failure_terminates_and_clears then false else ko) (p_layout s) (p_keep_alive s) (Some mp) true, None)
      | CutShort =>
          (mkH (if cut_short_terminates then false else true) gen2 wl2 wp2 wo2 init2
               (if ordered_calls_set_and_clear_flag then false else ko) (p_layout s) (p_keep_alive s) (Some mp) stale2, None)
      end
  end.

Fixpoint hrun (s : hst) (h : list hop) : list obs :=
  match h with
  | [] => []
  | o :: r => let '(s', ob) := hstep s o in (match ob with Some x => [x] | None => [] end) ++ hrun s' r
  end.
Fixpoint hstate (s : hst) (h : list hop) : hst :=
  match h with [] => s | o :: r => hstate (fst (hstep s o)) r end.

Definition mp0 : mparams := mkMP 0 0 0 None false None None None.
Definition hinit (l : layout) (keep : bool) : hst := mkH false 0 l mp0 false false false l keep None false.

(* does a call that fails through a permanent result object (init / exit / main) surface ITS OWN
   error?  It does unless an error of an earlier call is still stored at the moment it fails. *)
Definition surfaces_own (s : hst) (o : hop) : option bool :=
  match o with
  | HCall ordered mp FailsPerm =>
      let alive1 := if alive s && negb (initialized s) then (if changed_settings_restart then false else p_keep_alive s) else alive s in
      let fresh := negb alive1 && fresh_workers_when_none in
      Some (negb (if fresh && start_workers_resets then false else stale_err s))
  | _ => None
  end.
Fixpoint hfails (s : hst) (h : list hop) : list bool :=
  match h with
  | [] => []
  | o :: r => (match surfaces_own s o with Some b => [b] | None => [] end) ++ hfails (fst (hstep s o)) r
  end.

(* Model/Observe.v -- what the observers report: (1) worker insights: the per-worker completed-task
   counters over the Core execution log, the top-5 selection and the five ratios of get_insights;
   (2) the progress bar: worker-side batching (comms.task_completed_progress_bar), the shared
   per-worker counters and the handler thread that turns their sum into bar updates.  Which line
   does what is read off the source (Gen/GenObserve.v). *)
From Coq Require Import List Arith Lia Bool String ZArith QArith.
From Mpv Require Import GenObserve OrderHist Core Apply.
Import ListNotations.
Close Scope Q_scope.
Close Scope Z_scope.
Open Scope nat_scope.

(* ---- facts read off the source ---- *)
Definition counter_incremented_once_per_task : bool :=
  match run_func_inner_body with
  | [a; b; c; d] => String.eqb b "  _results = func(*args) if self.is_apply_func else func(args)" &&
                    String.eqb c "self.worker_insights.update_n_completed_tasks(self.worker_id)" && String.eqb d "return _results"
  | _ => false end &&
  match update_n_completed_tasks_body with
  | [a; b] => String.eqb a "if self.insights_enabled:" && String.eqb b "  self.worker_n_completed_tasks[worker_id] += 1"
  | _ => false end.
Definition counters_reset_only_when_workers_start : bool :=
  has "self._worker_insights.reset_insights(self.pool_params.enable_insights)" start_workers_body_obs &&
  has "  self.worker_n_completed_tasks = self.ctx.Array(ctypes.c_int, self.n_jobs, lock=False)" reset_insights_body.
Definition top5_selection_as_modelled : bool :=
  has "sorted_idx = argsort(self.max_task_duration)[-5:][::-1]" get_insights_body &&
  has "  if self.max_task_duration[idx] == 0:" get_insights_body && has "    break" get_insights_body &&
  has "  if self.max_task_args[idx] == '':" get_insights_body && has "    continue" get_insights_body &&
  has "  insights[f'{part}_ratio'] = total / (total_time + 1e-08)" get_insights_body &&
  has "total_time = total_start_up_time + total_init_time + total_waiting_time + total_working_time + total_exit_time" get_insights_body &&
  has "if not self.insights_enabled:" get_insights_body && has "  return {}" get_insights_body.
Definition batching_as_modelled : bool :=
  match task_completed_progress_bar_body with
  | [a; b; c; d; e; f; g; h; i] =>
      String.eqb a "if not force_update:" && String.eqb b "  progress_bar_n_tasks_completed += 1" &&
      String.eqb d "if force_update or now - progress_bar_last_updated > self.progress_bar_update_interval:" &&
      String.eqb f "    self._tasks_completed_array[worker_id] += progress_bar_n_tasks_completed" &&
      String.eqb h "  progress_bar_n_tasks_completed = 0" &&
      String.eqb i "return (progress_bar_last_updated, progress_bar_n_tasks_completed)"
  | _ => false end.
Definition handler_updates_by_difference : bool :=
  has "  tasks_completed = self.worker_comms.get_tasks_completed_progress_bar()" progress_bar_handler_body &&
  has "  progress_bar.update(tasks_completed - progress_bar.n)" progress_bar_handler_body &&
  has "  if tasks_completed > 0 and tasks_completed == progress_bar.n and (not total_updated):" progress_bar_handler_body &&
  has "  total_updated = self.total_updated.is_set()" progress_bar_handler_body &&
  has "    progress_bar.update_total(self.total)" progress_bar_handler_body &&
  has "  if progress_bar.n == progress_bar.total:" progress_bar_handler_body &&
  has "    self.worker_comms.signal_progress_bar_complete()" progress_bar_handler_body &&
  has "  n_tasks_completed = sum(self._tasks_completed_array)" get_tasks_completed_progress_bar_body.
Definition workers_flush_before_leaving : bool :=
  has "self._update_progress_bar(force_update=True)" handle_poison_pill_body &&
  has "  self._update_progress_bar(force_update=True)" worker_run_body &&
  has "        if not is_apply_func:" worker_run_body && has "          self._update_progress_bar()" worker_run_body.
(* a call starts from the initial state of the Progress model (counters 0, no completion / shutdown signal pending)
   because reset_progress, run at the end of every call, zeroes the counters and clears both flags *)
Definition counters_zeroed_per_call : bool :=
  has "  self._tasks_completed_array[:] = [0] * self.n_jobs" reset_progress_body_obs &&
  has "self.clear_progress_bar_shutdown()" reset_progress_body_obs && has "self.clear_progress_bar_complete()" reset_progress_body_obs.

(* ---- (1a) insights counters over the Core log ---- *)
Definition is_task (e : event) : bool := match ev_kind e with KTask _ => true | _ => false end.
Definition wtasks (w : nat) (l : list event) : nat := List.length (filter (fun e => is_task e && (ev_w e =? w)) l).
Definition ntasks (l : list event) : nat := List.length (filter is_task l).
(* worker_n_completed_tasks after the log l, with insights enabled *)
Definition insight_counts (n_jobs : nat) (l : list event) : list nat :=
  if counter_incremented_once_per_task then map (fun w => wtasks w l) (seq 0 n_jobs) else [].

(* ---- (1b) get_insights: top five and ratios ---- *)
Open Scope Z_scope.
Definition lexle (a b : Z * nat) : bool := (fst a <? fst b) || ((fst a =? fst b) && (snd a <=? snd b)%nat).
Fixpoint ins (x : Z * nat) (l : list (Z * nat)) : list (Z * nat) :=
  match l with [] => [x] | y :: r => if lexle x y then x :: y :: r else y :: ins x r end.
Definition isort (l : list (Z * nat)) : list (Z * nat) := fold_right ins [] l.
Definition argsort (durs : list Z) : list nat := map snd (isort (combine durs (seq 0 (List.length durs)))).
Definition last5 {A} (l : list A) : list A := skipn (List.length l - 5) l.
Fixpoint pick (durs : list Z) (args : list string) (idxs : list nat) : list (Z * string) :=
  match idxs with
  | [] => []
  | i :: r => let d := nth i durs 0 in
              if d =? 0 then []                                   (* break *)
              else let a := nth i args EmptyString in
                   if String.eqb a EmptyString then pick durs args r           (* continue *)
                   else (d, a) :: pick durs args r
  end.
Definition top5 (durs : list Z) (args : list string) : list (Z * string) :=
  if top5_selection_as_modelled then pick durs args (rev (last5 (argsort durs))) else [].
Close Scope Z_scope.

Open Scope Q_scope.
Definition eps : Q := 1 # 100000000.
Definition ratio (x total : Q) : Q := x / (total + eps).
Close Scope Q_scope.

(* ---- (2) progress bar ---- *)
(* comms.task_completed_progress_bar: (local count, shared slot) -> (local count, shared slot);
   `due` = more than the update interval has passed since this worker's last flush *)
Definition tcpb (force due : bool) (loc arrw : nat) : nat * nat :=
  if batching_as_modelled then
    let loc1 := if force then loc else S loc in
    if force || due then (0, arrw + loc1) else (loc1, arrw)
  else (loc, arrw).

(* `total` is the true number of work items; `tshown` the total the bar displays (None while the input's length is
   unknown); `upd` = main has announced the total and the handler has not looked yet (total_updated);
   `complete` = the handler has signalled that the bar is complete (what main and the workers wait for) *)
Record pst := mkP { arr : list nat; loc : list nat; shown : nat; total : nat; tshown : option nat; upd : bool;
                    complete : bool; pexec : nat }.
Inductive plabel := PTask (w : nat) (due : bool) | PForce (w : nat) | PSetTotal | PHandler.
Definition opt_eqb (o : option nat) (n : nat) : bool := match o with Some t => t =? n | None => false end.
Definition pstep (s : pst) (a : plabel) : option pst :=
  match a with
  | PTask w due =>
      (* a task is only executed while not all tasks are executed (C02: never more than once) *)
      if pexec s <? total s then
        match nth_error (loc s) w, nth_error (arr s) w with
        | Some l, Some x => let '(l', x') := tcpb false due l x in
                            Some (mkP (Apply.upd (arr s) w x') (Apply.upd (loc s) w l') (shown s) (total s) (tshown s) (upd s)
                                      (complete s) (S (pexec s)))
        | _, _ => None
        end
      else None
  | PForce w =>
      match nth_error (loc s) w, nth_error (arr s) w with
      | Some l, Some x => let '(l', x') := tcpb true false l x in
                          Some (mkP (Apply.upd (arr s) w x') (Apply.upd (loc s) w l') (shown s) (total s) (tshown s) (upd s)
                                    (complete s) (pexec s))
      | _, _ => None
      end
  | PSetTotal =>                              (* main: the input is exhausted, n tasks were dispatched: set_new_total(n) *)
      match tshown s with
      | None => if upd s then None else Some (mkP (arr s) (loc s) (shown s) (total s) (tshown s) true (complete s) (pexec s))
      | Some _ => None
      end
  | PHandler =>
      if handler_updates_by_difference then
        let tc := list_sum (arr s) in
        let u := upd s in
        let ts := if u then Some (total s) else tshown s in          (* progress_bar.update_total(self.total) *)
        if (0 <? tc) && (tc =? shown s) && negb u
        then Some (mkP (arr s) (loc s) (shown s) (total s) ts false (complete s) (pexec s))
        else let sh := shown s + (tc - shown s) in
             Some (mkP (arr s) (loc s) sh (total s) ts false (complete s || opt_eqb ts sh) (pexec s))
      else None
  end.
Fixpoint prun (s : pst) (l : list plabel) : pst :=
  match l with [] => s | a :: r => match pstep s a with Some s' => prun s' r | None => prun s r end end.
Definition pinit (n_jobs n : nat) (sized : bool) : pst :=
  mkP (repeat 0 n_jobs) (repeat 0 n_jobs) 0 n (if sized then Some n else None) false false 0.

(* Model/OrderHist.v -- the pool between calls, as far as task ordering is concerned: the
   ordering flag the task distribution reads and the chunk counter.  What the setter assigns
   and what the end of a call resets are read off the SOURCE (structural kernels in
   Gen/GenStruct.v), so the theorems are about the code as it currently is. *)
From Coq Require Import List Arith Lia Bool String.
From Mpv Require Import GenStruct.
Import ListNotations.
Close Scope Z_scope.
Open Scope nat_scope.

Definition has (x : string) (l : list string) : bool := existsb (String.eqb x) l.

(* facts read off the source *)
Definition setter_reaches_comms : bool := has "self._worker_comms.order_tasks = order_tasks" set_order_tasks_body.
Definition call_end_resets_counter : bool :=
  has "self._worker_comms.reset_progress()" imap_unordered_finally && has "self._task_idx = 0" reset_progress_body.
Definition call_end_clears_last_completed : bool :=
  has "self._worker_comms.reset_progress()" imap_unordered_finally &&
  has "self._last_completed_task_worker_id.clear()" reset_progress_body.
Definition fresh_start_resets_counter : bool :=
  has "self.reset_progress()" init_comms_tail && has "self._task_idx = 0" reset_progress_body.

(* a map call also resets the counter when it STARTS (after the workers are ensured, before the first chunk): tasks
   submitted with apply_async since the last call took numbers too *)
Definition call_start_resets_counter : bool :=
  has "self._worker_comms.reset_progress()" imap_unordered_start && has "self._task_idx = 0" reset_progress_body.
(* apply tasks are routed by the same function, hence consume numbers while ordering is on or no result came back yet *)

Record ost := mkOst { comms_order : bool; task_idx : nat; wanted : bool (* ghost: what the user last asked for *) }.
Inductive oop := SetOrder (b : bool) | Call (nchunks : nat) | ApplyTasks (k : nat).

(* observation of a call: the counter value its first chunk sees, the flag the distribution uses,
   and what the user had asked for *)
Definition ostep (s : ost) (o : oop) : ost * option (nat * bool * bool) :=
  match o with
  | SetOrder b => (mkOst (if setter_reaches_comms then b else comms_order s) (task_idx s) b, None)
  | Call k => let start := if call_start_resets_counter then 0 else task_idx s in
              (mkOst (comms_order s) (if call_end_resets_counter then 0 else start + k) (wanted s),
               Some (start, comms_order s, wanted s))
  | ApplyTasks k => (mkOst (comms_order s) (task_idx s + k) (wanted s), None)
  end.

Fixpoint orun (s : ost) (h : list oop) : list (nat * bool * bool) :=
  match h with
  | [] => []
  | o :: r => let '(s', ob) := ostep s o in (match ob with Some x => [x] | None => [] end) ++ orun s' r
  end.

Definition oinit (ctor_order : bool) : ost := mkOst ctor_order (if fresh_start_resets_counter then 0 else 1) ctor_order.

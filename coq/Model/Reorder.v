(* Model/Reorder.v -- the reorder buffer of WorkerPool.imap: results arrive from imap_unordered tagged with
   their input index, in any order; imap yields them in index order, holding early arrivals in a dict.  The
   loop is read off pool.imap (structural kernel imap_body). *)
From Coq Require Import List Arith Lia Bool String.
From Mpv Require Import GenStruct OrderHist.
Import ListNotations.
Open Scope nat_scope.

Definition imap_loop_as_modelled : bool :=
  has "  next_result_idx = 0" imap_body && has "  tmp_results = {}" imap_body &&
  has "    while True:" imap_body && has "      if next_result_idx in tmp_results:" imap_body &&
  has "        yield tmp_results.pop(next_result_idx)" imap_body && has "        next_result_idx += 1" imap_body &&
  has "    if result_idx == next_result_idx:" imap_body && has "      yield result" imap_body &&
  has "      tmp_results[result_idx] = result" imap_body &&
  has "  for result_idx in sorted(tmp_results.keys()):" imap_body && has "    yield tmp_results.pop(result_idx)" imap_body.

Section Reorder.
Variable A : Type.
Definition buf := list (nat * A).

Fixpoint pop (k : nat) (t : buf) : option (A * buf) :=
  match t with
  | [] => None
  | (j, v) :: r => if j =? k then Some (v, r)
                   else match pop k r with Some (x, r') => Some (x, (j, v) :: r') | None => None end
  end.

(* while next_result_idx in tmp_results: yield tmp_results.pop(next_result_idx); next_result_idx += 1 *)
Fixpoint drain (fuel next : nat) (t : buf) : list A * nat * buf :=
  match fuel with
  | 0 => ([], next, t)
  | S f => match pop next t with
           | Some (v, t') => let '(out, n', t'') := drain f (S next) t' in (v :: out, n', t'')
           | None => ([], next, t)
           end
  end.

Definition arrive (st : nat * buf) (a : nat * A) : list A * (nat * buf) :=
  let '(next, t) := st in
  let '(out, next1, t1) := drain (List.length t) next t in
  if fst a =? next1 then (out ++ [snd a], (S next1, t1)) else (out, (next1, a :: t1)).

Fixpoint run_arrivals (st : nat * buf) (arr : list (nat * A)) : list A * (nat * buf) :=
  match arr with
  | [] => ([], st)
  | a :: r => let '(o1, st1) := arrive st a in let '(o2, st2) := run_arrivals st1 r in (o1 ++ o2, st2)
  end.

(* sorted(tmp_results.keys()) *)
Fixpoint kins (x : nat * A) (l : buf) : buf :=
  match l with [] => [x] | y :: r => if fst x <=? fst y then x :: y :: r else y :: kins x r end.
Definition ksort (l : buf) : buf := fold_right kins [] l.

Definition imap_yields (arr : list (nat * A)) : list A :=
  if imap_loop_as_modelled then
    let '(out, (_, t)) := run_arrivals (0, []) arr in out ++ map snd (ksort t)
  else [].
End Reorder.

(* Model/Routes.v -- Python's try/except propagation over the try structure of WorkerPool.imap_unordered
   (positions and handlers generated from the source, Gen/GenObserve.v): what an exception of class
   KeyboardInterrupt raised AT a statement -- or inside anything the statement calls -- passes through before it
   leaves the generator.  C17 / C05 use it to justify the ledger step "an interrupted call is clean": every
   statement that can run while workers exist lies under a handler that shuts the pool down. *)
From Coq Require Import List Arith Bool String Ascii.
From Mpv Require Import GenStruct GenObserve OrderHist.
Import ListNotations.
Open Scope nat_scope.

(* `except <cls>:` catches a KeyboardInterrupt iff cls is KeyboardInterrupt, BaseException or absent (bare except);
   a tuple or any other class (Exception, queue.Empty, StopIteration, ...) does not *)
Definition catches_interrupt (cls : string) : bool :=
  String.eqb cls "KeyboardInterrupt" || String.eqb cls "BaseException" || String.eqb cls "".
Definition matching (hs : list (string * list string)) : option (list string) :=
  match filter (fun h => catches_interrupt (fst h)) hs with h :: _ => Some (snd h) | [] => None end.

Fixpoint strip (l : string) : string := match l with String " " r => strip r | _ => l end.
Definition indented (l : string) : bool := match l with String " " _ => true | _ => false end.
Definition is_shutdown (l : string) : bool := String.eqb l "self.terminate()" || String.eqb l "self._handle_exception()".
Definition is_raise (l : string) : bool := String.eqb l "raise" || String.eqb l "raise exception".

(* running a handler body; `outer` = what happens to an exception that leaves this handler.  True iff on EVERY path
   the pool is shut down (by an unconditional top-level shutdown statement of the handler, or further out) before the
   exception leaves the function.  A conditional (indented) shutdown does not count; a conditional raise forks; falling
   off the end swallows the interrupt without a shutdown. *)
Fixpoint hrun (body : list string) (outer : bool) : bool :=
  match body with
  | [] => false
  | l :: rest =>
      if indented l then (if is_raise (strip l) then outer && hrun rest outer else hrun rest outer)
      else if is_shutdown l then true
      else if is_raise l then outer
      else hrun rest outer
  end.

(* try blocks whose BODY encloses a position, innermost first (handlers / else / finally of a block are not covered
   by that block's own handlers) *)
Fixpoint enclosing (path : list ctx) (acc : list nat) : list nat :=
  match path with
  | [] => acc
  | CTryBody i :: r => enclosing r (i :: acc)
  | _ :: r => enclosing r acc
  end.

Fixpoint route (tries : list (list (string * list string))) (encl : list nat) : bool :=
  match encl with
  | [] => false                              (* leaves the function with nothing shut down *)
  | t :: rest =>
      match matching (nth t tries []) with
      | None => route tries rest
      | Some body => hrun body (route tries rest)
      end
  end.

Definition shut_down_before_leaving (p : string * list ctx) : bool := route imap_unordered_tries (enclosing (snd p) []).

(* positions from which workers can be alive: everything inside the outermost try body *)
Definition in_outer_try (p : string * list ctx) : bool :=
  match snd p with CTryBody 0 :: _ => true | _ => false end.
Definition starts_workers (p : string * list ctx) : bool :=
  String.eqb (fst p) "self._start_workers()" || String.eqb (fst p) "self.stop_and_join(keep_alive=False)" ||
  String.eqb (fst p) "self.stop_and_join(keep_alive=self.pool_params.keep_alive)".

(* ---- facts (decided by computation over the generated structure: the domain is the code itself) ---- *)
(* every statement inside the outer try is routed through a shutdown ... *)
Definition every_protected_position_shuts_down : bool :=
  forallb (fun p => negb (in_outer_try p) || shut_down_before_leaving p) imap_unordered_positions.
(* ... workers are only started / joined from there ... *)
Definition workers_only_touched_under_protection : bool :=
  forallb (fun p => negb (starts_workers p) || in_outer_try p) imap_unordered_positions &&
  existsb starts_workers imap_unordered_positions.
(* ... and the two shutdown entry points do shut down: _handle_exception calls terminate() unconditionally before it
   raises *)
Definition handle_exception_shuts_down : bool :=
  hrun handle_exception_body false.
(* the positions NOT protected (prologue before any worker exists, the handlers themselves, the finally clean-up):
   exported so that the check can list them in its evidence *)
Definition unprotected_positions : list string :=
  map fst (filter (fun p => negb (in_outer_try p && shut_down_before_leaving p)) imap_unordered_positions).

(* Model/Signals.v -- (1) the two SIGINT context managers of mpire/signal.py as operations on the process's
   handler slot, and programs of nested `with` blocks interleaved with signal arrivals and exceptions;
   (2) the shutdown ledger of a pool: which of its workers / helper threads exist after which operation.
   What each method does is read off the source (Gen/GenObserve.v). *)
From Coq Require Import List Arith Lia Bool String.
From Mpv Require Import GenStruct GenObserve OrderHist Routes.
Import ListNotations.
Open Scope nat_scope.

Fixpoint follows_str (a b : string) (l : list string) : bool :=
  match l with
  | x :: ((y :: _) as r) => (String.eqb x a && String.eqb y b) || follows_str a b r
  | _ => false
  end.
(* ---- facts ---- *)
Definition delayed_saves_and_restores : bool :=
  match delayed_enter_body, delayed_exit_body with
  | [a; b; c], [d; e; f; g] =>
      String.eqb a "if current_thread() == main_thread():" && String.eqb b "  self.signal_received = False" &&
      String.eqb c "  self.old_handler = signal_(SIGINT, self.handler)" &&
      String.eqb d "if current_thread() == main_thread():" && String.eqb e "  signal_(SIGINT, self.old_handler)" &&
      String.eqb f "  if self.signal_received:" && String.eqb g "    self.old_handler(*self.signal_received)"
  | _, _ => false end &&
  match delayed_handler_body with [a] => String.eqb a "self.signal_received = (sig, frame)" | _ => false end.
Definition disable_saves_and_restores : bool :=
  match disable_enter_body, disable_exit_body, ignore_keyboard_interrupt_body with
  | [a; b; c], [d; e], [f] =>
      (* saved and restored under the SAME condition (main thread), whatever the saved handler is: SIG_DFL and SIG_IGN are
         falsy / special values, a guard on the saved value would skip the restore for them *)
      String.eqb a "if current_thread() == main_thread():" && String.eqb d "if current_thread() == main_thread():" &&
      String.eqb b "  self._handler = getsignal(SIGINT)" && String.eqb c "  ignore_keyboard_interrupt()" &&
      String.eqb e "  signal_(SIGINT, self._handler)" && String.eqb f "signal_(SIGINT, SIG_IGN)"
  | _, _, _ => false end.
Definition workers_ignore_sigint : bool := has "  signal.signal(signal.SIGINT, signal.SIG_IGN)" set_signal_handlers_body.
Definition terminate_clears_everything : bool :=
  has "self._stop_handler_threads()" terminate_body_obs && has "self._workers = []" terminate_body_obs &&
  has "  self._stop_handler_threads()" terminate_body_obs &&           (* also when no worker is left *)
  has "for t in threads:" terminate_body_obs && has "  t.join()" terminate_body_obs &&
  match pool_exit_body with [a] => String.eqb a "self.terminate()" | _ => false end.
Definition stop_handler_threads_joins_all_four : bool :=
  has "  self._results_handler_thread.join()" stop_handler_threads_body && has "  self._restart_handler_thread.join()" stop_handler_threads_body &&
  has "  self._timeout_handler_thread.join()" stop_handler_threads_body && has "  self._unexpected_death_handler_thread.join()" stop_handler_threads_body.
(* stop_and_join(keep_alive=False) -- the explicit call, whatever the pool's own keep_alive setting -- stops the handler threads *)
Definition stop_and_join_obeys_its_argument : bool :=
  follows_str "  if not keep_alive:" "    self._stop_handler_threads()" stop_and_join_body_obs.
(* the progress-bar handler thread is created, started AND waited for with SIGINT ignored: an interrupt cannot land
   between the start of the (non-daemon) thread and the moment the handler object is bound to the pool *)
Definition progress_bar_thread_started_under_mask : bool :=
  match progress_bar_enter_body with
  | [a; b; c; d; e; f] => String.eqb b "  with DisableKeyboardInterruptSignal():" && String.eqb d "    self.thread.start()" &&
                          String.eqb e "    self.thread_started.wait()" && String.eqb f "return self"
  | _ => false end.
(* ... and so is the process behind get_insights(): a SyncManager server started under the same mask (an interrupt in the
   middle of its start-up would leave a server process behind that nobody owns) *)
Definition insights_manager_started_under_mask : bool :=
  follows_str "  with DisableKeyboardInterruptSignal():" "    self.insights_manager = NonPickledSyncManager(self.use_dill)" reset_insights_body &&
  follows_str "    self.insights_manager = NonPickledSyncManager(self.use_dill)" "    self.insights_manager.start()" reset_insights_body.
Definition map_call_terminates_on_any_exception : bool :=
  has "except BaseException:" imap_unordered_body_obs && has "  self.terminate()" imap_unordered_body_obs &&
  has "    except BaseException:" imap_unordered_body_obs && has "      self.terminate()" imap_unordered_body_obs &&
  has "    except KeyboardInterrupt:" imap_unordered_body_obs.

(* ---- (1) handler slot ---- *)
Inductive handler := HUser (id : nat)          (* whatever was installed before: default_int_handler or the user's own *)
                   | HIgnore | HDelay (level : nat).
(* a program run by the main thread: signal arrivals, nested with-blocks of the two managers, and points where an
   unrelated exception is raised *)
Inductive prog :=
| PEnd
| PSig (k : prog)                         (* SIGINT arrives here *)
| PRaise                                  (* some exception propagates from here *)
| PDelayed (body k : prog)                (* with DelayedKeyboardInterrupt(): body;  then k *)
| PDisable (body k : prog).               (* with DisableKeyboardInterruptSignal(): body;  then k *)

Record sres := mkS { hnd : handler; spend : list nat;        (* pending flag per active DelayedKeyboardInterrupt level *)
                     raised : bool;                          (* an exception (KeyboardInterrupt or other) is propagating *)
                     delivered : nat; dropped : nat }.       (* signals that reached the user's handler / were ignored *)

(* what a SIGINT does under handler h; returns (raised?, delivered, dropped, pend') *)
Definition on_signal (h : handler) (pend : list nat) : bool * nat * nat * list nat :=
  match h with
  | HUser _ => (true, 1, 0, pend)            (* the user's handler runs: KeyboardInterrupt for the default one *)
  | HIgnore => (false, 0, 1, pend)
  | HDelay l => (false, 0, 0, l :: pend)     (* recorded, delivered when the block is left *)
  end.

Fixpoint exec (fuel : nat) (p : prog) (h : handler) (pend : list nat) (lvl : nat) : sres :=
  match fuel with 0 => mkS h pend false 0 0 | S fuel =>
  match p with
  | PEnd => mkS h pend false 0 0
  | PRaise => mkS h pend true 0 0
  | PSig k =>
      let '(r, d, x, pend') := on_signal h pend in
      if r then mkS h pend' true d x
      else let s := exec fuel k h pend' lvl in mkS (hnd s) (spend s) (raised s) (d + delivered s) (x + dropped s)
  | PDelayed body k =>
      if delayed_saves_and_restores then
        let old := h in
        let s := exec fuel body (HDelay lvl) pend (S lvl) in
        (* __exit__ runs whether or not the body raised: restore, then hand a recorded signal to the old handler *)
        let got := existsb (Nat.eqb lvl) (spend s) in
        let pend' := filter (fun l => negb (l =? lvl)) (spend s) in
        if got then
          let '(r, d, x, pend'') := on_signal old pend' in
          if raised s || r then mkS old pend'' true (delivered s + d) (dropped s + x)
          else let s2 := exec fuel k old pend'' lvl in
               mkS (hnd s2) (spend s2) (raised s2) (delivered s + d + delivered s2) (dropped s + x + dropped s2)
        else if raised s then mkS old pend' true (delivered s) (dropped s)
        else let s2 := exec fuel k old pend' lvl in
             mkS (hnd s2) (spend s2) (raised s2) (delivered s + delivered s2) (dropped s + dropped s2)
      else mkS h pend false 0 0
  | PDisable body k =>
      if disable_saves_and_restores then
        let old := h in
        let s := exec fuel body HIgnore pend lvl in
        if raised s then mkS old (spend s) true (delivered s) (dropped s)
        else let s2 := exec fuel k old (spend s) lvl in
             mkS (hnd s2) (spend s2) (raised s2) (delivered s + delivered s2) (dropped s + dropped s2)
      else mkS h pend false 0 0
  end end.

Fixpoint size (p : prog) : nat :=
  match p with PEnd | PRaise => 1 | PSig k => S (size k) | PDelayed b k | PDisable b k => S (size b + size k) end.
Fixpoint nsig (p : prog) : nat :=
  match p with PEnd | PRaise => 0 | PSig k => S (nsig k) | PDelayed b k | PDisable b k => nsig b + nsig k end.

(* ---- (2) shutdown ledger ---- *)
Record ledger := mkL { lworkers : nat; lthreads : nat; lstarted : bool }.     (* live workers, live helper threads *)
Inductive pop := OStart (n : nat) | OTerminate | OStopJoin (keep_alive : bool) | OExit | OCallFails | OCallInterrupted.
Definition lstep (l : ledger) (o : pop) : ledger :=
  match o with
  | OStart n => if lstarted l then l else mkL n 4 true
  | OTerminate | OExit =>
      if terminate_clears_everything && stop_handler_threads_joins_all_four then mkL 0 0 false else l
  | OStopJoin ka => if ka then l else if stop_handler_threads_joins_all_four && stop_and_join_obeys_its_argument then mkL 0 0 false else l
  | OCallFails | OCallInterrupted =>
      (* a map call that raises -- a user exception, a timeout, a dead worker, KeyboardInterrupt at any point -- goes
         through terminate() before the exception leaves the call *)
      if map_call_terminates_on_any_exception && terminate_clears_everything && stop_handler_threads_joins_all_four &&
         progress_bar_thread_started_under_mask && insights_manager_started_under_mask &&
         (* Routes.v: every statement of the call from which a worker can be alive is routed through a handler that
            shuts the pool down; workers are started / joined only from such statements *)
         every_protected_position_shuts_down && workers_only_touched_under_protection && handle_exception_shuts_down
      then mkL 0 0 false else l
  end.

(* Proofs/ApplyProofs.v -- for EVERY interleaving of submissions, worker steps, results-handler steps
   and timeout-handler steps: a ready job carries the value (or exception) of its own function,
   exactly one of callback / error_callback has been invoked, exactly once, with that value; a
   failing or overrunning task never stops the pool; when nothing can move any more every job is
   ready. *)
From Coq Require Import List Arith Lia Bool ZArith String.
From Mpv Require Import NumOps GenAsync GenStruct OrderHist Apply.
Import ListNotations.
Close Scope Z_scope.
Open Scope nat_scope.

Lemma failure_returned_as_result_spec : failure_returned_as_result = true. Proof. vm_compute. reflexivity. Qed.
Lemma death_in_apply_restarts_worker_spec : death_in_apply_restarts_worker = true. Proof. vm_compute. reflexivity. Qed.
Lemma timeout_interrupts_spec : timeout_interrupts_before_it_sets = true. Proof. vm_compute. reflexivity. Qed.
Lemma interrupted_task_sends_nothing_spec : interrupted_task_sends_nothing = true. Proof. vm_compute. reflexivity. Qed.

(* AsyncResult._set, characterised *)
Lemma async_set_spec cb ecb ok v su va re ca c e :
  async_set cb ecb true ok v su va re ca c e =
  (tt, (Some ok, v, true, false, (if cb && ok then c ++ [v] else c), (if ecb && negb ok then e ++ [v] else e))).
Proof. unfold async_set. destruct cb, ecb, ok; reflexivity. Qed.

(* what the user function would give *)
Definition expected (o : oc) : bool * Z :=
  match o with OOk v => (true, v) | ORaise e => (false, e) | OBlock => (false, TIMEOUT) | ODie => (false, DIED) end.

Definition job_ok (j : job) : Prop :=
  (* before it is set: not ready, still in the cache, no callback invoked *)
  (j_ready j = false -> j_cache j = true /\ j_cb j = [] /\ j_ecb j = [] /\ j_succ j = None) /\
  (* once set: ready, removed from the cache, value/exception of ITS OWN function, and exactly one
     of the two callbacks invoked exactly once with that value (when given) *)
  (j_ready j = true ->
     j_cache j = false /\ j_succ j = Some (fst (expected (j_oc j))) /\ j_val j = snd (expected (j_oc j)) /\
     j_cb j = (if fst (j_cbs j) && fst (expected (j_oc j)) then [j_val j] else []) /\
     j_ecb j = (if snd (j_cbs j) && negb (fst (expected (j_oc j))) then [j_val j] else [])) /\
  (* a result in flight is the function's own *)
  (match j_phase j with JSent ok v => (ok, v) = expected (j_oc j) /\ j_ready j = false | JGone => j_ready j = true
                   | JDead => j_ready j = false /\ j_oc j = ODie
                   | _ => j_ready j = false end).

Definition AInv (s : ast) : Prop := exn s = false /\ Forall job_ok (jobs s).

Lemma firstn_In {A} (n : nat) (l : list A) x : In x (firstn n l) -> In x l.
Proof. revert l; induction n as [|n IH]; intros [|a l] H; cbn in *; try contradiction. destruct H; [left; assumption|right; apply IH; assumption]. Qed.
Lemma skipn_In {A} (n : nat) (l : list A) x : In x (skipn n l) -> In x l.
Proof. revert l; induction n as [|n IH]; intros [|a l] H; cbn in *; try contradiction; try assumption. right. apply IH. assumption. Qed.

Lemma Forall_upd {A} (P : A -> Prop) l i x : Forall P l -> P x -> Forall P (upd l i x).
Proof.
  intros Hl Hx. unfold upd. apply Forall_app. split.
  - apply Forall_forall. intros y Hy. rewrite Forall_forall in Hl. apply Hl. eapply firstn_In. eauto.
  - destruct (skipn i l) as [|a t] eqn:E; [constructor|]. constructor; [assumption|].
    apply Forall_forall. intros y Hy. rewrite Forall_forall in Hl. apply Hl.
    eapply (skipn_In i). rewrite E. right. assumption.
Qed.

Lemma astep_AInv s a s' : AInv s -> astep s a = Some s' -> AInv s'.
Proof.
  intros [He Hj] Hs. destruct a as [w o to cb ecb|i|i|i|i]; cbn [astep] in Hs.
  - inversion Hs; subst s'; clear Hs. split; [assumption|]. cbn. apply Forall_app. split; [assumption|].
    constructor; [|constructor]. unfold job_ok; cbn. repeat split; auto; discriminate.
  - destruct (nth_error (jobs s) i) as [j|] eqn:Hn; [|discriminate].
    assert (Hjo : job_ok j). { rewrite Forall_forall in Hj. apply Hj. eapply nth_error_In; eauto. }
    destruct Hjo as (H1 & H2 & H3).
    destruct (j_phase j) eqn:Hp; try discriminate.
    + destruct (may_start _ _ _); inversion Hs; subst s'; clear Hs. split; [assumption|]. cbn.
      apply Forall_upd; [assumption|]. unfold job_ok, with_phase; cbn. repeat split; auto; try (apply H1; assumption); try (apply H2; assumption).
    + rewrite failure_returned_as_result_spec in Hs.
      destruct (j_oc j) eqn:Ho; inversion Hs; subst s'; clear Hs; (split; [assumption|]); cbn;
      (apply Forall_upd; [assumption|]); unfold job_ok, with_phase; cbn; rewrite ?Ho; cbn;
      repeat split; auto; try (apply H1; assumption); try (apply H2; assumption).
  - destruct (nth_error (jobs s) i) as [j|] eqn:Hn; [|discriminate].
    assert (Hjo : job_ok j). { rewrite Forall_forall in Hj. apply Hj. eapply nth_error_In; eauto. }
    destruct Hjo as (H1 & H2 & H3).
    destruct (j_phase j) eqn:Hp; try discriminate. destruct H3 as [Hexp Hnr].
    inversion Hs; subst s'; clear Hs. split; [assumption|]. cbn. apply Forall_upd; [assumption|].
    destruct (H1 Hnr) as (Hc & Hcb & Hecb & Hsu). rewrite Hc.
    unfold job_ok, set_result. rewrite async_set_spec. cbn. rewrite Hcb, Hecb. rewrite <- Hexp. cbn.
    repeat split; auto; try discriminate.
  - destruct (nth_error (jobs s) i) as [j|] eqn:Hn; [|discriminate].
    assert (Hjo : job_ok j). { rewrite Forall_forall in Hj. apply Hj. eapply nth_error_In; eauto. }
    destruct Hjo as (H1 & H2 & H3).
    destruct (j_phase j) eqn:Hp; try discriminate. destruct (j_oc j) eqn:Ho; try discriminate.
    destruct (j_to j); [|discriminate]. rewrite timeout_interrupts_spec in Hs. inversion Hs; subst s'; clear Hs. split; [assumption|]. cbn.
    apply Forall_upd; [assumption|]. destruct (H1 H3) as (Hc & Hcb & Hecb & Hsu). rewrite Hc.
    unfold job_ok, set_result. rewrite async_set_spec. cbn. rewrite Hcb, Hecb, Ho. cbn.
    repeat split; auto; try discriminate.
  - destruct (nth_error (jobs s) i) as [j|] eqn:Hn; [|discriminate].
    assert (Hjo : job_ok j). { rewrite Forall_forall in Hj. apply Hj. eapply nth_error_In; eauto. }
    destruct Hjo as (H1 & H2 & H3).
    destruct (j_phase j) eqn:Hp; try discriminate. rewrite death_in_apply_restarts_worker_spec in Hs.
    inversion Hs; subst s'; clear Hs. split; [assumption|]. cbn.
    apply Forall_upd; [assumption|]. destruct H3 as [H3 Ho]. destruct (H1 H3) as (Hc & Hcb & Hecb & Hsu). rewrite Hc.
    unfold job_ok, set_result. rewrite async_set_spec. cbn. rewrite Hcb, Hecb, Ho. cbn.
    repeat split; auto; try discriminate.
Qed.

Theorem arun_AInv : forall l s, AInv s -> AInv (arun s l).
Proof.
  induction l as [|a r IH]; intros s H; cbn [arun]; [assumption|].
  destruct (astep s a) eqn:E; [apply IH; eapply astep_AInv; eauto|apply IH; assumption].
Qed.

Lemma ainit_AInv : AInv ainit. Proof. split; [reflexivity|constructor]. Qed.

(* C09: value, single callback, isolation -- for every schedule *)
Theorem apply_correct l j :
  In j (jobs (arun ainit l)) -> job_ok j.
Proof. intros Hin. destruct (arun_AInv l ainit ainit_AInv) as [_ H]. rewrite Forall_forall in H. auto. Qed.

Theorem apply_never_stops_the_pool l : exn (arun ainit l) = false.
Proof. apply (arun_AInv l ainit ainit_AInv). Qed.

(* C09: every job becomes ready: in a state where nothing can move any more (that is what
   stop_and_join waits for) every submitted job is ready, provided no task blocks forever without
   a timeout *)
Definition quiescent (s : ast) : Prop :=
  forall i, astep s (AWork i) = None /\ astep s (ARes i) = None /\ astep s (ATimeout i) = None /\ astep s (ADeath i) = None.

Lemma firstn_busy_ex : forall (l : list job) (P : job -> bool), existsb P l = true ->
  exists i j, nth_error l i = Some j /\ P j = true /\ forallb (fun x => negb (P x)) (firstn i l) = true.
Proof.
  induction l as [|a l IH]; intros P H; [discriminate|]. cbn in H. destruct (P a) eqn:E.
  - exists 0, a. repeat split; auto.
  - cbn in H. destruct (IH P H) as (i & j & Hn & Hp & Hf). exists (S i), j. repeat split; auto. cbn. rewrite E. cbn. exact Hf.
Qed.

Theorem ready_by_join l :
  let s := arun ainit l in
  (forall j, In j (jobs s) -> j_oc j = OBlock -> j_to j = true) ->
  quiescent s -> Forall (fun j => j_ready j = true) (jobs s).
Proof.
  intros s Hto Hq. destruct (arun_AInv l ainit ainit_AInv) as [_ HI]. fold s in HI.
  apply Forall_forall. intros j Hin.
  destruct (j_ready j) eqn:Hr; [reflexivity|exfalso].
  (* some job is not ready: look at the first job of some worker that is still queued or running *)
  assert (Hex : existsb (fun x => negb (j_ready x)) (jobs s) = true).
  { apply existsb_exists. exists j. split; [assumption|rewrite Hr; reflexivity]. }
  (* take the first non-ready job k of the list; nothing earlier is busy *)
  destruct (firstn_busy_ex _ _ Hex) as (i & k & Hn & Hk & Hf).
  apply negb_true_iff in Hk.
  assert (Hko : job_ok k). { rewrite Forall_forall in HI. apply HI. eapply nth_error_In; eauto. }
  destruct Hko as (K1 & K2 & K3).
  destruct (Hq i) as (Q1 & Q2 & Q3 & Q4). cbn [astep] in Q1, Q2, Q3, Q4. rewrite Hn in Q1, Q2, Q3, Q4.
  destruct (j_phase k) eqn:Hp.
  - (* queued: all earlier jobs are ready, hence not busy: it may start *)
    assert (Hms : may_start (jobs s) i (j_w k) = true).
    { unfold may_start. apply forallb_forall. intros x Hx.
      rewrite forallb_forall in Hf. specialize (Hf x Hx). apply negb_true_iff, negb_false_iff in Hf.
      assert (Hxo : job_ok x). { rewrite Forall_forall in HI. apply HI. eapply firstn_In; eauto. }
      destruct Hxo as (_ & _ & X3). unfold busy. destruct (j_phase x); try congruence; try (destruct X3; congruence); rewrite andb_false_r; reflexivity. }
    rewrite Hms in Q1. discriminate.
  - (* running *)
    rewrite failure_returned_as_result_spec in Q1. destruct (j_oc k) eqn:Ho; try discriminate.
    rewrite (Hto k (nth_error_In _ _ Hn) Ho), timeout_interrupts_spec in Q3. discriminate.
  - discriminate.
  - congruence.
  - rewrite death_in_apply_restarts_worker_spec in Q4. discriminate.
Qed.

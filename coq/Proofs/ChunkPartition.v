(* Proofs/ChunkPartition.v -- chunk_tasks is an order-preserving partition of the first
   min(len, iterable_len) elements into non-empty chunks, for EVERY arithmetic (numops):
   the proof only uses that at least one element is taken per round. *)
From Coq Require Import ZArith List Bool Lia.
From Mpv Require Import NumOps GenChunk Chunk ChunkSpec.
Import ListNotations.
Open Scope Z_scope.

Section Partition.
Context {num : Type} (N : numops num) {A : Type}.
Variables (is_nd : bool) (xs : list A) (ilen : option Z) (cs : num).

Definition limit : Z := match ilen with Some l => Z.min l (zlen xs) | None => zlen xs end.

Definition InvS (st : @cstate num A) : Prop :=
  let '(cur, ret, it) := st in
  0 <= ret <= limit /\ (is_nd = false -> it = drop ret xs).

Let body := chunk_tasks_body N is_nd xs ilen cs.

(* the two arithmetic ingredients of the loop *)
Definition chunk_take (cur : num) : Z := Z.max 1 (nceil N cur).
Definition chunk_next (cur : num) : num := nsub N (nadd N cur cs) (nofZ N (nceil N cur)).

Lemma limit_le : limit <= zlen xs.
Proof. unfold limit. destruct ilen; lia. Qed.
Lemma limit_some l : ilen = Some l -> limit = Z.min l (zlen xs).
Proof. unfold limit. intros ->. reflexivity. Qed.
Lemma limit_none : ilen = None -> limit = zlen xs.
Proof. unfold limit. intros ->. reflexivity. Qed.

(* one round *)
Lemma body_step cur ret it :
  (forall l, ilen = Some l -> 0 <= l) ->
  InvS (cur, ret, it) ->
  exists chunk, chunk = take (Z.max 1 (nceil N cur)) (drop ret xs) /\
  match body (cur, ret, it) with
  | (outs, Stop) => concat outs = take (limit - ret) (drop ret xs) /\
      ((outs = [] /\ ret = limit) \/
       (exists c, outs = [c] /\ 0 < zlen c <= chunk_take cur /\ ret + zlen c = limit))
  | (outs, Continue st') =>
      outs = [chunk] /\ chunk <> [] /\ InvS st' /\
      (let '(cur', ret', _) := st' in ret' = ret + zlen chunk /\ cur' = chunk_next cur)
  | (_, Fail _) => False
  end.
Proof.
  intros Hilen [Hret Hit]. pose proof limit_le as Hl.
  set (k := Z.max 1 (nceil N cur)). exists (take k (drop ret xs)). split; [reflexivity|].
  unfold body. rewrite chunk_body_spec. cbv zeta. fold k.
  assert (Hchunk : (if is_nd then pyslice ret (ret + k) xs else take k it) = take k (drop ret xs)).
  { destruct is_nd. - apply pyslice_take_drop; lia. - rewrite Hit; reflexivity. }
  set (R := drop ret xs) in *.
  assert (HR : zlen R = zlen xs - ret). { unfold R. rewrite zlen_drop. lia. }
  assert (Hk : 1 <= k) by (unfold k; lia).
  assert (Hc : zlen (take k R) = Z.min k (zlen R)). { rewrite zlen_take. lia. }
  assert (Htail : forall it',
     (is_nd = false -> it' = drop (ret + zlen (take k R)) xs) ->
     match body_tail N ilen cs cur ret (take k R) it' with
     | (outs, Stop) => concat outs = take (limit - ret) R /\
        ((outs = [] /\ ret = limit) \/
         (exists c, outs = [c] /\ 0 < zlen c <= k /\ ret + zlen c = limit))
     | (outs, Continue st') => outs = [take k R] /\ take k R <> [] /\ InvS st' /\
          (let '(cur', ret', _) := st' in ret' = ret + zlen (take k R) /\ cur' = chunk_next cur)
     | (_, Fail _) => False end).
  { intros it' Hit'. unfold body_tail.
    destruct (zlen (take k R) =? 0) eqn:E0.
    - apply Z.eqb_eq in E0. split; [|left; split; [reflexivity|lia]]. simpl.
      rewrite take_nonpos; [reflexivity|]. lia.
    - apply Z.eqb_neq in E0.
      assert (Hne : take k R <> []). { intros Hn. apply E0. rewrite Hn. reflexivity. }
      cbv zeta. pose proof limit_some as LS. pose proof limit_none as LN. pose proof Hilen as Hil. destruct ilen as [l|] eqn:El.
      + pose proof (LS l eq_refl) as Hlim. pose proof (Hil l eq_refl) as Hl0.
        destruct (l <? ret + zlen (take k R)) eqn:Ecut.
        * apply Z.ltb_lt in Ecut.
          rewrite pyslice_to_take by lia. rewrite take_take.
          replace (Z.min (l - ret) k) with (l - ret) by lia.
          replace (limit - ret) with (l - ret) by lia.
          destruct (0 <? zlen (take (l - ret) R)) eqn:Epos.
          -- split; [simpl; apply app_nil_r|]. right. eexists; split; [reflexivity|].
             apply Z.ltb_lt in Epos. rewrite zlen_take in *. lia.
          -- apply Z.ltb_ge in Epos. pose proof (zlen_nonneg (take (l - ret) R)).
             split; [simpl; symmetry; apply zlen_nil_iff; lia|]. left. split; [reflexivity|].
             rewrite zlen_take in *. lia.
        * apply Z.ltb_ge in Ecut. repeat split; auto; lia.
      + pose proof (LN eq_refl) as Hlim. repeat split; auto; lia. }
  destruct is_nd eqn:End.
  - rewrite Hchunk. apply Htail. discriminate.
  - rewrite Hchunk. apply Htail. intros _. rewrite Hit by reflexivity. fold R.
    rewrite (drop_take_len k R) by lia. unfold R. rewrite drop_drop; [reflexivity|apply zlen_nonneg|lia].
Qed.

(* the whole loop: enough fuel, never fails, partitions the rest *)
Lemma loop_correct : (forall l, ilen = Some l -> 0 <= l) -> forall fuel cur ret it,
  InvS (cur, ret, it) -> (Z.to_nat (zlen xs - ret) < fuel)%nat ->
  exists chunks, chunk_loop fuel body (cur, ret, it) = Ok chunks /\
    concat chunks = take (limit - ret) (drop ret xs) /\ Forall (fun c => c <> []) chunks.
Proof.
  intros Hilen. induction fuel as [|fuel IH]; intros cur ret it HI Hf; [lia|].
  destruct (body_step cur ret it Hilen HI) as (chunk & Hck & Hb).
  cbn [chunk_loop]. destruct (body (cur, ret, it)) as [outs c].
  destruct c as [[[cur' ret'] it']| |e].
  - destruct Hb as (Ho & Hne & HI' & Hr' & _). subst outs.
    assert (Hpos : 0 < zlen chunk).
    { pose proof (zlen_nonneg chunk). destruct (Z.eq_dec (zlen chunk) 0) as [E|E]; [|lia].
      apply zlen_nil_iff in E. contradiction. }
    pose proof HI' as HI2. destruct HI2 as [Hret' _]. destruct HI as [Hret _].
    pose proof limit_le.
    destruct (IH cur' ret' it' HI') as (more & Hm & Hcat & Hfa); [lia|].
    rewrite Hm. eexists; split; [reflexivity|]. split.
    + simpl. rewrite Hcat. subst ret'.
      replace (limit - ret) with (zlen chunk + (limit - (ret + zlen chunk))) by lia.
      rewrite take_add by lia. f_equal.
      * rewrite Hck. symmetry. apply take_len_take.
      * rewrite drop_drop by lia. reflexivity.
    + constructor; assumption.
  - destruct Hb as [Hcat Hsh]. eexists; split; [reflexivity|]. split; [assumption|].
    destruct Hsh as [[-> _]|(c & -> & Hc & _)]; [constructor|].
    constructor; [|constructor]. intros ->. unfold zlen in Hc; simpl in Hc; lia.
  - contradiction.
Qed.

(* ---- the loop as a recurrence: chunk j has exactly chunk_take cur_j elements (the last one may
        be shorter), cur_{j+1} = chunk_next cur_j ---- *)
Fixpoint trace_ok (cur : num) (ret : Z) (chunks : list (list A)) : Prop :=
  match chunks with
  | [] => ret = limit
  | c :: rest =>
      match rest with
      | [] => 0 < zlen c <= chunk_take cur /\ ret + zlen c = limit
      | _ :: _ => zlen c = chunk_take cur /\ trace_ok (chunk_next cur) (ret + zlen c) rest
      end
  end.

Lemma trace_ok_sum : forall chunks cur ret,
  trace_ok cur ret chunks -> Forall (fun c => c <> []) chunks -> ret + zlen (concat chunks) = limit.
Proof.
  induction chunks as [|c rest IH]; intros cur ret Ht Hf; simpl in *.
  - unfold zlen; simpl; lia.
  - inversion Hf as [|? ? Hc Hr]; subst. rewrite zlen_app. destruct rest as [|c2 rest'].
    + simpl. unfold zlen at 2; simpl. lia.
    + destruct Ht as [Hz Ht]. specialize (IH _ _ Ht Hr). lia.
Qed.

Lemma loop_trace : (forall l, ilen = Some l -> 0 <= l) -> forall fuel cur ret it chunks,
  InvS (cur, ret, it) -> chunk_loop fuel body (cur, ret, it) = Ok chunks ->
  trace_ok cur ret chunks /\ Forall (fun c => c <> []) chunks.
Proof.
  intros Hilen. induction fuel as [|fuel IH]; intros cur ret it chunks HI Hrun; [discriminate|].
  destruct (body_step cur ret it Hilen HI) as (chunk & Hck & Hb).
  cbn [chunk_loop] in Hrun. destruct (body (cur, ret, it)) as [outs c].
  destruct c as [[[cur' ret'] it']| |e].
  - destruct Hb as (Ho & Hne & HI' & Hr' & Hc'). subst outs cur'.
    destruct (chunk_loop fuel body (chunk_next cur, ret', it')) as [more|] eqn:Hm; [|discriminate].
    inversion Hrun; subst chunks; clear Hrun.
    destruct (IH _ _ _ _ HI' Hm) as [Ht Hf]. split; [|constructor; assumption].
    assert (Hpos : 0 < zlen chunk).
    { pose proof (zlen_nonneg chunk). destruct (Z.eq_dec (zlen chunk) 0) as [E|E]; [|lia].
      apply zlen_nil_iff in E. contradiction. }
    assert (Hlen : zlen chunk = Z.min (chunk_take cur) (zlen xs - ret)).
    { rewrite Hck. rewrite zlen_take, zlen_drop. destruct HI as [Hr _]. pose proof limit_le.
      unfold chunk_take. lia. }
    cbn [app trace_ok]. destruct more as [|c2 more'].
    + simpl in Ht. split; [unfold chunk_take in *; lia | lia].
    + pose proof (trace_ok_sum _ _ _ Ht Hf) as Hsum. inversion Hf as [|? ? Hc2 _]; subst.
      assert (0 < zlen c2).
      { pose proof (zlen_nonneg c2). destruct (Z.eq_dec (zlen c2) 0) as [E|E]; [|lia].
        apply zlen_nil_iff in E. contradiction. }
      cbn [concat] in Hsum. rewrite zlen_app in Hsum. pose proof (zlen_nonneg (concat more')).
      pose proof limit_le. split; [lia|]. exact Ht.
  - destruct Hb as [Hcat Hsh]. inversion Hrun; subst chunks; clear Hrun.
    destruct Hsh as [[-> Hr]|(c & -> & Hc & Hs)].
    + split; [exact Hr|constructor].
    + split; [cbn [trace_ok]; split; assumption|].
      constructor; [|constructor]. intros ->. unfold zlen in Hc; simpl in Hc; lia.
  - contradiction.
Qed.

End Partition.

(* ---- the theorem about chunk_tasks itself ---- *)
Section Main.
Context {num : Type} (N : numops num) {A : Type}.

Definition limit_of (xs : list A) (ilen : option Z) : Z :=
  match ilen with Some l => Z.min l (zlen xs) | None => zlen xs end.

Theorem chunk_partition is_nd has_len (xs : list A) ilen cs ns :
  (forall l, ilen = Some l -> 0 <= l) ->
  match chunk_tasks N is_nd has_len xs ilen cs ns with
  | Ok chunks => concat chunks = take (limit_of xs ilen) xs /\ Forall (fun c => c <> []) chunks
  | Err e => (* only the documented parameter errors, decided before any element is drawn *)
      cs = None /\ (ns = None \/ (ilen = None /\ has_len = false)) /\ e = 1
  end.
Proof.
  intros Hl. unfold chunk_tasks. rewrite chunk_init_spec.
  assert (Hgo : forall c, match chunk_loop (S (length xs)) (chunk_tasks_body N is_nd xs ilen c) (c, 0, xs) with
     | Ok chunks => concat chunks = take (limit_of xs ilen) xs /\ Forall (fun c => c <> []) chunks
     | Err _ => False end).
  { intros c.
    destruct (loop_correct N is_nd xs ilen c Hl (S (length xs)) c 0 xs) as (chunks & Hc & Hcat & Hfa).
    - unfold InvS, limit. split; [|intros; reflexivity].
      pose proof (zlen_nonneg xs). destruct ilen as [l|]; [specialize (Hl l eq_refl)|]; lia.
    - unfold zlen. lia.
    - rewrite Hc. split; [|assumption]. rewrite Hcat. unfold limit, limit_of.
      rewrite Z.sub_0_r. reflexivity. }
  destruct cs as [c|]; [|destruct ns as [s|]; [destruct ilen as [l|]; [|destruct has_len]|]];
    cbv beta iota zeta;
    try (match goal with |- context[chunk_loop ?f (chunk_tasks_body N is_nd xs ?il ?c) ?st] =>
           specialize (Hgo c); destruct (chunk_loop f (chunk_tasks_body N is_nd xs il c) st) end;
         [assumption|contradiction]);
    repeat split; auto.
Qed.

End Main.

(* chunk_tasks exposes the recurrence: with the chunk size c it starts from *)
Section MainTrace.
Context {num : Type} (N : numops num) {A : Type}.

Definition start_size (has_len : bool) (xs : list A) (ilen : option Z) (cs : option num) (ns : option Z)
  : option num :=
  match cs, ns with
  | Some c, _ => Some c
  | None, Some s => match ilen with
                    | Some l => Some (ndivZ N l s)
                    | None => if has_len then Some (ndivZ N (zlen xs) s) else None
                    end
  | None, None => None
  end.

Theorem chunk_tasks_trace is_nd has_len (xs : list A) ilen cs ns chunks :
  (forall l, ilen = Some l -> 0 <= l) ->
  chunk_tasks N is_nd has_len xs ilen cs ns = Ok chunks ->
  exists c, start_size has_len xs ilen cs ns = Some c /\
            trace_ok N xs ilen c c 0 chunks /\ Forall (fun ch => ch <> []) chunks.
Proof.
  intros Hl. unfold chunk_tasks, start_size. rewrite chunk_init_spec.
  assert (Hgo : forall c, chunk_loop (S (length xs)) (chunk_tasks_body N is_nd xs ilen c) (c, 0, xs) = Ok chunks ->
            trace_ok N xs ilen c c 0 chunks /\ Forall (fun ch => ch <> []) chunks).
  { intros c Hrun. eapply loop_trace; eauto.
    unfold InvS, limit. split; [|intros; reflexivity].
    pose proof (zlen_nonneg xs). destruct ilen as [l|]; [specialize (Hl l eq_refl)|]; lia. }
  destruct cs as [c|]; [|destruct ns as [s|]; [destruct ilen as [l|]; [|destruct has_len]|]];
    cbv beta iota zeta; intros Hrun; try discriminate;
    eexists; (split; [reflexivity|]); apply Hgo; exact Hrun.
Qed.
End MainTrace.

(* Proofs/ChunkSizes.v -- the promised chunk sizes, for Python ints (ZOps) and for exact
   rationals with denominator q (FracOps q). *)
From Coq Require Import ZArith List Bool Lia.
From Mpv Require Import NumOps GenChunk Chunk ChunkSpec ChunkPartition.
Import ListNotations.
Open Scope Z_scope.

(* all elements but the last satisfy Q *)
Fixpoint all_but_last {X} (Q : X -> Prop) (l : list X) : Prop :=
  match l with
  | [] => True
  | x :: r => match r with [] => True | _ :: _ => Q x /\ all_but_last Q r end
  end.

Lemma zlen_cons {X} (x : X) l : zlen (x :: l) = 1 + zlen l.
Proof. unfold zlen. simpl length. lia. Qed.

Section IntSizes.
Context {A : Type} (xs : list A) (ilen : option Z) (k : Z).
Hypothesis Hk : 1 <= k.
Let L := limit xs ilen.

(* chunk_size = k (an int): every chunk but the last has exactly k elements, the last between 1 and k,
   and there are ceil(L / k) of them *)
Lemma int_trace : forall chunks ret,
  trace_ok ZOps xs ilen k k ret chunks ->
  all_but_last (fun c => zlen c = k) chunks /\ Forall (fun c => 0 < zlen c <= k) chunks /\
  ((zlen chunks = 0 /\ L = ret) \/ (0 < zlen chunks /\ (zlen chunks - 1) * k < L - ret <= zlen chunks * k)).
Proof.
  assert (Ht : chunk_take ZOps k = k) by (unfold chunk_take; simpl; lia).
  assert (Hn : chunk_next ZOps k k = k) by (unfold chunk_next; simpl; lia).
  induction chunks as [|c rest IH]; intros ret Htr.
  - simpl in *. fold L in Htr. split; [exact I|]. split; [constructor|]. left. split; [reflexivity|lia].
  - cbn [trace_ok] in Htr. destruct rest as [|c2 rest'].
    + rewrite Ht in Htr. fold L in Htr. destruct Htr as [Hc Hs]. split; [exact I|].
      split; [constructor; [lia|constructor]|]. right. rewrite zlen_cons. change (zlen (@nil (list A))) with 0. lia.
    + rewrite Ht, Hn in Htr. destruct Htr as [Hc Htr]. destruct (IH _ Htr) as (Ha & Hf & Hcnt).
      split; [split; assumption|]. split; [constructor; [lia|assumption]|].
      right. rewrite !zlen_cons in *.
      pose proof (zlen_nonneg rest'). destruct Hcnt as [[? ?]|[_ Hcnt]]; [lia|]. lia.
Qed.
End IntSizes.

Theorem chunk_int_sizes {A} is_nd has_len (xs : list A) ilen k ns chunks :
  1 <= k -> (forall l, ilen = Some l -> 0 <= l) ->
  chunk_tasks ZOps is_nd has_len xs ilen (Some k) ns = Ok chunks ->
  all_but_last (fun c => zlen c = k) chunks /\ Forall (fun c => 0 < zlen c <= k) chunks /\
  zlen chunks = (limit_of xs ilen + k - 1) / k.
Proof.
  intros Hk Hl Hrun. destruct (chunk_tasks_trace ZOps _ _ _ _ _ _ _ Hl Hrun) as (c & Hc & Htr & Hne).
  simpl in Hc. inversion Hc; subst c.
  destruct (int_trace xs ilen k Hk chunks 0 Htr) as (Ha & Hf & Hcnt).
  split; [assumption|]. split; [assumption|].
  fold (limit xs ilen) in *. change (limit_of xs ilen) with (limit xs ilen).
  pose proof (zlen_nonneg chunks). set (n := zlen chunks) in *. set (L := limit xs ilen) in *.
  destruct Hcnt as [[E HL]|[Hpos Hcnt]].
  - rewrite E. symmetry. apply Z.div_small. lia.
  - apply (Z.div_unique _ _ _ (L + k - 1 - n * k)); lia.
Qed.

Section FracSizes.
Context {A : Type} (xs : list A) (ilen : option Z) (p q : Z).
Hypothesis Hq : 0 < q.
Hypothesis Hpq : q <= p.       (* the real chunk size r = p / q is at least 1 *)

Definition fl := p / q.            (* floor r *)
Definition ce := (p + q - 1) / q.  (* ceil r *)

Lemma frac_take cur : p - q < cur <= p -> chunk_take (FracOps q) cur = fl \/ chunk_take (FracOps q) cur = ce.
Proof.
  intros Hc. unfold chunk_take, fl, ce. cbn [nceil FracOps].
  assert (H1 : 1 <= (cur + q - 1) / q) by (apply Z.div_le_lower_bound; lia).
  rewrite Z.max_r by lia.
  assert (Hlo : p / q <= (cur + q - 1) / q).
  { apply Z.div_le_lower_bound; [lia|]. pose proof (Z.mul_div_le p q Hq). lia. }
  assert (Hhi : (cur + q - 1) / q <= (p + q - 1) / q) by (apply Z.div_le_mono; lia).
  assert (Hgap : (p + q - 1) / q <= p / q + 1).
  { replace (p + q - 1) with ((p - 1) + 1 * q) by lia. rewrite Z.div_add by lia.
    assert ((p - 1) / q <= p / q) by (apply Z.div_le_mono; lia). lia. }
  lia.
Qed.

Lemma frac_next cur : p - q < chunk_next (FracOps q) p cur <= p.
Proof.
  unfold chunk_next. cbn [nadd nsub nofZ nceil FracOps].
  pose proof (Z.div_mod (cur + q - 1) q ltac:(lia)) as Hdm.
  pose proof (Z.mod_pos_bound (cur + q - 1) q Hq). lia.
Qed.

Lemma frac_trace : forall chunks cur ret,
  p - q < cur <= p -> trace_ok (FracOps q) xs ilen p cur ret chunks ->
  all_but_last (fun c => zlen c = fl \/ zlen c = ce) chunks /\ Forall (fun c => 0 < zlen c <= ce) chunks.
Proof.
  assert (Hfc : fl <= ce).
  { unfold fl, ce. apply Z.div_le_mono; lia. }
  induction chunks as [|c rest IH]; intros cur ret Hcur Htr.
  - split; simpl; auto.
  - cbn [trace_ok] in Htr. destruct rest as [|c2 rest'].
    + destruct Htr as [Hc _]. split; [simpl; auto|]. constructor; [|constructor].
      destruct (frac_take cur Hcur) as [E|E]; rewrite E in Hc; lia.
    + destruct Htr as [Hc Htr]. destruct (IH _ _ (frac_next cur) Htr) as [Ha Hf].
      assert (Hsz : zlen c = fl \/ zlen c = ce) by (rewrite Hc; apply frac_take; assumption).
      split; [split; assumption|]. constructor; [|assumption].
      assert (0 < chunk_take (FracOps q) cur) by (unfold chunk_take; lia). lia.
Qed.
End FracSizes.

(* real chunk_size r = p/q >= 1: every chunk but the last has floor r or ceil r elements *)
Theorem chunk_real_sizes {A} is_nd has_len (xs : list A) ilen p q ns chunks :
  0 < q -> q <= p -> (forall l, ilen = Some l -> 0 <= l) ->
  chunk_tasks (FracOps q) is_nd has_len xs ilen (Some p) ns = Ok chunks ->
  all_but_last (fun c => zlen c = p / q \/ zlen c = (p + q - 1) / q) chunks /\
  Forall (fun c => 0 < zlen c <= (p + q - 1) / q) chunks.
Proof.
  intros Hq Hpq Hl Hrun. destruct (chunk_tasks_trace (FracOps q) _ _ _ _ _ _ _ Hl Hrun) as (c & Hc & Htr & Hne).
  simpl in Hc. inversion Hc; subst c.
  apply (frac_trace xs ilen p q Hq Hpq chunks p 0); [lia|assumption].
Qed.

(* ---- n_splits = s over n known elements: exactly min n s chunks, sizes floor(n/s) or ceil(n/s) ---- *)
Section Splits.
Context {A : Type} (xs : list A) (ilen : option Z) (s : Z).
Hypothesis Hs : 1 <= s.
Let n := zlen xs.
Hypothesis Hlim : limit xs ilen = n.

(* case n >= s: index-aware invariant  ceil(j n / s) = ret,  cur = (j+1) n - ret s *)
Definition J (j cur ret : Z) : Prop :=
  (ret - 1) * s < j * n <= ret * s /\ cur = (j + 1) * n - ret * s.

Lemma J_take j cur ret : s <= n -> J j cur ret ->
  let t := chunk_take (FracOps s) cur in
  (t - 1) * s < cur <= t * s /\ 1 <= t /\ (t = n / s \/ t = (n + s - 1) / s).
Proof.
  intros Hn [Hj Hc]. assert (Hq : 0 < s) by lia. assert (Hcur : n - s < cur <= n) by lia.
  destruct (frac_take n s Hq Hn cur Hcur) as [E|E]; unfold fl, ce in E;
  (split; [|split; [|rewrite E; auto]]);
  unfold chunk_take in *; cbn [nceil FracOps] in *;
  pose proof (Z.div_mod (cur + s - 1) s ltac:(lia)) as Hdm;
  pose proof (Z.mod_pos_bound (cur + s - 1) s Hq) as Hmb;
  assert (H1 : 1 <= (cur + s - 1) / s) by (apply Z.div_le_lower_bound; lia);
  rewrite Z.max_r by lia; lia.
Qed.

Lemma splits_big : s <= n -> forall chunks j cur ret,
  0 <= j -> J j cur ret -> trace_ok (FracOps s) xs ilen n cur ret chunks ->
  Forall (fun c => c <> []) chunks ->
  Forall (fun c => zlen c = n / s \/ zlen c = (n + s - 1) / s) chunks /\
  (chunks <> [] -> j + zlen chunks = s).
Proof.
  intros Hn. induction chunks as [|c rest IH]; intros j cur ret Hj0 HJ Htr Hne.
  - split; [constructor|congruence].
  - cbn [trace_ok] in Htr. pose proof (J_take j cur ret Hn HJ) as Ht. cbv zeta in Ht.
    set (t := chunk_take (FracOps s) cur) in *. destruct Ht as (Hts & Ht1 & Hsz).
    destruct HJ as [Hjn Hcur].
    destruct rest as [|c2 rest'].
    + destruct Htr as [Hc Hsum]. rewrite Hlim in Hsum.
      (* last chunk: j + 1 = s and the chunk is full *)
      assert (Hjs : j + 1 = s).
      { assert (j < s) by nia. assert (s - 1 < j + 1) by nia. lia. }
      assert (Hfull : zlen c = t) by nia.
      split; [constructor; [rewrite Hfull; assumption|constructor]|].
      intros _. rewrite zlen_cons. change (zlen (@nil (list A))) with 0. lia.
    + destruct Htr as [Hc Htr]. pose proof (Forall_inv Hne) as Hc0. pose proof (Forall_inv_tail Hne) as Hne'.
      destruct (IH (j + 1) (chunk_next (FracOps s) n cur) (ret + zlen c)) as [Hf Hcnt]; auto; try lia.
      * unfold J. rewrite Hc. split; [nia|]. unfold chunk_next. cbn [nadd nsub nofZ nceil FracOps].
        fold t. unfold chunk_take in t. cbn [nceil FracOps] in t.
        assert (Hd1 : 1 <= (cur + s - 1) / s) by (apply Z.div_le_lower_bound; lia).
        assert (Ht' : t = (cur + s - 1) / s) by (unfold t; lia). rewrite <- Ht'. lia.
      * split; [constructor; [rewrite Hc; assumption|assumption]|].
        intros _. rewrite zlen_cons. specialize (Hcnt ltac:(discriminate)). lia.
Qed.

(* case n < s: every chunk has exactly one element *)
Lemma splits_small : n < s -> forall chunks cur ret,
  cur <= n -> trace_ok (FracOps s) xs ilen n cur ret chunks -> Forall (fun c => c <> []) chunks ->
  Forall (fun c => zlen c = 1) chunks.
Proof.
  intros Hn. assert (Hq : 0 < s) by lia.
  assert (Htake : forall cur, cur <= n -> chunk_take (FracOps s) cur = 1).
  { intros cur Hc. unfold chunk_take. cbn [nceil FracOps].
    assert ((cur + s - 1) / s <= 1). { apply Z.lt_succ_r. apply Z.div_lt_upper_bound; lia. }
    lia. }
  assert (Hnext : forall cur, cur <= n -> chunk_next (FracOps s) n cur <= n).
  { intros cur Hc. unfold chunk_next. cbn [nadd nsub nofZ nceil FracOps].
    pose proof (Z.div_mod (cur + s - 1) s ltac:(lia)) as Hdm.
    pose proof (Z.mod_pos_bound (cur + s - 1) s Hq). lia. }
  induction chunks as [|c rest IH]; intros cur ret Hc Htr Hne; [constructor|].
  cbn [trace_ok] in Htr. pose proof (Forall_inv Hne) as Hc0. pose proof (Forall_inv_tail Hne) as Hne'.
  assert (0 < zlen c).
  { pose proof (zlen_nonneg c). destruct (Z.eq_dec (zlen c) 0) as [E|E]; [|lia].
    apply zlen_nil_iff in E. contradiction. }
  destruct rest as [|c2 rest'].
  - destruct Htr as [Hz _]. rewrite Htake in Hz by assumption. constructor; [lia|constructor].
  - destruct Htr as [Hz Htr]. rewrite Htake in Hz by assumption. constructor; [assumption|].
    apply (IH (chunk_next (FracOps s) n cur) (ret + zlen c)); auto.
Qed.
End Splits.

Lemma Forall_len_sum {A} (chunks : list (list A)) : Forall (fun c => zlen c = 1) chunks ->
  zlen (concat chunks) = zlen chunks.
Proof.
  induction 1 as [|c r Hc _ IH]; [reflexivity|]. simpl. rewrite zlen_app, zlen_cons. lia.
Qed.

Theorem chunk_splits_exact {A} is_nd (xs : list A) ilen s chunks :
  1 <= s -> (ilen = None \/ ilen = Some (zlen xs)) ->
  chunk_tasks (FracOps s) is_nd true xs ilen None (Some s) = Ok chunks ->
  let n := zlen xs in
  zlen chunks = Z.min n s /\
  Forall (fun c => c <> [] /\ (zlen c = n / s \/ zlen c = (n + s - 1) / s)) chunks.
Proof.
  intros Hs Hil Hrun n. pose proof (zlen_nonneg xs) as Hn0. fold n in Hn0.
  assert (Hl : forall l, ilen = Some l -> 0 <= l). { intros l E. destruct Hil as [E2|E2]; rewrite E2 in E; [discriminate|inversion E; lia]. }
  assert (Hlim : limit xs ilen = n). { unfold limit. destruct Hil as [->| ->]; fold n; lia. }
  destruct (chunk_tasks_trace (FracOps s) _ _ _ _ _ _ _ Hl Hrun) as (c & Hc & Htr & Hne).
  assert (Ec : c = n). { destruct Hil as [E|E]; rewrite E in Hc; simpl in Hc; inversion Hc; reflexivity. }
  subst c.
  pose proof (trace_ok_sum _ _ _ _ _ _ _ Htr Hne) as Hsum. rewrite Hlim in Hsum.
  destruct (Z_le_gt_dec s n) as [Hbig|Hsmall].
  - destruct (splits_big xs ilen s Hs Hlim Hbig chunks 0 n 0) as [Hf Hcnt]; auto; try lia.
    { unfold J. fold n. lia. }
    split.
    + destruct chunks as [|c0 r]; [|specialize (Hcnt ltac:(discriminate)); lia].
      simpl in Hsum. change (zlen (@nil A)) with 0 in Hsum. lia.
    + rewrite Forall_forall in *. intros c Hin. split; [apply Hne; assumption|apply Hf; assumption].
  - assert (Hsm : zlen xs < s) by (fold n; lia).
    pose proof (splits_small xs ilen s Hs Hsm chunks n 0 ltac:(fold n; lia) Htr Hne) as H1.
    pose proof (Forall_len_sum chunks H1) as Hcs. split; [lia|].
    rewrite Forall_forall in *. intros c Hin. split; [apply Hne; assumption|].
    right. rewrite (H1 c Hin).
    destruct (Z.eq_dec n 0) as [E0|E0].
    + (* n = 0: there are no chunks *) exfalso. fold n in Hsum. 
      assert (zlen chunks = 0) by lia. apply zlen_nil_iff in H. subst chunks. contradiction.
    + apply (Z.div_unique _ _ _ (n - 1)); fold n; lia.
Qed.

(* Proofs/CoreBound.v -- bounded look-ahead: at every moment of every schedule the number of
   elements drawn from the input minus the number of results handed to the consumer is at most
   max_tasks_active plus one chunk. *)
From Coq Require Import List Arith Lia Bool.
From RecordUpdate Require Import RecordUpdate.
From Mpv Require Import NumOps GenProto Core ProtoSpec CoreLemmas.
Import ListNotations.
Close Scope Z_scope.
Open Scope nat_scope.

Definition InvB (c : cfg) (cmax : nat) (s : st) : Prop :=
  ndrawn s <= length (yielded s) + maxact c + cmax /\
  match main s with
  | MDispatch rem pend =>
      Forall (fun ch => length ch <= cmax) rem /\
      match pend with
      | Some ch => length ch <= cmax /\ nactive s <= maxact c /\ ndrawn s = length (yielded s) + nactive s + length ch
      | None => nactive s <= Nat.max (maxact c) cmax /\ ndrawn s = length (yielded s) + nactive s
      end
  | _ => True
  end.

Lemma step_InvB c cmax s a s' : InvB c cmax s -> step c s a = Some s' -> InvB c cmax s'.
Proof.
  unfold InvB. intros [Hb Hm'] Hs.
  step_cases c s a s' Hs.
  all: try rewrite Hm in Hm'.
  all: unfold set_slot, log; cbn; rewrite ?Hm; cbn; rewrite ?app_length; cbn.
  all: try solve [split; [lia|exact Hm']].
  all: try solve [split; [lia|exact I]].
  - (* yield while waiting to dispatch *)
    destruct Hm' as (Hr & Hc & Ha & Hd). apply andb_true_iff in Hblk. destruct Hblk as [H0 _]. apply Nat.ltb_lt in H0.
    split; [lia|]. repeat split; auto; lia.
  - (* add_task *)
    destruct Hm' as (Hr & Hc & Ha & Hd). split; [lia|]. split; [assumption|].
    apply andb_false_iff in Hblk. split; [|lia].
    destruct Hblk as [H0|H0]; [apply Nat.ltb_ge in H0|apply Nat.ltb_ge in H0]; lia.
  - (* yield before drawing *)
    destruct Hm' as (Hr & Ha & Hd). apply Nat.ltb_lt in Hpre. split; [lia|]. repeat split; auto; lia.
  - (* draw the next chunk: only when n_active <= max_tasks_active *)
    destruct Hm' as (Hr & Ha & Hd). apply Nat.ltb_ge in Hpre.
    pose proof (Forall_inv Hr) as Hc. pose proof (Forall_inv_tail Hr) as Hr'. cbn in Hc.
    split; [lia|]. repeat split; auto; lia.
Qed.

Theorem lookahead_bound c cmax chunks sched :
  Forall (fun ch => length ch <= cmax) chunks ->
  let s := run c (init c chunks) sched in
  ndrawn s - length (yielded s) <= maxact c + cmax.
Proof.
  intros Hc s.
  assert (HI : InvB c cmax s).
  { apply run_invariant; [|intros; eapply step_InvB; eauto].
    unfold InvB, init; cbn. split; [lia|]. repeat split; auto; lia. }
  destruct HI as [Hb _]. lia.
Qed.

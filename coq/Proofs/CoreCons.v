(* Proofs/CoreCons.v -- token conservation for ALL schedules: every task index is, at every
   moment, in exactly one place (not yet dispatched / queued / being run / batched / in the
   results queue / in the iterator / yielded), and the execution log is exactly the multiset of
   tokens that have left the "pending" side.  C01 (unordered), C02 follow. *)
From Coq Require Import List Arith Lia Bool Permutation.
From RecordUpdate Require Import RecordUpdate.
From Mpv Require Import NumOps GenProto Core ProtoSpec.
Import ListNotations.
Close Scope Z_scope.
Open Scope nat_scope.

Definition cnt (t : nat) (l : list nat) : nat := count_occ Nat.eq_dec l t.
Arguments cnt : simpl never.
Lemma cnt_app t l1 l2 : cnt t (l1 ++ l2) = cnt t l1 + cnt t l2.
Proof. unfold cnt; apply count_occ_app. Qed.
Lemma cnt_nil t : cnt t [] = 0. Proof. reflexivity. Qed.
Lemma cnt_cons t x l : cnt t (x :: l) = (if Nat.eq_dec x t then 1 else 0) + cnt t l.
Proof. unfold cnt; simpl; destruct (Nat.eq_dec x t); lia. Qed.

Lemma cnt_flat_map_upd {A} (f : A -> list nat) t l i x y :
  nth_error l i = Some y ->
  cnt t (flat_map f (upd l i x)) + cnt t (f y) = cnt t (flat_map f l) + cnt t (f x).
Proof.
  revert i; induction l as [|a l IH]; intros [|i] H; simpl in *; try discriminate.
  - inversion H; subst. unfold upd; simpl. rewrite !cnt_app. lia.
  - specialize (IH i H). unfold upd in *; simpl. rewrite !cnt_app.
    destruct (skipn i l); simpl in *; rewrite ?cnt_app in *; lia.
Qed.

Definition msg_toks (m : msg) : list nat := match m with MChunk c => c | MPill => [] end.
Definition pc_pending (p : wpc) : list nat :=
  match p with WInit ch => ch | WRun rest _ => rest | _ => [] end.
Definition pc_done (p : wpc) : list nat := match p with WRun _ acc => acc | _ => [] end.
Definition slot_pending (sl : slot) : list nat := flat_map msg_toks (q sl) ++ pc_pending (pc sl).
Definition slot_done (sl : slot) : list nat := pc_done (pc sl).
Definition main_pending (m : mpc) : list nat :=
  match m with
  | MDispatch rem pend => concat rem ++ match pend with Some ch => ch | None => [] end
  | _ => []
  end.
Definition batch_toks (b : batch) : list nat := match b with RTasks l => l | RExit => [] end.
Definition res_toks (r : nat * batch) : list nat := batch_toks (snd r).

Definition pending (s : st) : list nat := main_pending (main s) ++ flat_map slot_pending (slots s).
Definition produced (s : st) : list nat :=
  flat_map slot_done (slots s) ++ flat_map res_toks (resq s) ++ items s ++ yielded s.

Definition InvC (all : list nat) (s : st) : Prop :=
  forall t, cnt t (pending s) + cnt t (produced s) = cnt t all /\ cnt t (executed s) = cnt t (produced s).

Arguments exec_of : simpl never.
Lemma exec_snoc_task l w i t : map snd (exec_of (l ++ [Ev w i (KTask t)])) = map snd (exec_of l) ++ [t].
Proof. unfold exec_of. rewrite flat_map_app, map_app. reflexivity. Qed.
Lemma exec_snoc_init l w i : map snd (exec_of (l ++ [Ev w i KInit])) = map snd (exec_of l).
Proof. unfold exec_of. rewrite flat_map_app, map_app. simpl. apply app_nil_r. Qed.
Lemma exec_snoc_exit l w i : map snd (exec_of (l ++ [Ev w i KExit])) = map snd (exec_of l).
Proof. unfold exec_of. rewrite flat_map_app, map_app. simpl. apply app_nil_r. Qed.
Lemma executed_app l1 l2 : map snd (exec_of (l1 ++ l2)) = map snd (exec_of l1) ++ map snd (exec_of l2).
Proof. unfold exec_of. rewrite flat_map_app, map_app. reflexivity. Qed.

Lemma cnt_flat_map_map_pill t (l : list slot) :
  cnt t (flat_map slot_pending (map (fun sl => sl <| q := q sl ++ [MPill] |> <| unf := S (unf sl) |>) l))
  = cnt t (flat_map slot_pending l).
Proof.
  induction l as [|a l IH]; simpl; [reflexivity|]. rewrite !cnt_app, IH. f_equal.
  unfold slot_pending. cbn. rewrite flat_map_app, !cnt_app. cbn. rewrite cnt_nil. lia.
Qed.
Lemma cnt_flat_map_map_pill_done t (l : list slot) :
  cnt t (flat_map slot_done (map (fun sl => sl <| q := q sl ++ [MPill] |> <| unf := S (unf sl) |>) l))
  = cnt t (flat_map slot_done l).
Proof. induction l as [|a l IH]; simpl; [reflexivity|]. rewrite !cnt_app, IH. reflexivity. Qed.

Ltac norm :=
  unfold pending, produced, slot_pending, slot_done, main_pending, set_slot, executed, log, res_toks in *;
  cbn in *;
  repeat (rewrite ?exec_snoc_task, ?exec_snoc_init, ?exec_snoc_exit in * );
  repeat (rewrite ?cnt_app, ?cnt_cons, ?cnt_nil, ?map_app, ?flat_map_app, ?app_nil_r, ?concat_app in * );
  cbn in *;
  repeat (rewrite ?cnt_app, ?cnt_cons, ?cnt_nil, ?app_nil_r in * ).

Ltac rw_all := repeat match goal with
  | H : main _ = _ |- _ => rewrite H in *; clear H
  | H : items _ = _ |- _ => rewrite H in *; clear H
  | H : resq _ = _ |- _ => rewrite H in *; clear H
  | H : q _ = _ |- _ => rewrite H in *; clear H
  | H : pc _ = _ |- _ => rewrite H in *; clear H end.

Ltac slotfacts s w sl Hn t :=
  match goal with
  | |- context[upd (slots s) w ?x] =>
      pose proof (cnt_flat_map_upd slot_pending t (slots s) w x sl Hn);
      pose proof (cnt_flat_map_upd slot_done t (slots s) w x sl Hn)
  | _ => idtac
  end.

Ltac fin s w sl Hn t :=
  norm; slotfacts s w sl Hn t; norm; rw_all; norm;
  repeat match goal with |- context[Nat.eq_dec ?a ?b] => destruct (Nat.eq_dec a b) end; lia.

Lemma step_InvC c all s a s' : InvC all s -> step c s a = Some s' -> InvC all s'.
Proof.
  intros HI Hs t. specialize (HI t). destruct a as [| |w|w]; cbn [step] in Hs.
  - (* main *)
    destruct (main s) as [rem [ch|]| | | | | |] eqn:Hm; try discriminate.
    + destruct (blocked _ _ _).
      * destruct (items s) as [|x it] eqn:Hi; inversion Hs; subst; clear Hs. fin s 0 (@None slot) Hm t.
      * destruct (choose c (tidx s) (lastc s)) as [[[w ti] lc]|]; [|discriminate].
        destruct (nth_error (slots s) w) as [sl|] eqn:Hn; inversion Hs; subst; clear Hs.
        fin s w sl Hn t.
    + destruct (predraw _ _).
      * destruct (items s) as [|x it] eqn:Hi; inversion Hs; subst; clear Hs. fin s 0 (@None slot) Hm t.
      * destruct rem as [|ch rem']; inversion Hs; subst; clear Hs; fin s 0 (@None slot) Hm t.
    + destruct (items s) as [|x it] eqn:Hi.
      * destruct (exhausted _ _); inversion Hs; subst; clear Hs. fin s 0 (@None slot) Hm t.
      * inversion Hs; subst; clear Hs. fin s 0 (@None slot) Hm t.
    + inversion Hs; subst; clear Hs. norm. rewrite cnt_flat_map_map_pill, cnt_flat_map_map_pill_done.
      rw_all. norm. lia.
    + destruct (forallb _ _); inversion Hs; subst; clear Hs. fin s 0 (@None slot) Hm t.
    + destruct (forallb _ _); inversion Hs; subst; clear Hs. fin s 0 (@None slot) Hm t.
    + destruct (resq s) eqn:Hr; inversion Hs; subst; clear Hs. fin s 0 (@None slot) Hm t.
  - (* results handler *)
    destruct (resq s) as [|[w b] r] eqn:Hr; try discriminate.
    destruct (nth_error (slots s) w) as [sl|] eqn:Hn; inversion Hs; subst; clear Hs.
    destruct b; fin s w sl Hn t.
  - (* worker *)
    destruct (nth_error (slots s) w) as [sl|] eqn:Hn; try discriminate.
    destruct (pc sl) as [| |ch|rest acc| | |] eqn:Hp; try discriminate.
    + inversion Hs; subst; clear Hs. fin s w sl Hn t.
    + destruct (alive_guard c (nexec sl)).
      * destruct (q sl) as [|[ch|] qr] eqn:Hq; inversion Hs; subst; clear Hs.
        -- destruct (run_init_guard _ _); fin s w sl Hn t.
        -- destruct (exit_pill _ _); fin s w sl Hn t.
      * inversion Hs; subst; clear Hs. destruct (has_exit c); fin s w sl Hn t.
    + inversion Hs; subst; clear Hs. fin s w sl Hn t.
    + destruct rest as [|t0 rest]; inversion Hs; subst; clear Hs; fin s w sl Hn t.
    + inversion Hs; subst; clear Hs. fin s w sl Hn t.
    + destruct (must_wait _ _); inversion Hs; subst; clear Hs. fin s w sl Hn t.
  - (* restart handler *)
    destruct (nth_error (slots s) w) as [sl|] eqn:Hn; try discriminate.
    destruct (pc sl) eqn:Hp; try discriminate.
    destruct (restart sl); inversion Hs; subst; clear Hs. fin s w sl Hn t.
Qed.

Lemma flat_map_repeat_nil {A B} (f : A -> list B) x n : f x = [] -> flat_map f (repeat x n) = [].
Proof. intros H. induction n; simpl; [reflexivity|]. rewrite H, IHn. reflexivity. Qed.

Lemma init_InvC c chunks : InvC (concat chunks) (init c chunks).
Proof.
  intros t. unfold init, pending, produced, executed; simpl.
  rewrite !flat_map_repeat_nil by reflexivity. cbn. rewrite ?app_nil_r, ?cnt_app, ?cnt_nil. split; [lia|reflexivity].
Qed.

Theorem run_InvC c chunks sched : InvC (concat chunks) (run c (init c chunks) sched).
Proof.
  generalize (init_InvC c chunks). generalize (init c chunks).
  induction sched as [|a r IH]; intros s HI; simpl; [exact HI|].
  destruct (step c s a) eqn:Hs; [apply IH; eapply step_InvC; eauto|apply IH; exact HI].
Qed.

(* Proofs/CoreIdent.v -- worker identity: ids are in [0, n_jobs), an id is never used by two
   instances at the same time (the events of successive instances of a slot do not interleave),
   and what the source prepends to every call. *)
From Coq Require Import List Arith Lia Bool String.
From RecordUpdate Require Import RecordUpdate.
From Mpv Require Import NumOps GenProto GenArgs GenStruct Core ProtoSpec CoreLemmas CoreCons CoreOrder CoreLife CoreInit OrderHist.
Import ListNotations.
Close Scope Z_scope.
Open Scope nat_scope.

(* instance numbers of the events of worker w, in log order *)
Definition insts (w : nat) (l : list event) : list nat := map ev_inst (filter (fun e => ev_w e =? w) l).
Arguments insts : simpl never.
Lemma insts_snoc w l e : insts w (l ++ [e]) = insts w l ++ (if ev_w e =? w then [ev_inst e] else []).
Proof. unfold insts. rewrite filter_app, map_app. simpl. destruct (ev_w e =? w); reflexivity. Qed.

Fixpoint nondecr (l : list nat) : Prop :=
  match l with [] => True | x :: r => (match r with [] => True | y :: _ => x <= y end) /\ nondecr r end.
Lemma nondecr_snoc l x : nondecr l -> Forall (fun y => y <= x) l -> nondecr (l ++ [x]).
Proof.
  induction l as [|a l IH]; intros Hn Hf; cbn; [auto|].
  destruct Hn as [H1 H2]. pose proof (Forall_inv Hf) as Ha. pose proof (Forall_inv_tail Hf) as Hf'.
  split; [|apply IH; assumption].
  destruct l as [|b l']; cbn; [assumption|assumption].
Qed.

Definition InvD (c : cfg) (s : st) : Prop :=
  List.length (slots s) = njobs c /\
  forall w, nondecr (insts w (evlog s)) /\
            match nth_error (slots s) w with
            | Some sl => Forall (fun i => i <= inst sl) (insts w (evlog s))
            | None => insts w (evlog s) = []
            end.

Lemma Forall_le_trans l a b : Forall (fun i => i <= a) l -> a <= b -> Forall (fun i => i <= b) l.
Proof. intros H Hab. eapply Forall_impl; [|exact H]. cbn. intros; lia. Qed.

Lemma step_InvD c s a s' : InvD c s -> step c s a = Some s' -> InvD c s'.
Proof.
  intros [Hlen HD] Hs.
  step_cases c s a s' Hs.
  all: split; unfold set_slot, log; cbn; rewrite ?upd_length, ?map_length; try assumption.
  all: intros w1; specialize (HD w1); destruct HD as [Hnd Hf].
  (* the log is unchanged, slots possibly updated without touching inst *)
  all: try solve [ split; [assumption|]; try assumption;
                   try (destruct (Nat.eq_dec w w1) as [->|Hne];
                        [rewrite (nth_error_upd_same _ _ _ _ Hn); rewrite Hn in Hf; cbn; assumption
                        |rewrite nth_error_upd_other by assumption; assumption]) ].
  all: try solve [ split; [assumption|]; rewrite nth_error_map; destruct (nth_error (slots s) w1); cbn; assumption ].
  (* an event of the stepping worker is appended with its current instance number *)
  all: try solve [ rewrite insts_snoc; cbn [ev_w ev_inst];
                   destruct (Nat.eq_dec w w1) as [->|Hne];
                   [ rewrite Nat.eqb_refl; rewrite Hn in Hf; rewrite (nth_error_upd_same _ _ _ _ Hn); cbn;
                     split; [apply nondecr_snoc; assumption|apply Forall_app; split; [assumption|constructor; [lia|constructor]]]
                   | replace (w =? w1) with false by (symmetry; apply Nat.eqb_neq; assumption); rewrite app_nil_r;
                     rewrite nth_error_upd_other by assumption; split; assumption ] ].
  (* restart: the instance number grows *)
  all: try solve [ split; [assumption|]; destruct (Nat.eq_dec w w1) as [->|Hne];
                   [ rewrite (nth_error_upd_same _ _ _ _ Hn); rewrite Hn in Hf; cbn; eapply Forall_le_trans; eauto
                   | rewrite nth_error_upd_other by assumption; assumption ] ].
Qed.

Lemma init_InvD c chunks : InvD c (init c chunks).
Proof.
  split; [apply repeat_length|]. intros w. cbn. split; [exact I|].
  destruct (nth_error (repeat init_slot (njobs c)) w); [constructor|reflexivity].
Qed.

(* C13: every event is attributed to a worker id below n_jobs *)
Theorem ids_in_range c chunks sched e :
  In e (evlog (run c (init c chunks) sched)) -> ev_w e < njobs c.
Proof.
  intros Hin.
  assert (HI : InvD c (run c (init c chunks) sched)).
  { apply run_invariant; [apply init_InvD|]. intros; eapply step_InvD; eauto. }
  destruct HI as [Hlen HD]. destruct (HD (ev_w e)) as [_ Hf].
  destruct (nth_error (slots (run c (init c chunks) sched)) (ev_w e)) eqn:En.
  - rewrite <- Hlen. apply nth_error_Some. congruence.
  - exfalso. unfold insts in Hf. apply map_eq_nil in Hf.
    assert (Hx : In e (filter (fun e0 => ev_w e0 =? ev_w e) (evlog (run c (init c chunks) sched)))).
    { apply filter_In. split; [assumption|apply Nat.eqb_refl]. }
    rewrite Hf in Hx. destruct Hx.
Qed.

(* C13: a worker id is never held by two instances at the same time -- in the log of any worker id
   the instance numbers never go back: all events of instance k precede all events of instance k+1 *)
Theorem instances_do_not_interleave c chunks sched w :
  nondecr (insts w (evlog (run c (init c chunks) sched))).
Proof.
  assert (HI : InvD c (run c (init c chunks) sched)).
  { apply run_invariant; [apply init_InvD|]. intros; eapply step_InvD; eauto. }
  destruct HI as [_ HD]. apply HD.
Qed.

(* ---- what the source prepends, and how a task element is unpacked ---- *)
Theorem extras_order a b c :
  set_additional_args a b c = (if a then [EWid] else []) ++ (if b then [EShared] else []) ++ (if c then [EState] else []).
Proof. reflexivity. Qed.

Theorem extras_sorted a b c :   (* worker id before shared objects before worker state, each at most once *)
  forall x y l1 l2 l3, set_additional_args a b c = l1 ++ x :: l2 ++ y :: l3 ->
  (x = EWid /\ (y = EShared \/ y = EState)) \/ (x = EShared /\ y = EState).
Proof.
  intros x y l1 l2 l3 H. destruct a, b, c; cbn in H;
  repeat (destruct l1 as [|? l1]; cbn in H; try discriminate);
  repeat (destruct l2 as [|? l2]; cbn in H; try discriminate);
  inversion H; subst; auto.
Qed.

Theorem call_convention is_dict kwargs_none is_iterable is_strbytes is_ndarray :
  convert_class is_dict kwargs_none is_iterable is_strbytes is_ndarray =
  if is_dict && kwargs_none then CKwargs                         (* a dict becomes keyword arguments *)
  else if is_iterable && negb is_strbytes && negb is_ndarray then CUnpack   (* other iterables are unpacked *)
  else CSingle.                                                  (* scalars, str, bytes, ndarrays: one argument *)
Proof. unfold convert_class. destruct is_dict, kwargs_none, is_iterable, is_strbytes, is_ndarray; reflexivity. Qed.

(* the call sites: extras first, then the task's own arguments; the same extras (hence the same
   worker_state object, created empty with the instance) for init, every task and exit *)
Definition call_sites_ok : bool :=
  has "return partial(helper_func, partial(func, *self.additional_args))" get_func_body &&
  has "return func(*args, **kwargs)" call_func_body &&
  has "args, kwargs = self._convert_args_kwargs(args, kwargs)" call_func_body &&
  has "return (args[0], self._call_func(func, args[1]))" helper_func_with_idx_body &&
  has "self.worker_state = {}" worker_init_body &&
  has "self.map_params.worker_init(*self.additional_args)" init_exit_calls &&
  has "self.map_params.worker_exit(*self.additional_args)" init_exit_calls &&
  has "  self._set_additional_args()" worker_run_body.
Theorem call_sites_spec : call_sites_ok = true.
Proof. vm_compute. reflexivity. Qed.

(* Proofs/CoreInit.v -- worker_init / worker_exit run exactly once per WORKING worker instance,
   for ALL schedules: the event sequence of every instance is empty or  init? task+ exit?  (init
   present iff configured, exit present iff configured), and every exit invocation delivers
   exactly one exit result. *)
From Coq Require Import List Arith Lia Bool.
From RecordUpdate Require Import RecordUpdate.
From Mpv Require Import NumOps GenProto Core ProtoSpec CoreLemmas CoreCons CoreOrder CoreLife.
Import ListNotations.
Close Scope Z_scope.
Open Scope nat_scope.

Definition ktag (k : evkind) : nat := match k with KInit => 0 | KTask _ => 1 | KExit => 2 end.
Definition of_inst (w i : nat) (e : event) : bool := (ev_w e =? w) && (ev_inst e =? i).
Definition proj (w i : nat) (l : list event) : list nat := map (fun e => ktag (ev_kind e)) (filter (of_inst w i) l).
Arguments proj : simpl never.

Lemma proj_snoc w i l e : proj w i (l ++ [e]) = proj w i l ++ (if of_inst w i e then [ktag (ev_kind e)] else []).
Proof. unfold proj. rewrite filter_app, map_app. simpl. destruct (of_inst w i e); reflexivity. Qed.
Lemma of_inst_same w i k : of_inst w i (Ev w i k) = true.
Proof. unfold of_inst. cbn. rewrite !Nat.eqb_refl. reflexivity. Qed.
Lemma of_inst_other w i w0 i0 k : (w0 <> w \/ i0 <> i) -> of_inst w i (Ev w0 i0 k) = false.
Proof.
  intros H. unfold of_inst. cbn. destruct (Nat.eqb_spec w0 w), (Nat.eqb_spec i0 i); cbn; try reflexivity.
  subst. destruct H; congruence.
Qed.

Definition done_tasks (sl : slot) : nat := nexec sl + run_done (pc sl).
Definition shape (sl : slot) : list nat :=
  (if init_done sl then [0] else []) ++ repeat 1 (done_tasks sl) ++ (if exited sl then [2] else []).
(* what a finished instance looks like *)
Definition final_shape (c : cfg) (l : list nat) : Prop :=
  l = [] \/ exists k, 1 <= k /\
     l = (if has_init c then [0] else []) ++ repeat 1 k ++ (if has_exit c then [2] else []).

Definition nonempty_pc (p : wpc) : Prop :=
  match p with WInit ch => ch <> [] | WRun rest acc => rest ++ acc <> [] | _ => True end.
Definition msg_nonempty (m : msg) : Prop := match m with MChunk ch => ch <> [] | MPill => True end.
Definition finishing (p : wpc) : bool := match p with WFinal | WDead => true | _ => false end.
Definition count_exit_ev (l : list event) : nat := length (filter (fun e => match ev_kind e with KExit => true | _ => false end) l).
Definition count_exit_res (r : list (nat * batch)) : nat := length (filter (fun x => match snd x with RExit => true | _ => false end) r).
Arguments count_exit_ev : simpl never.

Record InvI (c : cfg) (s : st) : Prop := {
  n_len : length (slots s) = njobs c;
  n_main : match main s with
           | MDispatch rem pend => Forall (fun ch => ch <> []) rem /\ match pend with Some ch => ch <> [] | None => True end
           | _ => True end;
  n_slot : forall w sl, nth_error (slots s) w = Some sl ->
      Forall msg_nonempty (q sl) /\ nonempty_pc (pc sl) /\
      proj w (inst sl) (evlog s) = shape sl /\
      (init_done sl = true -> has_init c = true /\ (0 < nexec sl \/ running (pc sl) = true)) /\
      (has_init c = true -> init_done sl = false -> nexec sl = 0 /\ match pc sl with WRun _ _ => False | _ => True end) /\
      (exited sl = true -> has_exit c = true /\ 0 < nexec sl /\ finishing (pc sl) = true) /\
      (finishing (pc sl) = true -> has_exit c = true -> 0 < nexec sl -> exited sl = true) /\
      (pc sl = WExit -> has_exit c = true /\ 0 < nexec sl) /\
      (forall i, i < inst sl -> final_shape c (proj w i (evlog s))) /\
      (forall i, inst sl < i -> proj w i (evlog s) = []);
  n_none : forall w i, nth_error (slots s) w = None -> proj w i (evlog s) = [];
  n_exit : exit_items s + count_exit_res (resq s) = count_exit_ev (evlog s);
  n_late : match main s with
           | MJoinR | MDone => forall w sl, nth_error (slots s) w = Some sl -> pc sl = WDead /\ restart sl = false
           | _ => True end;
  n_done : main s = MDone -> resq s = []
}.

Lemma count_exit_ev_snoc l e : count_exit_ev (l ++ [e]) = count_exit_ev l + match ev_kind e with KExit => 1 | _ => 0 end.
Proof. unfold count_exit_ev. rewrite filter_app, app_length. simpl. destruct (ev_kind e); reflexivity. Qed.
Lemma count_exit_res_snoc r x : count_exit_res (r ++ [x]) = count_exit_res r + match snd x with RExit => 1 | _ => 0 end.
Proof. unfold count_exit_res. rewrite filter_app, app_length. simpl. destruct (snd x); reflexivity. Qed.
Lemma repeat_snoc {A} (x : A) n : repeat x n ++ [x] = repeat x (S n).
Proof. induction n; simpl; [reflexivity|]. rewrite IHn. reflexivity. Qed.

Ltac proj_simpl :=
  repeat (rewrite proj_snoc);
  repeat first [ rewrite of_inst_same | rewrite of_inst_other by (first [left; congruence | right; lia]) ];
  rewrite ?app_nil_r.

Section Init.
Variable c : cfg.
Hypothesis Hlife : match lifespan c with Some L => 1 <= L | None => True end.

Lemma step_InvI s a s' : InvI c s -> step c s a = Some s' -> InvI c s'.
Proof.
  intros [Hlen Hmain Hslot Hnone Hexit Hlate Hdone] Hs.
  step_cases c s a s' Hs.
  all: try rewrite Hm in Hmain, Hlate.
  all: constructor; unfold set_slot, log; cbn; rewrite ?upd_length, ?map_length; try assumption.
  all: try (rewrite Hm; assumption).
  all: try solve [rewrite Hm; discriminate].
  all: try solve [intros; discriminate].
  all: try solve [intros w1 sl1 Hn1; apply (Hslot w1 sl1 Hn1)].
  all: try solve [intros w1 i1 Hn1; destruct (Nat.eq_dec w w1) as [->|Hne];
                  [rewrite (nth_error_upd_same _ _ _ _ Hn) in Hn1; discriminate
                  |rewrite nth_error_upd_other in Hn1 by assumption; proj_simpl; auto]].
  all: idtac.
  Show.
Admitted.
End Init.

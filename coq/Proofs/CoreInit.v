(* Proofs/CoreInit.v -- worker_init / worker_exit run exactly once per WORKING worker instance,
   for ALL schedules: the event sequence of every instance is empty or  init? task+ exit?  (init
   present iff configured, exit present iff configured), and every exit invocation delivers
   exactly one exit result. *)
From Coq Require Import List Arith Lia Bool.
From RecordUpdate Require Import RecordUpdate.
From Mpv Require Import NumOps GenProto Core ProtoSpec CoreLemmas CoreCons CoreOrder CoreLife.
Import ListNotations.
Close Scope Z_scope.
Open Scope nat_scope.

Definition ktag (k : evkind) : nat := match k with KInit => 0 | KTask _ => 1 | KExit => 2 end.
Definition of_inst (w i : nat) (e : event) : bool := (ev_w e =? w) && (ev_inst e =? i).
Definition proj (w i : nat) (l : list event) : list nat := map (fun e => ktag (ev_kind e)) (filter (of_inst w i) l).
Arguments proj : simpl never.

Lemma proj_snoc w i l e : proj w i (l ++ [e]) = proj w i l ++ (if of_inst w i e then [ktag (ev_kind e)] else []).
Proof. unfold proj. rewrite filter_app, map_app. simpl. destruct (of_inst w i e); reflexivity. Qed.
Lemma of_inst_same w i k : of_inst w i (Ev w i k) = true.
Proof. unfold of_inst. cbn. rewrite !Nat.eqb_refl. reflexivity. Qed.
Lemma of_inst_other w i w0 i0 k : (w0 <> w \/ i0 <> i) -> of_inst w i (Ev w0 i0 k) = false.
Proof.
  intros H. unfold of_inst. cbn. destruct (Nat.eqb_spec w0 w), (Nat.eqb_spec i0 i); cbn; try reflexivity.
  subst. destruct H; congruence.
Qed.

Definition done_tasks (sl : slot) : nat := nexec sl + run_done (pc sl).
Definition shape (sl : slot) : list nat :=
  (if init_done sl then [0] else []) ++ repeat 1 (done_tasks sl) ++ (if exited sl then [2] else []).
(* what a finished instance looks like *)
Definition final_shape (c : cfg) (l : list nat) : Prop :=
  l = [] \/ exists k, 1 <= k /\
     l = (if has_init c then [0] else []) ++ repeat 1 k ++ (if has_exit c then [2] else []).

Definition nonempty_pc (p : wpc) : Prop :=
  match p with WInit ch => ch <> [] | WRun rest acc => rest ++ acc <> [] | _ => True end.
Definition msg_nonempty (m : msg) : Prop := match m with MChunk ch => ch <> [] | MPill => True end.
Definition finishing (p : wpc) : bool := match p with WFinal | WDead => true | _ => false end.
Definition count_exit_ev (l : list event) : nat := length (filter (fun e => match ev_kind e with KExit => true | _ => false end) l).
Definition count_exit_res (r : list (nat * batch)) : nat := length (filter (fun x => match snd x with RExit => true | _ => false end) r).
Arguments count_exit_ev : simpl never.
Arguments count_exit_res : simpl never.

Record InvI (c : cfg) (s : st) : Prop := {
  n_len : length (slots s) = njobs c;
  n_main : match main s with
           | MDispatch rem pend => Forall (fun ch => ch <> []) rem /\ match pend with Some ch => ch <> [] | None => True end
           | _ => True end;
  n_slot : forall w sl, nth_error (slots s) w = Some sl ->
      Forall msg_nonempty (q sl) /\ nonempty_pc (pc sl) /\
      proj w (inst sl) (evlog s) = shape sl /\
      (init_done sl = true -> has_init c = true /\ (0 < nexec sl \/ running (pc sl) = true)) /\
      (has_init c = true -> init_done sl = false -> nexec sl = 0 /\ match pc sl with WRun _ _ => False | _ => True end) /\
      (exited sl = true -> has_exit c = true /\ 0 < nexec sl /\ finishing (pc sl) = true) /\
      (finishing (pc sl) = true -> has_exit c = true -> 0 < nexec sl -> exited sl = true) /\
      (pc sl = WExit -> has_exit c = true /\ 0 < nexec sl) /\
      (match pc sl with WInit _ => init_done sl = false /\ has_init c = true | _ => True end) /\
      (forall i, i < inst sl -> final_shape c (proj w i (evlog s))) /\
      (forall i, inst sl < i -> proj w i (evlog s) = []);
  n_none : forall w i, nth_error (slots s) w = None -> proj w i (evlog s) = [];
  n_exit : exit_items s + count_exit_res (resq s) = count_exit_ev (evlog s);
  n_late : match main s with
           | MJoinR | MDone => forall w sl, nth_error (slots s) w = Some sl -> pc sl = WDead /\ restart sl = false
           | _ => True end;
  n_done : main s = MDone -> resq s = []
}.

Lemma count_exit_ev_snoc l e : count_exit_ev (l ++ [e]) = count_exit_ev l + match ev_kind e with KExit => 1 | _ => 0 end.
Proof. unfold count_exit_ev. rewrite filter_app, app_length. simpl. destruct (ev_kind e); reflexivity. Qed.
Lemma count_exit_res_snoc r x : count_exit_res (r ++ [x]) = count_exit_res r + match snd x with RExit => 1 | _ => 0 end.
Proof. unfold count_exit_res. rewrite filter_app, app_length. simpl. destruct (snd x); reflexivity. Qed.
Lemma count_exit_res_cons x r : count_exit_res (x :: r) = match snd x with RExit => 1 | _ => 0 end + count_exit_res r.
Proof. unfold count_exit_res. simpl. destruct (snd x); reflexivity. Qed.
Lemma repeat_snoc {A} (x : A) n : repeat x n ++ [x] = repeat x (S n).
Proof. induction n; simpl; [reflexivity|]. rewrite IHn. reflexivity. Qed.

Ltac proj_simpl :=
  repeat (rewrite proj_snoc);
  repeat first [ rewrite of_inst_same | rewrite of_inst_other by (first [left; congruence | right; lia]) ];
  rewrite ?app_nil_r.

Lemma dead_final c sl :
  pc sl = WDead ->
  (init_done sl = true -> has_init c = true /\ (0 < nexec sl \/ running (pc sl) = true)) ->
  (has_init c = true -> init_done sl = false -> nexec sl = 0 /\ match pc sl with WRun _ _ => False | _ => True end) ->
  (exited sl = true -> has_exit c = true /\ 0 < nexec sl /\ finishing (pc sl) = true) ->
  (finishing (pc sl) = true -> has_exit c = true -> 0 < nexec sl -> exited sl = true) ->
  final_shape c (shape sl).
Proof.
  intros Hp Hi1 Hi2 He1 He2. unfold final_shape, shape, done_tasks. rewrite Hp in *. cbn in *.
  destruct (Nat.eq_dec (nexec sl) 0) as [E0|E0].
  - left. destruct (init_done sl) eqn:Hid.
    + destruct (Hi1 eq_refl) as [_ [H|H]]; [lia|discriminate].
    + destruct (exited sl) eqn:Hex; [destruct (He1 eq_refl) as (_ & H & _); lia|].
      rewrite E0. reflexivity.
  - right. exists (nexec sl). split; [lia|]. rewrite Nat.add_0_r.
    assert (Hid : init_done sl = has_init c).
    { destruct (init_done sl) eqn:Hid, (has_init c) eqn:Hhi; try reflexivity.
      - destruct (Hi1 eq_refl) as [H _]. discriminate.
      - destruct (Hi2 eq_refl eq_refl) as [H _]. lia. }
    assert (Hex : exited sl = has_exit c).
    { destruct (exited sl) eqn:Hex, (has_exit c) eqn:Hhe; try reflexivity.
      - destruct (He1 eq_refl) as [H _]. discriminate.
      - assert (Ht : false = true) by (apply He2; [reflexivity|reflexivity|lia]). discriminate. }
    rewrite Hid, Hex. reflexivity.
Qed.

Ltac use_facts Hi1 Hi2 He1 He2 He3 :=
  try assumption; try discriminate; try lia; try reflexivity;
  try (match goal with H : init_done _ = true |- _ => destruct (Hi1 H) as [?Hz [?Hy|?Hy]] end;
       try assumption; try discriminate; try lia; try (left; lia); try (left; assumption); try (right; reflexivity));
  try (match goal with H : exited _ = true |- _ => destruct (He1 H) as (?Hz & ?Hy & ?Hx) end;
       try assumption; try discriminate; try lia);
  try (match goal with H1 : has_init _ = true, H2 : init_done _ = false |- _ => destruct (Hi2 H1 H2) as [?Hz ?Hy] end;
       try assumption; try lia; try contradiction; try exact I).

Section Init.
Variable c : cfg.
Hypothesis Hlife : match lifespan c with Some L => 1 <= L | None => True end.

Lemma step_InvI s a s' : InvI c s -> step c s a = Some s' -> InvI c s'.
Proof.
  intros [Hlen Hmain Hslot Hnone Hexit Hlate Hdone] Hs.
  step_cases c s a s' Hs.
  all: try rewrite Hm in Hmain, Hlate.
  all: constructor; unfold set_slot, log; cbn; rewrite ?upd_length, ?map_length; try assumption.
  all: try (rewrite Hm; assumption).
  all: try solve [rewrite Hm; discriminate].
  all: try solve [intros; discriminate].
  all: try solve [intros w1 sl1 Hn1; apply (Hslot w1 sl1 Hn1)].
  all: try solve [intros w1 i1 Hn1; destruct (Nat.eq_dec w w1) as [->|Hne];
                  [rewrite (nth_error_upd_same _ _ _ _ Hn) in Hn1; discriminate
                  |rewrite nth_error_upd_other in Hn1 by assumption; proj_simpl; auto]].
  (* other slots / stepping slot *)
  all: try (intros w1 sl1 Hn1; slot_split Hn w1;
            [ destruct (Hslot _ _ Hn) as (Hq1 & Hne & Hpr & Hi1 & Hi2 & He1 & He2 & He3 & Hwi & Hpast & Hfut); cbn
            | destruct (Hslot _ _ Hn1) as (Hq1 & Hne & Hpr & Hi1 & Hi2 & He1 & He2 & He3 & Hwi & Hpast & Hfut);
              repeat split; try (intros i Hi); proj_simpl; auto; try (apply Hi1; assumption); try (apply Hi2; assumption);
              try (apply He1; assumption); try (apply He3; assumption) ]).
  (* stepping slot, steps that do not touch the log, init_done, nexec, exited: everything carries over *)
  all: try solve [ unfold shape, done_tasks in *; rewrite ?Hp, ?Hq in *; cbn in *;
                   repeat match goal with |- context[if ?b then _ else _] => destruct b eqn:? end; cbn;
                   try (pose proof (Forall_inv Hq1) as Hhd; pose proof (Forall_inv_tail Hq1) as Htl; cbn in Hhd);
                   try (destruct Hmain as [Hrem Hpend]);
                   repeat split; try (intros i Hi); auto; try discriminate; try lia;
                   try (apply Forall_app; split; [assumption|constructor; [cbn; auto|constructor]]);
                   try (apply Hi1; assumption); try (apply Hi2; assumption); try (apply He1; assumption);
                   try (apply He2; assumption); try (apply He3; assumption); try tauto ].
  (* A/B: the endgame facts *)
  all: try solve [ destruct (main s) eqn:Hmm; auto; intros w2 sl2 Hn2;
                   (slot_split Hn w2; [ exfalso; destruct (Hlate _ _ Hn) as [Hd1 Hd2]; congruence | apply (Hlate _ _ Hn2) ]) ].
  all: try solve [ destruct (main s) eqn:Hmm; auto; intros w2 sl2 Hn2;
                   (slot_split Hn w2; [ cbn; apply (Hlate _ _ Hn) | apply (Hlate _ _ Hn2) ]) ].
  all: try solve [ intros Hmd; specialize (Hdone Hmd); congruence ].
  all: try solve [ intros Hmd; rewrite Hmd in Hlate; destruct (Hlate _ _ Hn) as [Hd1 Hd2]; congruence ].
  (* C: exit results are counted once *)
  all: try solve [ rewrite ?count_exit_ev_snoc, ?count_exit_res_snoc; cbn; rewrite ?Hr, ?count_exit_res_cons in *; cbn in *; lia ].
  (* D: chunks still to be dispatched are non-empty *)
  all: try solve [ destruct Hmain as [Hrem Hpend]; repeat split; auto; inversion Hrem; subst; auto ].
  - (* pills *)
    intros w1 sl1 Hn1. apply nth_error_map_some in Hn1. destruct Hn1 as (sl0 & Hn0 & ->).
    destruct (Hslot _ _ Hn0) as (Hq1 & Hne & Hpr & Hi1 & Hi2 & He1 & He2 & He3 & Hwi & Hpast & Hfut). cbn.
    repeat split; auto; try (apply Hi1; assumption); try (apply Hi2; assumption); try (apply He1; assumption);
      try (apply He3; assumption).
    apply Forall_app; split; [assumption|constructor; [exact I|constructor]].
  - intros w1 i1 Hn1. apply Hnone. rewrite nth_error_map in Hn1. destruct (nth_error (slots s) w1); [discriminate|reflexivity].
  - (* all workers joined *)
    intros w1 sl1 Hn1. rewrite forallb_forall in Hall. specialize (Hall sl1 (nth_error_In _ _ Hn1)).
    destruct (pc sl1); try discriminate. split; [reflexivity|]. destruct (restart sl1); [discriminate|reflexivity].
  - (* a chunk is taken: init is due iff configured and not yet run *)
    unfold shape, done_tasks in *. rewrite Hp, Hq in *. pose proof (Forall_inv Hq1) as Hhd. pose proof (Forall_inv_tail Hq1) as Htl. cbn in Hhd.
    cbn in *.
    rewrite run_init_guard_spec. destruct (has_init c) eqn:Hhi, (init_done sl) eqn:Hid; cbn;
      repeat split; use_facts Hi1 Hi2 He1 He2 He3; try (rewrite app_nil_r; assumption).
  - (* lethal pill *)
    unfold shape, done_tasks in *. rewrite Hp, Hq in *. pose proof (Forall_inv_tail Hq1) as Htl.
    cbn in *.
    rewrite exit_pill_spec. destruct (has_exit c) eqn:Hhe; cbn; [destruct (nexec sl) eqn:Hnx|]; cbn;
      repeat split; use_facts Hi1 Hi2 He1 He2 He3.
  - (* lifespan reached *)
    unfold shape, done_tasks in *. rewrite Hp in *. cbn in *.
    assert (Hpos : has_exit c = true -> 0 < nexec sl).
    { intros _. destruct (lifespan c) as [L|]; [|discriminate]. apply Nat.ltb_ge in Hal. lia. }
    destruct (has_exit c) eqn:Hhe; cbn; repeat split; use_facts Hi1 Hi2 He1 He2 He3; try (apply Hpos; reflexivity).
  - (* worker_init runs *)
    unfold shape, done_tasks in *. rewrite Hp in *. cbn in *. destruct Hwi as [Hid Hhi].
    destruct (Hi2 Hhi Hid) as [Hz _]. rewrite Hid, Hz in *. cbn in *.
    assert (Hex : exited sl = false).
    { destruct (exited sl) eqn:Hex; [destruct (He1 eq_refl) as (_ & _ & Hx); discriminate|reflexivity]. }
    rewrite Hex in *. proj_simpl. rewrite Hpr. cbn.
    repeat split; auto; try discriminate; try (intros i Hi; proj_simpl; auto);
      try (rewrite app_nil_r; assumption).
  - (* a chunk is finished *)
    unfold shape, done_tasks in *. rewrite Hp in *. cbn in *.
    assert (Hacc : 0 < length acc). { destruct acc; [exfalso; apply Hne; reflexivity|cbn; lia]. }
    repeat split; use_facts Hi1 Hi2 He1 He2 He3; try (rewrite Nat.add_0_r; assumption).
  - (* one task runs *)
    unfold shape, done_tasks in *. rewrite Hp in *. cbn in *.
    assert (Hex : exited sl = false).
    { destruct (exited sl) eqn:Hex; [destruct (He1 eq_refl) as (_ & _ & Hx); discriminate|reflexivity]. }
    rewrite Hex in *. rewrite app_nil_r in *. proj_simpl. rewrite Hpr. cbn. rewrite app_length. cbn.
    repeat split; use_facts Hi1 Hi2 He1 He2 He3; try (intros i Hi; proj_simpl; auto).
    all: try (intros Hx; destruct rest; destruct acc; discriminate).
    all: try (rewrite <- app_assoc; f_equal; rewrite repeat_snoc; f_equal; lia).
  - (* worker_exit runs *)
    unfold shape, done_tasks in *. rewrite Hp in *. cbn in *.
    assert (Hex : exited sl = false).
    { destruct (exited sl) eqn:Hex; [destruct (He1 eq_refl) as (_ & _ & Hx); discriminate|reflexivity]. }
    rewrite Hex in *. rewrite app_nil_r in *. proj_simpl. rewrite Hpr. cbn.
    destruct (He3 eq_refl) as [Hhe Hpos].
    repeat split; use_facts Hi1 Hi2 He1 He2 He3; try (intros i Hi; proj_simpl; auto).
    all: try (rewrite <- app_assoc; reflexivity).
  - (* restart: the finished predecessor has the final shape; the successor has no events *)
    rewrite Hp in *.
    repeat split; auto; try discriminate; try lia.
    all: try (apply Hfut; lia).
    all: try (intros i Hi; apply Hfut; lia).
    all: try (intros i Hi; destruct (Nat.eq_dec i (inst sl)) as [->|Hne2]; [|apply Hpast; lia];
              rewrite Hpr; apply dead_final; rewrite ?Hp; auto).
Qed.




Lemma init_InvI chunks : Forall (fun ch => ch <> []) chunks -> InvI c (init c chunks).
Proof.
  intros Hc. constructor; cbn; auto; try discriminate.
  - apply repeat_length.
  - intros w sl Hn. apply nth_error_In in Hn. apply repeat_spec in Hn. subst sl. cbn.
    repeat split; auto; try discriminate; try (intros; lia).
Qed.

Lemma run_InvI chunks sched : Forall (fun ch => ch <> []) chunks -> InvI c (run c (init c chunks) sched).
Proof. intros Hc. apply run_invariant; [apply init_InvI; assumption|]. intros; eapply step_InvI; eauto. Qed.

(* C11: at the end of a call the event sequence of EVERY worker instance is empty, or
   init? task+ exit? with init/exit present iff configured *)
Theorem instance_regex chunks sched w i :
  Forall (fun ch => ch <> []) chunks ->
  main (run c (init c chunks) sched) = MDone ->
  final_shape c (proj w i (evlog (run c (init c chunks) sched))).
Proof.
  intros Hc Hd. destruct (run_InvI chunks sched Hc) as [Hlen Hmain Hslot Hnone Hexit Hlate Hdone].
  set (s := run c (init c chunks) sched) in *. rewrite Hd in Hlate.
  destruct (nth_error (slots s) w) as [sl|] eqn:Hn.
  - destruct (Hslot _ _ Hn) as (Hq1 & Hne & Hpr & Hi1 & Hi2 & He1 & He2 & He3 & Hwi & Hpast & Hfut).
    destruct (Hlate _ _ Hn) as [Hp _].
    destruct (lt_eq_lt_dec i (inst sl)) as [[Hlt|Heq]|Hgt].
    + apply Hpast. assumption.
    + subst i. rewrite Hpr. apply dead_final; auto.
    + rewrite Hfut by assumption. left. reflexivity.
  - rewrite Hnone by assumption. left. reflexivity.
Qed.

(* instances that have already been replaced satisfy it at any moment *)
Theorem finished_instance_regex chunks sched w sl i :
  Forall (fun ch => ch <> []) chunks ->
  nth_error (slots (run c (init c chunks) sched)) w = Some sl -> i < inst sl ->
  final_shape c (proj w i (evlog (run c (init c chunks) sched))).
Proof.
  intros Hc Hn Hi. destruct (run_InvI chunks sched Hc) as [_ _ Hslot _ _ _ _].
  destruct (Hslot _ _ Hn) as (_ & _ & _ & _ & _ & _ & _ & _ & _ & Hpast & _). apply Hpast. assumption.
Qed.

(* one exit result per worker_exit invocation *)
Theorem exit_results_match chunks sched :
  Forall (fun ch => ch <> []) chunks ->
  main (run c (init c chunks) sched) = MDone ->
  exit_items (run c (init c chunks) sched) = count_exit_ev (evlog (run c (init c chunks) sched)).
Proof.
  intros Hc Hd. destruct (run_InvI chunks sched Hc) as [_ _ _ _ Hexit _ Hdone].
  rewrite (Hdone Hd) in Hexit. cbn in Hexit. unfold count_exit_res in Hexit. cbn in Hexit. lia.
Qed.
End Init.
(* Proofs/CoreInv.v -- the protocol invariant of the Core model (hand-shake counters, joinable-queue
   counters, where the poison pills are, where task tokens can still be), preserved by EVERY step
   of EVERY actor.  Proofs/CoreProgress.v derives deadlock-freedom and termination from it. *)
From Coq Require Import List Arith Lia Bool.
From RecordUpdate Require Import RecordUpdate.
From Mpv Require Import NumOps GenProto Core ProtoSpec CoreLemmas CoreCons CoreOrder CoreLife.
Import ListNotations.
Close Scope Z_scope.
Open Scope nat_scope.

Definition batch_len (b : batch) : nat := match b with RTasks l => length l | RExit => 0 end.
Definition slot_len (sl : slot) : nat := list_sum (map msg_len (q sl)) + run_size (pc sl).
Definition res_len (r : list (nat * batch)) : nat := list_sum (map (fun x => batch_len (snd x)) r).
Definition flight (s : st) : nat := list_sum (map slot_len (slots s)) + res_len (resq s) + length (items s).
Definition holds (p : wpc) : nat := if running p then 1 else 0.
Definition cntw (w : nat) (r : list (nat * batch)) : nat := length (filter (fun x => fst x =? w) r).
Definition late (m : mpc) : bool := match m with MJoinQ | MJoinW | MJoinR | MDone => true | _ => false end.
Definition halted (m : mpc) : bool := match m with MStop => true | m => late m end.
Definition main_len (m : mpc) : nat :=
  match m with MDispatch rem pend => length (concat rem) + match pend with Some ch => length ch | None => 0 end | _ => 0 end.
Definition msg_pos (m : msg) : Prop := match m with MChunk ch => 0 < length ch | MPill => True end.
Definition leaving (p : wpc) : bool := match p with WExit | WFinal | WDead => true | _ => false end.
Arguments slot_len : simpl never.
Arguments res_len : simpl never.
Arguments cntw : simpl never.

Record Inv (c : cfg) (ntotal : nat) (s : st) : Prop := {
  p_len : length (slots s) = njobs c /\ 0 < njobs c;
  p_ids : Forall (fun x => fst x < njobs c) (resq s) /\ Forall (fun w => w < njobs c) (lastc s);
  p_act : match main s with MDispatch _ _ => nactive s = flight s | _ => True end;
  p_cons : main_len (main s) + flight s + length (yielded s) = ntotal /\
           ndrawn s + match main s with MDispatch rem _ => length (concat rem) | _ => 0 end = ntotal;
  p_stop : halted (main s) = true -> flight s = 0;
  p_ne : match main s with
         | MDispatch rem pend => Forall (fun ch => 0 < length ch) rem /\ match pend with Some ch => 0 < length ch | None => True end
         | _ => True end;
  p_slot : forall w sl, nth_error (slots s) w = Some sl ->
      Forall msg_pos (q sl) /\
      added sl = received sl + cntw w (resq s) /\
      (match pc sl with WBoot | WDead => received sl = added sl | _ => True end) /\
      unf sl = length (q sl) + holds (pc sl) /\
      (late (main s) = false -> pilled sl = false /\ ~ In MPill (q sl)) /\
      (late (main s) = true -> (pilled sl = true /\ q sl = []) \/ (pilled sl = false /\ q sl = [MPill])) /\
      (pilled sl = true -> leaving (pc sl) = true /\ alive_guard c (nexec sl) = true) /\
      (match pc sl with WExit | WFinal => pilled sl = true \/ alive_guard c (nexec sl) = false | _ => True end) /\
      (pc sl = WDead -> restart sl = false -> pilled sl = true) /\
      (restart sl = true -> pc sl = WDead /\ alive_guard c (nexec sl) = false) /\
      (running (pc sl) = true -> alive_guard c (nexec sl) = true)
}.

Lemma sum_upd {A} (f : A -> nat) l i x y :
  nth_error l i = Some y -> list_sum (map f (upd l i x)) + f y = list_sum (map f l) + f x.
Proof.
  revert i; induction l as [|a l IH]; intros [|i] H; simpl in *; try discriminate.
  - inversion H; subst. unfold upd; simpl. lia.
  - specialize (IH i H). unfold upd in *; simpl. lia.
Qed.

Lemma cntw_nil w : cntw w [] = 0. Proof. reflexivity. Qed.
Lemma cntw_cons w x r : cntw w (x :: r) = (if fst x =? w then 1 else 0) + cntw w r.
Proof. unfold cntw. simpl. destruct (fst x =? w); reflexivity. Qed.
Lemma cntw_snoc w r x : cntw w (r ++ [x]) = cntw w r + (if fst x =? w then 1 else 0).
Proof. unfold cntw. rewrite filter_app, app_length. simpl. destruct (fst x =? w); reflexivity. Qed.
Lemma res_len_nil : res_len [] = 0. Proof. reflexivity. Qed.
Lemma res_len_cons x r : res_len (x :: r) = batch_len (snd x) + res_len r.
Proof. reflexivity. Qed.
Lemma res_len_snoc r x : res_len (r ++ [x]) = res_len r + batch_len (snd x).
Proof. unfold res_len. rewrite map_app, list_sum_app. simpl. lia. Qed.
Lemma list_sum_msg_snoc q m : list_sum (map msg_len (q ++ [m])) = list_sum (map msg_len q) + msg_len m.
Proof. rewrite map_app, list_sum_app. simpl. lia. Qed.
Lemma sum_slot_len_pills l :
  list_sum (map slot_len (map (fun sl => sl <| q := q sl ++ [MPill] |> <| unf := S (unf sl) |>) l)) = list_sum (map slot_len l).
Proof.
  induction l as [|a l IH]; simpl; [reflexivity|]. rewrite IH. f_equal.
  unfold slot_len. cbn. rewrite list_sum_msg_snoc. cbn. lia.
Qed.

Lemma alive_restart c n : wants_restart c n = negb (alive_guard c n).
Proof.
  rewrite wants_restart_spec, alive_guard_spec. destruct (lifespan c) as [L|]; [|reflexivity].
  destruct (Nat.ltb_spec n L), (Nat.leb_spec L n); try reflexivity; lia.
Qed.

Lemma Forall_snoc {A} (P : A -> Prop) l x : Forall P l -> P x -> Forall P (l ++ [x]).
Proof. intros. apply Forall_app. split; [assumption|constructor; [assumption|constructor]]. Qed.

Lemma lsum_cons a l : list_sum (a :: l) = a + list_sum l.
Proof. reflexivity. Qed.

Lemma slot_len_eq sl : slot_len sl = list_sum (map msg_len (q sl)) + run_size (pc sl).
Proof. reflexivity. Qed.

Ltac sum_facts s w sl Hn :=
  match goal with
  | |- context[upd (slots s) w ?x] =>
      let H := fresh "Hsum" in pose proof (sum_upd slot_len (slots s) w x sl Hn) as H; rewrite !slot_len_eq in H; cbn in H
  | H0 : context[upd (slots s) w ?x] |- _ =>
      let H := fresh "Hsum" in pose proof (sum_upd slot_len (slots s) w x sl Hn) as H; rewrite !slot_len_eq in H; cbn in H
  | _ => idtac
  end.

Arguments list_sum : simpl never.

Section Step.
Variables (c : cfg) (ntotal : nat).

Lemma step_Inv s a s' : Inv c ntotal s -> step c s a = Some s' -> Inv c ntotal s'.
Proof.
  intros [[Hlen Hnj] [Hids Hlc] Hact [Hcons Hdr] Hstop Hne Hslot] Hs.
  step_cases c s a s' Hs.
  all: try rewrite Hm in *.
  all: constructor; unfold set_slot, log; cbn; rewrite ?upd_length, ?map_length; try rewrite Hm; try (split; assumption).
  (* p_ne: chunks still to be dispatched are non-empty *)
  all: try solve [destruct Hne as [Hrem Hpend]; repeat split; auto; inversion Hrem; subst; auto].
  all: try exact I.
  (* arithmetic about tokens in flight *)
  all: try solve [ unfold flight, main_len in *; cbn in *; rewrite ?Hi, ?Hr, ?Hq, ?Hp in *; cbn in *;
                   rewrite ?app_length, ?res_len_cons, ?res_len_snoc, ?sum_slot_len_pills, ?concat_app, ?app_length in *; cbn in *;
                   sum_facts s w sl Hn; rewrite ?list_sum_msg_snoc, ?Hp, ?Hq in *; cbn in *; rewrite ?lsum_cons in *; cbn in *;
                   try (apply andb_true_iff in Hblk; destruct Hblk as [Hb1 Hb2]; apply Nat.ltb_lt in Hb1);
                   try (apply Nat.ltb_lt in Hpre); try (apply Nat.eqb_eq in Hex);
                   repeat split; try (intros; discriminate); try (intros _); try lia ].
  (* p_slot when the slot list is untouched *)
  all: try solve [ intros w1 sl1 Hn1;
                   destruct (Hslot _ _ Hn1) as (Hmp & Hhs & Hq0 & Hun & Hpe & Hpl & Hpi & Hxf & Hdd & Hrr & Hra);
                   cbn [late] in *; rewrite ?Hm in *; cbn [late] in *;
                   intuition (auto; try discriminate; try congruence) ].
  (* p_ids after add_task *)
  all: try solve [ rewrite (choose_spec c _ _ Hnj) in Hch; split; [assumption|];
                   destruct (order c || match lastc s with [] => true | _ => false end); inversion Hch; subst; auto;
                   destruct (lastc s); inversion Hch; subst; [constructor|]; eapply Forall_inv_tail; eauto ].
  (* p_slot: the stepping slot and the others; first the others *)
  all: try (intros w1 sl1 Hn1; slot_split Hn w1;
            [ destruct (Hslot _ _ Hn) as (Hmp & Hhs & Hq0 & Hun & Hpe & Hpl & Hpi & Hxf & Hdd & Hrr & Hra); cbn
            | solve [ destruct (Hslot _ _ Hn1) as (Hmp & Hhs & Hq0 & Hun & Hpe & Hpl & Hpi & Hxf & Hdd & Hrr & Hra);
                      cbn [late] in *; rewrite ?Hm, ?Hr in *; cbn [late] in *;
                      rewrite ?cntw_snoc, ?cntw_cons in *; cbn [fst] in *;
                      try (replace (w =? w1) with false in * by (symmetry; apply Nat.eqb_neq; assumption));
                      rewrite ?Nat.add_0_r in *; cbn [Nat.add] in *;
                      intuition (auto; try discriminate; try congruence) ] ]).
  (* the stepping slot *)
  all: try solve [
    try (rewrite <- alive_guard_spec in Hal);
    rewrite ?Hp, ?Hq, ?Hm, ?Hr in *; cbn [late holds running leaving] in *;
    rewrite ?cntw_snoc, ?cntw_cons, ?app_length in *; cbn [fst length] in *; rewrite ?Nat.eqb_refl in *;
    rewrite ?alive_restart in *; rewrite ?negb_false_iff, ?negb_true_iff in *;
    repeat match goal with |- context[if ?b then _ else _] => destruct b eqn:? end;
    try (match goal with |- context[match pc ?x with _ => _ end] => destruct (pc x) eqn:? end);
    cbn [late holds running leaving negb] in *;
    try (pose proof (Forall_inv Hmp) as Hhd; pose proof (Forall_inv_tail Hmp) as Htl; cbn in Hhd);
    try (destruct Hne as [Hrem Hpend]);
    try (apply Nat.eqb_eq in Hrecv);
    intuition (auto; try discriminate; try congruence; try lia;
               try (apply Forall_snoc; [assumption|cbn; first [assumption|exact I|lia]]);
               try (match goal with H : In MPill (_ ++ _) |- _ => apply in_app_iff in H; destruct H as [H|[H|[]]]; [auto|discriminate] end);
               try (match goal with H : In MPill (_ :: _) |- _ => destruct H as [H|H]; [discriminate|auto] end);
               try (exfalso; match goal with H : In MPill (MPill :: _) -> False |- _ => apply H; left; reflexivity end);
               try (match goal with H : MPill :: ?x = [MPill] |- _ => inversion H; subst; auto end)) ].
  (* p_ids: the results handler consumes the head; a worker appends its own id *)
  all: try solve [ try rewrite Hr in Hids; split; [exact (Forall_inv_tail Hids)|apply Forall_snoc; [assumption|exact (Forall_inv Hids)]] ].
  all: try solve [ split; [apply Forall_snoc; [assumption|cbn; rewrite <- Hlen; eapply nth_error_Some_lt; eauto]|assumption] ].
  (* arithmetic for the steps of the other actors: main is unchanged *)
  all: try solve [ unfold flight, main_len in *; cbn in *; rewrite ?Hi, ?Hr, ?Hq, ?Hp in *; cbn in *;
                   rewrite ?app_length, ?res_len_cons, ?res_len_snoc in *; cbn in *;
                   sum_facts s w sl Hn; rewrite ?list_sum_msg_snoc, ?Hp, ?Hq, ?app_length in *; cbn in *; rewrite ?lsum_cons in *; cbn in *;
                   destruct (main s) as [?rem [?ch|]| | | | | |]; cbn in *;
                   repeat split; try (intros; discriminate); try (intros _); try lia;
                   try (specialize (Hstop eq_refl); lia) ].
  all: try solve [ repeat match goal with |- context[if ?b then _ else _] => destruct b eqn:? end;
                   unfold flight, main_len in *; cbn in *; rewrite ?Hi, ?Hr, ?Hq, ?Hp in *; cbn in *;
                   rewrite ?app_length, ?res_len_cons, ?res_len_snoc in *; cbn in *;
                   sum_facts s w sl Hn; rewrite ?list_sum_msg_snoc, ?Hp, ?Hq, ?app_length in *; cbn in *; rewrite ?lsum_cons in *; cbn in *;
                   destruct (main s) as [?rem [?ch|]| | | | | |]; cbn in *;
                   repeat split; try (intros; discriminate); try (intros _); try lia;
                   try (specialize (Hstop eq_refl); lia) ].
  - (* pills are inserted when nothing is in flight: every queue is empty *)
    intros w1 sl1 Hn1. apply nth_error_map_some in Hn1. destruct Hn1 as (sl0 & Hn0 & ->).
    destruct (Hslot _ _ Hn0) as (Hmp & Hhs & Hq0 & Hun & Hpe & Hpl & Hpi & Hxf & Hdd & Hrr & Hra).
    specialize (Hstop eq_refl). destruct (Hpe eq_refl) as [Hnp Hnin].
    assert (Hq : q sl0 = []).
    { unfold flight in Hstop.
      assert (Hz : slot_len sl0 = 0).
      { apply nth_error_In in Hn0. apply in_split in Hn0. destruct Hn0 as (l1 & l2 & El).
        rewrite El, map_app, list_sum_app in Hstop. cbn [map] in Hstop. rewrite lsum_cons in Hstop. lia. }
      rewrite slot_len_eq in Hz. destruct (q sl0) as [|m qq]; [reflexivity|exfalso].
      destruct m as [ch|]; [|apply Hnin; left; reflexivity].
      pose proof (Forall_inv Hmp) as Hpos. cbn in Hpos. cbn [map] in Hz. rewrite lsum_cons in Hz. cbn in Hz. lia. }
    cbn. rewrite Hq in *. cbn. repeat split; auto; try lia; try discriminate; try congruence.
    all: try (constructor; [exact I|constructor]).
    all: try (right; split; [assumption|reflexivity]).
    all: try (match goal with H : restart _ = true |- _ => destruct (Hrr H); assumption end).
  - (* a chunk is taken from the queue *)
    rewrite <- alive_guard_spec in Hal. rewrite Hp, Hq in *.
    pose proof (Forall_inv Hmp) as Hhd. pose proof (Forall_inv_tail Hmp) as Htl. cbn in Hhd.
    assert (Hnl : late (main s) = false).
    { destruct (late (main s)) eqn:El; [|reflexivity]. destruct (Hpl eq_refl) as [[_ H]|[_ H]]; discriminate. }
    destruct (Hpe Hnl) as [Hnp Hnin].
    destruct (run_init_guard (has_init c) (init_done sl)); cbn; cbn in Hun;
      repeat split; auto; try lia; try discriminate; try congruence;
      try (intros Hin; apply Hnin; right; exact Hin);
      try (intros Hx; destruct (Hrr Hx) as [Hy _]; discriminate).
    all: try (match goal with H : restart _ = true |- _ => destruct (Hrr H) as [Hy _]; discriminate end).
Qed.
End Step.
Lemma list_sum_repeat0 {A} (f : A -> nat) x n : f x = 0 -> list_sum (map f (repeat x n)) = 0.
Proof. intros H. induction n; simpl; [reflexivity|]. rewrite lsum_cons, H, IHn. reflexivity. Qed.

Lemma init_Inv c chunks : 0 < njobs c -> Forall (fun ch => 0 < length ch) chunks ->
  Inv c (length (concat chunks)) (init c chunks).
Proof.
  intros Hn Hc. constructor; cbn.
  - split; [apply repeat_length|assumption].
  - split; constructor.
  - unfold flight; cbn. rewrite list_sum_repeat0 by reflexivity. rewrite res_len_nil. reflexivity.
  - unfold flight, main_len; cbn. rewrite list_sum_repeat0 by reflexivity. rewrite res_len_nil. split; lia.
  - discriminate.
  - split; [assumption|exact I].
  - intros w sl Hn0. apply nth_error_In in Hn0. apply repeat_spec in Hn0. subst sl. cbn.
    repeat split; auto; try discriminate; try (intros; discriminate); try constructor.
Qed.

Theorem run_Inv c chunks sched : 0 < njobs c -> Forall (fun ch => 0 < length ch) chunks ->
  Inv c (length (concat chunks)) (run c (init c chunks) sched).
Proof.
  intros Hn Hc. apply run_invariant; [apply init_Inv; assumption|]. intros; eapply step_Inv; eauto.
Qed.

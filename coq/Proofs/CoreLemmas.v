(* Proofs/CoreLemmas.v -- list-update lemmas and a step-inversion tactic shared by the Core proofs *)
From Coq Require Import List Arith Lia Bool.
From RecordUpdate Require Import RecordUpdate.
From Mpv Require Import NumOps GenProto Core ProtoSpec.
Import ListNotations.
Close Scope Z_scope.
Open Scope nat_scope.

Lemma upd_length {A} (l : list A) i x : length (upd l i x) = length l.
Proof.
  unfold upd. rewrite app_length, firstn_length.
  destruct (skipn i l) eqn:E.
  - simpl. assert (length (skipn i l) = 0) by (rewrite E; reflexivity). rewrite skipn_length in H. lia.
  - simpl. assert (length (skipn i l) = S (length l0)) by (rewrite E; reflexivity). rewrite skipn_length in H. lia.
Qed.

Lemma nth_error_upd_same {A} (l : list A) i x y : nth_error l i = Some y -> nth_error (upd l i x) i = Some x.
Proof.
  revert i; induction l as [|a l IH]; intros [|i] H; simpl in *; try discriminate.
  - reflexivity.
  - unfold upd in *. simpl. apply IH. exact H.
Qed.

Lemma nth_error_upd_other {A} (l : list A) i j x : i <> j -> nth_error (upd l i x) j = nth_error l j.
Proof.
  revert i j; induction l as [|a l IH]; intros i j H.
  - unfold upd. rewrite firstn_nil, skipn_nil. reflexivity.
  - destruct i as [|i], j as [|j]; try congruence.
    + unfold upd. simpl. reflexivity.
    + unfold upd. simpl. reflexivity.
    + unfold upd in *. simpl. apply IH. congruence.
Qed.

Lemma nth_error_upd {A} (l : list A) i j x y : nth_error l i = Some y ->
  nth_error (upd l i x) j = if Nat.eq_dec i j then Some x else nth_error l j.
Proof.
  intros H. destruct (Nat.eq_dec i j) as [->|Hne]; [eapply nth_error_upd_same; eauto|apply nth_error_upd_other; assumption].
Qed.

Lemma nth_error_map_some {A B} (f : A -> B) l i y : nth_error (map f l) i = Some y -> exists x, nth_error l i = Some x /\ y = f x.
Proof.
  revert i; induction l as [|a l IH]; intros [|i] H; simpl in *; try discriminate.
  - inversion H. eauto.
  - apply IH. exact H.
Qed.

(* every case of `step`, with the guards rewritten to their Spec form.  Leaves one goal per
   enabled transition; s' is substituted. *)
Ltac step_cases c s a s' Hs :=
  destruct a as [| |?w|?w]; cbn [step] in Hs;
  [ destruct (main s) as [?rem [?ch|]| | | | | |] eqn:?Hm; try discriminate;
    [ rewrite blocked_spec in Hs;
      destruct ((0 <? nactive s) && (maxact c <? nactive s + length ch)) eqn:?Hblk;
      [ destruct (items s) as [|?x ?it] eqn:?Hi; [discriminate|]; inversion Hs; subst s'; clear Hs
      | destruct (choose c (tidx s) (lastc s)) as [[[?w ?ti] ?lc]|] eqn:?Hch; [|discriminate];
        destruct (nth_error (slots s) w) as [?sl|] eqn:?Hn; [|discriminate]; inversion Hs; subst s'; clear Hs ]
    | rewrite predraw_spec in Hs; destruct (maxact c <? nactive s) eqn:?Hpre;
      [ destruct (items s) as [|?x ?it] eqn:?Hi; [discriminate|]; inversion Hs; subst s'; clear Hs
      | destruct rem as [|?ch ?rem']; inversion Hs; subst s'; clear Hs ]
    | destruct (items s) as [|?x ?it] eqn:?Hi;
      [ rewrite exhausted_spec in Hs; destruct (length (yielded s) =? ndrawn s) eqn:?Hex; [|discriminate];
        inversion Hs; subst s'; clear Hs
      | inversion Hs; subst s'; clear Hs ]
    | inversion Hs; subst s'; clear Hs
    | destruct (forallb (fun sl => unf sl =? 0) (slots s)) eqn:?Hall; [|discriminate]; inversion Hs; subst s'; clear Hs
    | destruct (forallb _ (slots s)) eqn:?Hall; [|discriminate]; inversion Hs; subst s'; clear Hs
    | destruct (resq s) eqn:?Hr; [|discriminate]; inversion Hs; subst s'; clear Hs ]
  | destruct (resq s) as [|[?w ?b] ?r] eqn:?Hr; [discriminate|];
    destruct (nth_error (slots s) w) as [?sl|] eqn:?Hn; [|discriminate]; inversion Hs; subst s'; clear Hs; destruct b
  | destruct (nth_error (slots s) w) as [?sl|] eqn:?Hn; [|discriminate];
    destruct (pc sl) as [| |?ch|?rest ?acc| | |] eqn:?Hp; try discriminate;
    [ inversion Hs; subst s'; clear Hs
    | rewrite alive_guard_spec in Hs;
      destruct (match lifespan c with None => true | Some L => nexec sl <? L end) eqn:?Hal;
      [ destruct (q sl) as [|[?ch|] ?qr] eqn:?Hq; [discriminate| |]; inversion Hs; subst s'; clear Hs
      | inversion Hs; subst s'; clear Hs ]
    | inversion Hs; subst s'; clear Hs
    | destruct rest as [|?t0 ?rest]; inversion Hs; subst s'; clear Hs
    | inversion Hs; subst s'; clear Hs
    | rewrite must_wait_spec in Hs; destruct (received sl =? added sl) eqn:?Hrecv; [|discriminate];
      inversion Hs; subst s'; clear Hs ]
  | destruct (nth_error (slots s) w) as [?sl|] eqn:?Hn; [|discriminate];
    destruct (pc sl) eqn:?Hp; try discriminate;
    destruct (restart sl) eqn:?Hrs; [|discriminate]; inversion Hs; subst s'; clear Hs ].

(* generic lifting of a step invariant to every schedule *)
Lemma run_invariant (P : st -> Prop) c s0 :
  P s0 -> (forall s a s', P s -> step c s a = Some s' -> P s') -> forall sched, P (run c s0 sched).
Proof.
  intros H0 Hstep sched. revert s0 H0. induction sched as [|a r IH]; intros s H; simpl; [exact H|].
  destruct (step c s a) eqn:Hs; [apply IH; eapply Hstep; eauto|apply IH; exact H].
Qed.

Definition is_some {A} (o : option A) : bool := match o with Some _ => true | None => false end.

(* Proofs/CoreLife.v -- worker_lifespan bounds the work of every worker instance, for ALL
   schedules: with lifespan L and chunks of at most cmax tasks, no instance begins a chunk once it
   has completed L tasks, hence executes at most L + cmax - 1; its successor starts from zero. *)
From Coq Require Import List Arith Lia Bool.
From RecordUpdate Require Import RecordUpdate.
From Mpv Require Import NumOps GenProto Core ProtoSpec CoreLemmas CoreCons CoreOrder.
Import ListNotations.
Close Scope Z_scope.
Open Scope nat_scope.

Definition is_task_of (w i : nat) (e : event) : bool :=
  (ev_w e =? w) && (ev_inst e =? i) && match ev_kind e with KTask _ => true | _ => false end.
Definition ntask (w i : nat) (l : list event) : nat := length (filter (is_task_of w i) l).

Arguments ntask : simpl never.
Lemma ntask_snoc w i l e : ntask w i (l ++ [e]) = ntask w i l + (if is_task_of w i e then 1 else 0).
Proof. unfold ntask. rewrite filter_app, app_length. simpl. destruct (is_task_of w i e); reflexivity. Qed.

Definition msg_len (m : msg) : nat := match m with MChunk c => length c | MPill => 0 end.
Definition run_size (p : wpc) : nat :=
  match p with WInit ch => length ch | WRun rest acc => length rest + length acc | _ => 0 end.
Definition run_done (p : wpc) : nat := match p with WRun _ acc => length acc | _ => 0 end.
Definition running (p : wpc) : bool := match p with WInit _ | WRun _ _ => true | _ => false end.

Record InvL (c : cfg) (L cmax : nat) (s : st) : Prop := {
  l_len : length (slots s) = njobs c;
  l_main : match main s with
           | MDispatch rem pend => Forall (fun ch => length ch <= cmax) rem /\
                                   match pend with Some ch => length ch <= cmax | None => True end
           | _ => True end;
  l_slot : forall w sl, nth_error (slots s) w = Some sl ->
      Forall (fun m => msg_len m <= cmax) (q sl) /\ run_size (pc sl) <= cmax /\
      ntask w (inst sl) (evlog s) = nexec sl + run_done (pc sl) /\
      (running (pc sl) = true -> nexec sl < L) /\
      nexec sl <= L + cmax - 1 /\
      (forall i, i < inst sl -> ntask w i (evlog s) <= L + cmax - 1) /\
      (forall i, inst sl < i -> ntask w i (evlog s) = 0);
  l_none : forall w i, nth_error (slots s) w = None -> ntask w i (evlog s) = 0
}.

Lemma is_task_of_other w i w0 i0 k : (w0 <> w \/ i0 <> i) -> is_task_of w i (Ev w0 i0 k) = false.
Proof.
  intros H. unfold is_task_of. cbn. destruct (Nat.eqb_spec w0 w), (Nat.eqb_spec i0 i); cbn; try reflexivity.
  subst. destruct H; congruence.
Qed.
Lemma is_task_of_init w i w0 i0 : is_task_of w i (Ev w0 i0 KInit) = false.
Proof. unfold is_task_of. cbn. rewrite andb_false_r. reflexivity. Qed.
Lemma is_task_of_exit w i w0 i0 : is_task_of w i (Ev w0 i0 KExit) = false.
Proof. unfold is_task_of. cbn. rewrite andb_false_r. reflexivity. Qed.
Lemma is_task_of_same w i t : is_task_of w i (Ev w i (KTask t)) = true.
Proof. unfold is_task_of. cbn. rewrite !Nat.eqb_refl. reflexivity. Qed.

Ltac ntask_simpl :=
  repeat (rewrite ntask_snoc);
  repeat first [ rewrite is_task_of_init | rewrite is_task_of_exit | rewrite is_task_of_same
               | rewrite is_task_of_other by (first [left; congruence | right; lia]) ];
  rewrite ?Nat.add_0_r.

Section Life.
Variables (c : cfg) (L cmax : nat).
Hypothesis HL : lifespan c = Some L.
Hypothesis HL1 : 1 <= L.

Lemma step_InvL s a s' : InvL c L cmax s -> step c s a = Some s' -> InvL c L cmax s'.
Proof.
  intros [Hlen Hmain Hslot Hnone] Hs.
  step_cases c s a s' Hs.
  all: try rewrite Hm in Hmain.
  all: constructor; unfold set_slot, log; cbn; rewrite ?upd_length, ?map_length; try assumption.
  all: try (rewrite Hm; assumption).
  (* slots untouched or only non-slot fields touched *)
  all: try solve [intros w1 sl1 Hn1; apply (Hslot w1 sl1 Hn1)].
  (* "no such slot" goals *)
  all: try solve [intros w1 i1 Hn1; destruct (Nat.eq_dec w w1) as [->|Hne];
                  [rewrite (nth_error_upd_same _ _ _ _ Hn) in Hn1; discriminate
                  |rewrite nth_error_upd_other in Hn1 by assumption;
                   rewrite ?ntask_snoc, ?is_task_of_other by (left; assumption); rewrite ?Nat.add_0_r; auto]].
  (* slot goals: the stepping slot, and every other slot *)
  all: try (intros w1 sl1 Hn1; slot_split Hn w1;
            [ destruct (Hslot _ _ Hn) as (Hq1 & Hsz & Hnt & Hrun & Hb & Hpast & Hfut)
            | destruct (Hslot _ _ Hn1) as (Hq1 & Hsz & Hnt & Hrun & Hb & Hpast & Hfut);
              rewrite ?ntask_snoc, ?is_task_of_other by (left; assumption); rewrite ?Nat.add_0_r;
              repeat split; auto ]).
  all: try (rewrite ?Hp, ?Hq in *; cbn in *).
  all: try solve [repeat split; auto; try lia; try (intros; discriminate)].
  (* other slots when the log grew *)
  all: try solve [intros i Hi; ntask_simpl; auto].
  (* main's chunk bookkeeping *)
  all: try solve [destruct Hmain as [Hrem Hpend]; repeat split; auto;
                  try (inversion Hrem; subst; auto)].
  (* the stepping slot *)
  all: try solve [
    repeat match goal with |- context[if ?b then _ else _] => destruct b eqn:? end; cbn;
    try (pose proof (Forall_inv Hq1) as Hhd; pose proof (Forall_inv_tail Hq1) as Htl; cbn in Hhd);
    try (destruct Hmain as [Hrem Hpend]);
    repeat split; try (intros i Hi); ntask_simpl; rewrite ?app_length; cbn;
    try (apply Forall_app; split; [assumption|constructor; [cbn; lia|constructor]]);
    auto; try lia; try discriminate;
    try (rewrite Hpast by lia; lia); try (apply Hpast; lia); try (apply Hfut; lia) ].
  - (* pills *)
    intros w1 sl1 Hn1. apply nth_error_map_some in Hn1. destruct Hn1 as (sl0 & Hn0 & ->).
    destruct (Hslot _ _ Hn0) as (Hq1 & Hsz & Hnt & Hrun & Hb & Hpast & Hfut). cbn.
    repeat split; auto. apply Forall_app; split; [assumption|constructor; [cbn; lia|constructor]].
  - intros w1 i1 Hn1. apply Hnone. rewrite nth_error_map in Hn1. destruct (nth_error (slots s) w1); [discriminate|reflexivity].
  - (* a chunk is taken only while the lifespan is not reached *)
    rewrite HL in Hal. apply Nat.ltb_lt in Hal.
    pose proof (Forall_inv Hq1) as Hhd; pose proof (Forall_inv_tail Hq1) as Htl; cbn in Hhd.
    destruct (run_init_guard _ _); cbn; repeat split; auto; lia.
  - (* restart: the predecessor's count is frozen below the bound, the successor starts from zero *)
    repeat split; auto; try lia; try (rewrite Hfut by lia; reflexivity);
      try (intros i Hi; destruct (Nat.eq_dec i (inst sl)) as [->|Hne]; [lia|apply Hpast; lia]);
      try (intros i Hi; apply Hfut; lia).
Qed.



Lemma init_InvL chunks : Forall (fun ch => length ch <= cmax) chunks -> InvL c L cmax (init c chunks).
Proof.
  intros Hc. constructor; cbn.
  - apply repeat_length.
  - split; [assumption|exact I].
  - intros w sl Hn. apply nth_error_In in Hn. apply repeat_spec in Hn. subst sl. cbn.
    repeat split; auto; try lia; intros; discriminate.
  - reflexivity.
Qed.

(* C12: every worker instance executes at most L + cmax - 1 tasks, in every schedule *)
Theorem lifespan_bound chunks sched w i :
  Forall (fun ch => length ch <= cmax) chunks ->
  ntask w i (evlog (run c (init c chunks) sched)) <= L + cmax - 1.
Proof.
  intros Hc.
  assert (HI : InvL c L cmax (run c (init c chunks) sched)).
  { apply run_invariant; [apply init_InvL; assumption|]. intros; eapply step_InvL; eauto. }
  destruct HI as [Hlen Hmain Hslot Hnone].
  destruct (nth_error (slots (run c (init c chunks) sched)) w) as [sl|] eqn:Hn.
  - destruct (Hslot _ _ Hn) as (Hq1 & Hsz & Hnt & Hrun & Hb & Hpast & Hfut).
    destruct (lt_eq_lt_dec i (inst sl)) as [[Hlt|Heq]|Hgt].
    + apply Hpast; assumption.
    + subst i. rewrite Hnt. destruct (pc sl) eqn:Hp; cbn in *; try lia;
      specialize (Hrun eq_refl); lia.
    + rewrite Hfut by assumption. lia.
  - rewrite Hnone by assumption. lia.
Qed.

(* no instance begins a chunk once it has completed L tasks: a chunk is in progress only below L *)
Theorem no_new_chunk_after_lifespan chunks sched w sl :
  Forall (fun ch => length ch <= cmax) chunks ->
  nth_error (slots (run c (init c chunks) sched)) w = Some sl ->
  running (pc sl) = true -> nexec sl < L.
Proof.
  intros Hc Hn Hr.
  assert (HI : InvL c L cmax (run c (init c chunks) sched)).
  { apply run_invariant; [apply init_InvL; assumption|]. intros; eapply step_InvL; eauto. }
  destruct HI as [_ _ Hslot _]. destruct (Hslot _ _ Hn) as (_ & _ & _ & Hrun & _). auto.
Qed.
End Life.

(* restart_fresh: the successor has the same slot (worker id) and queue, zero executed tasks, init
   not run, the next instance number *)
Theorem restart_fresh c s w s' sl :
  step c s (LRestart w) = Some s' -> nth_error (slots s) w = Some sl ->
  exists sl2, (nth_error (slots s') w = Some sl2) /\ (pc sl2 = WBoot) /\ (nexec sl2 = 0) /\
     (init_done sl2 = false) /\ (inst sl2 = S (inst sl)) /\ (q sl2 = q sl) /\ (restart sl2 = false) /\
     (pc sl = WDead) /\ (restart sl = true).
Proof.
  intros Hs Hn. cbn [step] in Hs. rewrite Hn in Hs.
  destruct (pc sl) eqn:Hp; try discriminate. destruct (restart sl) eqn:Hr; [|discriminate].
  inversion Hs; subst s'; clear Hs. eexists. split.
  - unfold set_slot. cbn. eapply nth_error_upd_same; eauto.
  - cbn. repeat split; auto.
Qed.


(* Proofs/CoreMeasure.v -- termination: a natural-number measure that EVERY enabled step of EVERY
   actor strictly decreases.  Hence any schedule performs at most M(init) steps, and a fair
   (round-robin) schedule of M(init)+1 rounds ends with the call finished. *)
From Coq Require Import List Arith Lia Bool.
From RecordUpdate Require Import RecordUpdate.
From Mpv Require Import NumOps GenProto Core ProtoSpec CoreLemmas CoreCons CoreOrder CoreLife CoreInv CoreInit CoreProgress.
Import ListNotations.
Close Scope Z_scope.
Open Scope nat_scope.

Definition msgW (m : msg) : nat := match m with MChunk ch => 40 * length ch + 4 | MPill => 8 end.
Definition pcW (c : cfg) (sl : slot) : nat :=
  match pc sl with
  | WBoot => 2
  | WLoop => if alive_guard c (nexec sl) then 1 else 7
  | WInit ch => 40 * length ch + 3
  | WRun rest acc => 40 * length rest + 20 * length acc + 2
  | WExit => 6
  | WFinal => 4
  | WDead => if restart sl then 3 else 0
  end.
Definition slotW (c : cfg) (sl : slot) : nat := list_sum (map msgW (q sl)) + pcW c sl.
Definition batchW (x : nat * batch) : nat := match snd x with RTasks l => 10 * length l + 1 | RExit => 1 end.
Definition remW (ch : list nat) : nat := 40 * length ch + 6.
Definition mainW (c : cfg) (m : mpc) : nat :=
  match m with
  | MDispatch rem pend => 8 * njobs c + 6 + list_sum (map remW rem) + match pend with Some ch => 40 * length ch + 5 | None => 0 end
  | MDrain => 8 * njobs c + 5
  | MStop => 8 * njobs c + 4
  | MJoinQ => 3 | MJoinW => 2 | MJoinR => 1 | MDone => 0
  end.
Definition M (c : cfg) (s : st) : nat :=
  mainW c (main s) + list_sum (map (slotW c) (slots s)) + list_sum (map batchW (resq s)) + 5 * length (items s).
Arguments slotW : simpl never.
Arguments Nat.mul : simpl never.

Lemma slotW_eq c sl : slotW c sl = list_sum (map msgW (q sl)) + pcW c sl.  Proof. reflexivity. Qed.
Lemma lsum_app (a b : list nat) : list_sum (a ++ b) = list_sum a + list_sum b.  Proof. apply list_sum_app. Qed.

Lemma sum_slotW_pills c l :
  list_sum (map (slotW c) (map (fun sl => sl <| q := q sl ++ [MPill] |> <| unf := S (unf sl) |>) l))
  = list_sum (map (slotW c) l) + 8 * length l.
Proof.
  induction l as [|a l IH]; [reflexivity|]. cbn [map length]. rewrite !lsum_cons, IH.
  rewrite !slotW_eq. cbn. rewrite map_app, lsum_app. cbn [map]. rewrite lsum_cons. unfold pcW. cbn.
  change (list_sum []) with 0. lia.
Qed.

Ltac sumW c s w sl Hn :=
  match goal with
  | |- context[upd (slots s) w ?x] =>
      let H := fresh "HsumW" in pose proof (sum_upd (slotW c) (slots s) w x sl Hn) as H; rewrite !slotW_eq in H; unfold pcW in H; cbn in H
  end.

Definition InvBoot (s : st) : Prop := forall w sl, nth_error (slots s) w = Some sl -> pc sl = WBoot -> nexec sl = 0.
Lemma step_InvBoot c s a s' : InvBoot s -> step c s a = Some s' -> InvBoot s'.
Proof.
  intros HB Hs. unfold InvBoot in *.
  step_cases c s a s' Hs; unfold set_slot, log; cbn; try assumption.
  all: try (intros w1 sl1 Hn1 Hp1; slot_split Hn w1; [cbn in *|eapply HB; eauto]).
  all: try discriminate.
  all: try (repeat match goal with H : context[if ?b then _ else _] |- _ => destruct b end; discriminate).
  all: try (eapply HB; eauto; fail).
  all: try reflexivity.
  - intros w1 sl1 Hn1 Hp1. apply nth_error_map_some in Hn1. destruct Hn1 as (sl0 & Hn0 & ->). cbn in *. eapply HB; eauto.
Qed.

Section Measure.
Variables (c : cfg) (ntotal : nat).
Hypothesis Hlife : match lifespan c with Some L => 1 <= L | None => True end.

Lemma alive0 : alive_guard c 0 = true.
Proof. rewrite alive_guard_spec. destruct (lifespan c) as [L|]; [apply Nat.ltb_lt; lia|reflexivity]. Qed.

Lemma step_decreases s a s' : Inv c ntotal s -> InvI c s -> InvBoot s -> step c s a = Some s' -> M c s' < M c s.
Proof.
  intros HI HN HB Hs. destruct (p_len c ntotal s HI) as [Hlen Hnj].
  step_cases c s a s' Hs.
  all: try (rewrite <- alive_guard_spec in Hal).
  all: try (match goal with Hp : pc ?x = WBoot |- _ => pose proof (HB _ _ Hn Hp) as Hz end).
  all: try (match goal with Hp : pc ?x = WRun [] ?acc |- _ => destruct (n_slot c s HN _ _ Hn) as (_ & Hnp & _); rewrite Hp in Hnp; cbn in Hnp;
            assert (Hacc : 1 <= length acc) by (destruct acc; [congruence|cbn; lia]) end).
  all: unfold M, set_slot, log; cbn; rewrite ?Hm, ?Hi, ?Hr; cbn [mainW length map]; rewrite ?lsum_cons, ?map_app, ?lsum_app, ?sum_slotW_pills;
       cbn [map length]; rewrite ?lsum_cons.
  all: try (sumW c s w sl Hn; rewrite ?Hp, ?Hq, ?Hrs in *; cbn [map] in *; rewrite ?map_app, ?lsum_app, ?lsum_cons in *; cbn in * ).
  all: try (rewrite ?Hal in * ).
  all: try (rewrite ?Hz in *; rewrite ?alive0 in * ).
  all: unfold remW, batchW in *; cbn [snd length] in *; rewrite ?app_length in *; cbn [length] in *.
  all: change (list_sum (@nil nat)) with 0 in *.
  all: try lia.
  all: repeat match goal with
       | H : context[if ?b then _ else _] |- _ => destruct b eqn:?
       | |- context[if ?b then _ else _] => destruct b eqn:? end.
  all: cbn [map length] in *; rewrite ?lsum_cons in *; change (list_sum (@nil nat)) with 0 in *.
  all: try lia.
Qed.

(* ---- consequences ---- *)
Record Reach (s : st) : Prop := { r_inv : Inv c ntotal s; r_init : InvI c s; r_boot : InvBoot s }.

Lemma Reach_step s a s' : Reach s -> step c s a = Some s' -> Reach s'.
Proof.
  intros [H1 H2 H3] Hs. constructor; [eapply step_Inv; eauto|eapply step_InvI; eauto|eapply step_InvBoot; eauto].
Qed.

Lemma run_le : forall sched s, Reach s -> M c (run c s sched) <= M c s /\ Reach (run c s sched).
Proof.
  induction sched as [|a r IH]; intros s HR; cbn [run]; [split; [lia|assumption]|].
  destruct (step c s a) as [s'|] eqn:Hs; [|apply IH; assumption].
  pose proof (step_decreases s a s' (r_inv s HR) (r_init s HR) (r_boot s HR) Hs) as Hd.
  destruct (IH s' (Reach_step s a s' HR Hs)) as [H1 H2]. split; [lia|assumption].
Qed.

(* number of steps actually performed by a schedule (disabled labels are skipped) *)
Fixpoint nsteps (s : st) (sched : list label) : nat :=
  match sched with
  | [] => 0
  | a :: r => match step c s a with Some s' => S (nsteps s' r) | None => nsteps s r end
  end.

(* every schedule performs at most M(start) steps: no livelock, no unbounded run *)
Lemma steps_bounded : forall sched s, Reach s -> nsteps s sched + M c (run c s sched) <= M c s.
Proof.
  induction sched as [|a r IH]; intros s HR; cbn [run nsteps]; [lia|].
  destruct (step c s a) as [s'|] eqn:Hs; [|apply IH; assumption].
  pose proof (step_decreases s a s' (r_inv s HR) (r_init s HR) (r_boot s HR) Hs) as Hd.
  specialize (IH s' (Reach_step s a s' HR Hs)). lia.
Qed.

(* a label that is enabled now fires within any schedule segment containing it, unless another
   step happens first; either way the measure drops *)
Lemma segment_progress : forall seg s a, Reach s -> In a seg -> step c s a <> None -> M c (run c s seg) < M c s.
Proof.
  induction seg as [|b r IH]; intros s a HR Hin Hen; [destruct Hin|].
  cbn [run]. destruct (step c s b) as [s'|] eqn:Hs.
  - pose proof (step_decreases s b s' (r_inv s HR) (r_init s HR) (r_boot s HR) Hs) as Hd.
    destruct (run_le r s' (Reach_step s b s' HR Hs)) as [Hle _]. lia.
  - destruct Hin as [->|Hin]; [congruence|]. eapply IH; eauto.
Qed.

Lemma main_done_stable : forall sched s, main s = MDone -> main (run c s sched) = MDone.
Proof.
  induction sched as [|a r IH]; intros s Hd; cbn [run]; [assumption|].
  destruct (step c s a) as [s'|] eqn:Hs; [|apply IH; assumption]. apply IH.
  destruct a as [| |w|w]; cbn [step] in Hs.
  - rewrite Hd in Hs. discriminate.
  - destruct (resq s) as [|[w b] rr]; [discriminate|]. destruct (nth_error (slots s) w); [|discriminate].
    inversion Hs; subst s'. destruct b; cbn; assumption.
  - destruct (nth_error (slots s) w) as [sl|]; [|discriminate].
    destruct (pc sl) as [| |ch|rest acc| | |]; try discriminate.
    + inversion Hs; subst s'; cbn; assumption.
    + destruct (alive_guard c (nexec sl)).
      * destruct (q sl) as [|[ch|] qr]; inversion Hs; subst s'; cbn; assumption.
      * inversion Hs; subst s'; cbn; assumption.
    + inversion Hs; subst s'; cbn; assumption.
    + destruct rest; inversion Hs; subst s'; cbn; assumption.
    + inversion Hs; subst s'; cbn; assumption.
    + destruct (must_wait _ _); inversion Hs; subst s'; cbn; assumption.
  - destruct (nth_error (slots s) w) as [sl|]; [|discriminate].
    destruct (pc sl); try discriminate. destruct (restart sl); inversion Hs; subst s'; cbn; assumption.
Qed.
End Measure.
Lemma run_app c : forall l1 l2 s, run c s (l1 ++ l2) = run c (run c s l1) l2.
Proof.
  induction l1 as [|a r IH]; intros l2 s; cbn [app run]; [reflexivity|].
  destruct (step c s a); apply IH.
Qed.

Definition round (n : nat) : list label := LMain :: LRes :: flat_map (fun w => [LWorker w; LRestart w]) (seq 0 n).
Lemma rr_S n k : rr n (S k) = round n ++ rr n k.
Proof. reflexivity. Qed.

Lemma mpc_done_dec (m : mpc) : {m = MDone} + {m <> MDone}.
Proof. destruct m; try (right; discriminate). left; reflexivity. Qed.

Section Fair.
Variables (c : cfg) (ntotal : nat).
Hypothesis Hlife : match lifespan c with Some L => 1 <= L | None => True end.

Lemma enabled_in_round s a : Reach c ntotal s -> step c s a <> None -> In a (round (njobs c)).
Proof.
  intros HR Hen. destruct (p_len c ntotal s (r_inv c ntotal s HR)) as [Hlen _].
  assert (Hw : forall w, nth_error (slots s) w <> None -> w < njobs c).
  { intros w Hn. rewrite <- Hlen. apply nth_error_Some. assumption. }
  unfold round. destruct a as [| |w|w].
  - left. reflexivity.
  - right. left. reflexivity.
  - right. right. apply in_flat_map. exists w. split; [|left; reflexivity].
    apply in_seq. split; [lia|]. cbn. apply Hw. intros E. cbn [step] in Hen. rewrite E in Hen. congruence.
  - right. right. apply in_flat_map. exists w. split; [|right; left; reflexivity].
    apply in_seq. split; [lia|]. cbn. apply Hw. intros E. cbn [step] in Hen. rewrite E in Hen. congruence.
Qed.

Lemma round_progress s : Reach c ntotal s -> main s <> MDone -> M c (run c s (round (njobs c))) < M c s.
Proof.
  intros HR Hnd. destruct (progress c ntotal s (r_inv c ntotal s HR) Hnd) as [a Ha].
  eapply segment_progress; eauto. eapply enabled_in_round; eauto.
Qed.

Lemma rr_done : forall k s, Reach c ntotal s ->
  main (run c s (rr (njobs c) k)) = MDone \/ M c (run c s (rr (njobs c) k)) + k <= M c s.
Proof.
  induction k as [|k IH]; intros s HR.
  - right. cbn. lia.
  - rewrite rr_S, run_app. destruct (mpc_done_dec (main s)) as [Hd|Hnd].
    + left. apply main_done_stable. apply main_done_stable. assumption.
    + pose proof (round_progress s HR Hnd) as Hlt.
      destruct (run_le c ntotal Hlife (round (njobs c)) s HR) as [_ HR1].
      destruct (IH _ HR1) as [Hd|Hle]; [left; assumption|right; lia].
Qed.
End Fair.

Lemma nonempty_pos (chunks : list (list nat)) : Forall (fun ch => ch <> []) chunks -> Forall (fun ch => 0 < length ch) chunks.
Proof. intros H. eapply Forall_impl; [|exact H]. intros ch Hc. destruct ch; [congruence|cbn; lia]. Qed.

Lemma init_Reach c chunks : 0 < njobs c -> Forall (fun ch => ch <> []) chunks ->
  Reach c (length (concat chunks)) (init c chunks).
Proof.
  intros Hn Hc. constructor.
  - apply init_Inv; [assumption|apply nonempty_pos; assumption].
  - apply init_InvI. assumption.
  - intros w sl Hn0 _. cbn in Hn0. apply nth_error_In in Hn0. apply repeat_spec in Hn0. subst sl. reflexivity.
Qed.

(* C03: under a fair (round-robin) schedule the call finishes within M(init)+1 rounds, for every
   configuration: n_jobs >= 1, any non-empty chunks, max_tasks_active >= 0 (also below the chunk
   size), any lifespan >= 1, order_tasks, init/exit *)
Theorem fair_schedule_terminates c chunks :
  0 < njobs c -> match lifespan c with Some L => 1 <= L | None => True end ->
  Forall (fun ch => ch <> []) chunks ->
  main (run c (init c chunks) (rr (njobs c) (S (M c (init c chunks))))) = MDone.
Proof.
  intros Hn Hl Hc.
  destruct (rr_done c (length (concat chunks)) Hl (S (M c (init c chunks))) (init c chunks) (init_Reach c chunks Hn Hc)) as [H|H];
    [assumption|lia].
Qed.

(* C03: whatever the schedule, at most M(init) steps are ever performed (no livelock) *)
Theorem any_schedule_bounded c chunks sched :
  0 < njobs c -> match lifespan c with Some L => 1 <= L | None => True end ->
  Forall (fun ch => ch <> []) chunks ->
  nsteps c (init c chunks) sched <= M c (init c chunks).
Proof.
  intros Hn Hl Hc.
  pose proof (steps_bounded c (length (concat chunks)) Hl sched (init c chunks) (init_Reach c chunks Hn Hc)). lia.
Qed.

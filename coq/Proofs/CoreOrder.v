(* Proofs/CoreOrder.v -- order_tasks: chunk i of the call goes to worker i mod n_jobs and is
   executed there, for ALL schedules, also across lifespan restarts (successors read the same
   queue). *)
From Coq Require Import List Arith Lia Bool.
From RecordUpdate Require Import RecordUpdate.
From Mpv Require Import NumOps GenProto Core ProtoSpec CoreLemmas CoreCons.
Import ListNotations.
Close Scope Z_scope.
Open Scope nat_scope.

Definition slot_tokens (sl : slot) : list nat := slot_pending sl ++ slot_done sl.
Definition routed (d : list (nat * list nat)) (w t : nat) : Prop := exists ch, In (w, ch) d /\ In t ch.

Record InvO (c : cfg) (chunks : list (list nat)) (s : st) : Prop := {
  o_len : length (slots s) = njobs c;
  (* the dispatched chunks are a prefix of the chunk list, in order *)
  o_prefix : match main s with
             | MDispatch rem pend => map snd (dlog s) ++ (match pend with Some ch => [ch] | None => [] end) ++ rem = chunks
             | _ => map snd (dlog s) = chunks
             end;
  (* with order_tasks the k-th add_task went to worker k mod n_jobs *)
  o_rr : order c = true -> tidx s = length (dlog s) /\
         forall k w ch, nth_error (dlog s) k = Some (w, ch) -> w = k mod njobs c;
  (* whatever sits in slot w, or was executed by worker w, was dispatched to w *)
  o_slot : forall w sl t, nth_error (slots s) w = Some sl -> In t (slot_tokens sl) -> routed (dlog s) w t;
  o_exec : forall w t, In (w, t) (exec_of (evlog s)) -> routed (dlog s) w t
}.

Lemma routed_mono d x w t : routed d w t -> routed (d ++ [x]) w t.
Proof. intros (ch & Hi & Ht). exists ch. split; [apply in_or_app; left; assumption|assumption]. Qed.

Lemma exec_of_snoc l e : exec_of (l ++ [e]) = exec_of l ++ match ev_kind e with KTask t => [(ev_w e, t)] | _ => [] end.
Proof. unfold exec_of. rewrite flat_map_app. simpl. rewrite app_nil_r. reflexivity. Qed.

Ltac slot_split Hn w0 :=
  match goal with
  | H : nth_error (upd (slots ?s) ?w ?x) w0 = Some ?sl' |- _ =>
      rewrite (nth_error_upd _ _ _ _ _ Hn) in H; destruct (Nat.eq_dec w w0) as [?Ew|?Ew];
      [inversion H; subst; clear H | ]
  end.

Lemma nth_error_Some_lt {A} (l : list A) i x : nth_error l i = Some x -> i < length l.
Proof. intros H. apply nth_error_Some. congruence. Qed.

Arguments Nat.modulo : simpl never.
Arguments upd : simpl never.
Arguments nth_error : simpl never.

Lemma step_InvO c chunks s a s' : InvO c chunks s -> step c s a = Some s' -> InvO c chunks s'.
Proof.
  intros [Hlen Hpre Hrr Hslot Hexec] Hs.
  step_cases c s a s' Hs.
  all: try rewrite Hm in Hpre.
  all: constructor; unfold set_slot, log; cbn; rewrite ?upd_length, ?map_length; try assumption.
  all: try (rewrite Hm; assumption).
  all: try (intros w0 sl0 t Hn0 Hin; slot_split Hn w0; [ | solve [eauto using routed_mono] ]).
  all: try solve [repeat match goal with H : context[if ?b then _ else _] |- _ => destruct b end;
            (eapply Hslot; [exact Hn|]); unfold slot_tokens, slot_pending, slot_done in *; cbn in *; rewrite ?Hp, ?Hq in *;
            cbn in *; rewrite ?flat_map_app, ?in_app_iff in *; cbn in *; tauto].
  all: try solve [intros w1 t1 Hin1; apply routed_mono; apply Hexec; exact Hin1].
  all: try solve [intros w1 t1 Hin1; rewrite exec_of_snoc in Hin1; cbn in Hin1; rewrite app_nil_r in Hin1; apply Hexec; exact Hin1].
  - (* add_task: prefix *) rewrite map_app. cbn. rewrite <- app_assoc. exact Hpre.
  - (* add_task: round robin *)
    intros Ho. destruct (Hrr Ho) as [Hti Hk].
    assert (Hnj : 0 < njobs c). { rewrite <- Hlen. apply nth_error_Some_lt in Hn. lia. }
    rewrite (choose_spec c _ _ Hnj), Ho in Hch. cbn in Hch. inversion Hch; subst w ti lc; clear Hch.
    rewrite app_length. cbn. split; [lia|].
    intros k w1 ch1 Hk1. destruct (Nat.lt_ge_cases k (length (dlog s))) as [Hlt|Hge].
    + rewrite nth_error_app1 in Hk1 by assumption. eapply Hk; eauto.
    + rewrite nth_error_app2 in Hk1 by assumption.
      destruct (k - length (dlog s)) as [|d] eqn:Ed; [|destruct d; discriminate].
      unfold nth_error in Hk1. inversion Hk1; subst. f_equal. lia.
  - (* add_task: the new chunk is routed to the chosen worker *)
    unfold slot_tokens, slot_pending, slot_done in Hin. cbn in Hin.
    rewrite flat_map_app in Hin. cbn in Hin. rewrite app_nil_r in Hin. rewrite !in_app_iff in Hin.
    destruct Hin as [[[Hin|Hin]|Hin]|Hin].
    + apply routed_mono. eapply Hslot; [exact Hn|]. unfold slot_tokens, slot_pending. rewrite !in_app_iff. tauto.
    + exists ch. split; [apply in_or_app; right; left; reflexivity|assumption].
    + apply routed_mono. eapply Hslot; [exact Hn|]. unfold slot_tokens, slot_pending. rewrite !in_app_iff. tauto.
    + apply routed_mono. eapply Hslot; [exact Hn|]. unfold slot_tokens, slot_done. rewrite !in_app_iff. tauto.
  - (* last chunk drawn: MDrain *) cbn in Hpre. rewrite app_nil_r in Hpre. exact Hpre.
  - (* pills *)
    intros w1 sl1 t1 Hn1 Hin1. apply nth_error_map_some in Hn1. destruct Hn1 as (sl0 & Hn0 & ->).
    eapply Hslot; [exact Hn0|]. unfold slot_tokens, slot_pending, slot_done in *. cbn in Hin1.
    rewrite flat_map_app in Hin1. cbn in Hin1. rewrite app_nil_r in Hin1. exact Hin1.
  - (* a task is executed by the worker holding it *)
    intros w1 t1 Hin1. rewrite exec_of_snoc in Hin1. cbn in Hin1. rewrite in_app_iff in Hin1.
    destruct Hin1 as [Hin1|[Heq|[]]]; [apply Hexec; exact Hin1|]. inversion Heq; subst w1 t1.
    eapply Hslot; [exact Hn|]. unfold slot_tokens, slot_pending. rewrite Hp. cbn. rewrite !in_app_iff. cbn. tauto.
Qed.


Lemma init_InvO c chunks : InvO c chunks (init c chunks).
Proof.
  constructor; cbn.
  - apply repeat_length.
  - reflexivity.
  - intros _. split; [reflexivity|]. intros k w ch H. destruct k; discriminate.
  - intros w sl t Hn Hin. apply nth_error_In in Hn. apply repeat_spec in Hn. subst sl. destruct Hin.
  - intros w t [].
Qed.

Lemma run_InvO c chunks sched : InvO c chunks (run c (init c chunks) sched).
Proof. apply run_invariant; [apply init_InvO|]. intros; eapply step_InvO; eauto. Qed.

Lemma prefix_nth {A} (p r l : list A) i x : p ++ r = l -> nth_error p i = Some x -> nth_error l i = Some x.
Proof. intros <- H. rewrite nth_error_app1; [assumption|]. apply nth_error_Some. congruence. Qed.

(* C16: with order_tasks, whatever worker w executes belongs to a chunk number i with w = i mod n_jobs *)
Theorem order_tasks_assignment c chunks sched w t :
  order c = true ->
  In (w, t) (exec_of (evlog (run c (init c chunks) sched))) ->
  exists i ch, nth_error chunks i = Some ch /\ In t ch /\ w = i mod njobs c.
Proof.
  intros Ho Hin. destruct (run_InvO c chunks sched) as [Hlen Hpre Hrr Hslot Hexec].
  set (s := run c (init c chunks) sched) in *.
  destruct (Hexec w t Hin) as (ch & Hd & Ht).
  apply In_nth_error in Hd. destruct Hd as [i Hi].
  destruct (Hrr Ho) as [_ Hk]. exists i, ch. split; [|split; [assumption|eapply Hk; eauto]].
  assert (Hm : nth_error (map snd (dlog s)) i = Some ch).
  { rewrite nth_error_map. rewrite Hi. reflexivity. }
  destruct (main s) as [rem pend| | | | | |]; try (rewrite <- Hpre; exact Hm).
  eapply prefix_nth; eauto.
Qed.

(* the dispatch log itself: the k-th add_task of the call carries chunk k and goes to worker k mod n_jobs *)
Theorem order_tasks_dispatch c chunks sched k w ch :
  order c = true ->
  nth_error (dlog (run c (init c chunks) sched)) k = Some (w, ch) ->
  w = k mod njobs c /\ nth_error chunks k = Some ch.
Proof.
  intros Ho Hk. destruct (run_InvO c chunks sched) as [Hlen Hpre Hrr Hslot Hexec].
  set (s := run c (init c chunks) sched) in *.
  destruct (Hrr Ho) as [_ Hk']. split; [eapply Hk'; eauto|].
  assert (Hm : nth_error (map snd (dlog s)) k = Some ch).
  { rewrite nth_error_map. rewrite Hk. reflexivity. }
  destruct (main s) as [rem pend| | | | | |]; try (rewrite <- Hpre; exact Hm).
  eapply prefix_nth; eauto.
Qed.

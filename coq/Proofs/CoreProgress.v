(* Proofs/CoreProgress.v -- deadlock-freedom: in every reachable state of every schedule in which
   the call is not finished, some actor is enabled.  (Termination: CoreMeasure.v.) *)
From Coq Require Import List Arith Lia Bool.
From RecordUpdate Require Import RecordUpdate.
From Mpv Require Import NumOps GenProto Core ProtoSpec CoreLemmas CoreCons CoreOrder CoreLife CoreInv.
Import ListNotations.
Close Scope Z_scope.
Open Scope nat_scope.

Definition enabled (c : cfg) (s : st) : Prop := exists a, step c s a <> None.

Lemma list_sum_pos_ex {A} (f : A -> nat) l : 0 < list_sum (map f l) -> exists i x, nth_error l i = Some x /\ 0 < f x.
Proof.
  induction l as [|a l IH]; simpl; [unfold list_sum; simpl; lia|]. rewrite lsum_cons. intros H.
  destruct (f a) eqn:E.
  - destruct IH as (i & x & Hn & Hp); [lia|]. exists (S i), x; auto.
  - exists 0, a; simpl; split; [reflexivity|lia].
Qed.
Lemma forallb_false_ex {A} (f : A -> bool) l : forallb f l = false -> exists i x, nth_error l i = Some x /\ f x = false.
Proof.
  induction l as [|a l IH]; simpl; [discriminate|]. destruct (f a) eqn:E; simpl.
  - intros H; destruct (IH H) as (i & x & ? & ?); exists (S i), x; auto.
  - intros _; exists 0, a; auto.
Qed.

Section Progress.
Variables (c : cfg) (ntotal : nat) (s : st).
Hypothesis HI : Inv c ntotal s.

Lemma res_enabled : resq s <> [] -> enabled c s.
Proof.
  intros Hr. exists LRes; cbn [step]. destruct (resq s) as [|[w b] r] eqn:Er; [congruence|].
  destruct (p_ids c ntotal s HI) as [Hids _]. rewrite Er in Hids. pose proof (Forall_inv Hids) as Hlt. cbn in Hlt.
  destruct (p_len c ntotal s HI) as [Hl _].
  destruct (nth_error (slots s) w) eqn:En; [destruct b; discriminate|]. apply nth_error_None in En. lia.
Qed.

(* a slot that still has something to do is enabled, or the results / restart handler is *)
Lemma slot_enabled w sl :
  nth_error (slots s) w = Some sl ->
  (q sl <> [] \/ running (pc sl) = true \/ pc sl = WBoot \/ pc sl = WExit \/ pc sl = WFinal \/ restart sl = true) ->
  enabled c s.
Proof.
  intros Hn Hw.
  destruct (p_slot c ntotal s HI w sl Hn) as (Hmp & Hhs & Hq0 & Hun & Hpe & Hpl & Hpi & Hxf & Hdd & Hrr & Hra).
  destruct (pc sl) eqn:Hp.
  - exists (LWorker w); cbn [step]; rewrite Hn, Hp; discriminate.
  - (* WLoop *)
    exists (LWorker w); cbn [step]; rewrite Hn, Hp.
    destruct (alive_guard c (nexec sl)); [|discriminate].
    destruct Hw as [Hq|[Hr|[Hb|[Hb|[Hb|Hb]]]]]; try discriminate.
    + destruct (q sl) as [|[ch|] qr]; [congruence|discriminate|discriminate].
    + destruct (Hrr Hb) as [Hx _]. discriminate.
  - exists (LWorker w); cbn [step]; rewrite Hn, Hp; discriminate.
  - exists (LWorker w); cbn [step]; rewrite Hn, Hp. destruct rest; discriminate.
  - exists (LWorker w); cbn [step]; rewrite Hn, Hp; discriminate.
  - (* WFinal: waits until the main process received all its results *)
    destruct (must_wait (received sl) (added sl)) eqn:E.
    + rewrite must_wait_spec in E. apply negb_true_iff, Nat.eqb_neq in E.
      apply res_enabled. intros Hr. rewrite Hr, cntw_nil in Hhs. lia.
    + exists (LWorker w); cbn [step]; rewrite Hn, Hp, E; discriminate.
  - (* WDead *)
    destruct (restart sl) eqn:Er.
    + exists (LRestart w); cbn [step]; rewrite Hn, Hp, Er; discriminate.
    + exfalso. specialize (Hdd eq_refl eq_refl).
      destruct Hw as [Hq|[Hr|[Hb|[Hb|[Hb|Hb]]]]]; try discriminate.
      destruct (late (main s)) eqn:El.
      * destruct (Hpl eq_refl) as [[_ Hq']|[Hp' _]]; congruence.
      * destruct (Hpe eq_refl) as [Hp' _]; congruence.
Qed.

(* something is in flight but nothing is ready for main: a worker, the results handler or the
   restart handler can move *)
Lemma flight_enabled : 0 < flight s -> items s = [] -> enabled c s.
Proof.
  intros Hf Hi. unfold flight in Hf. rewrite Hi in Hf. cbn [length] in Hf.
  destruct (Nat.eq_dec (res_len (resq s)) 0) as [Hr|Hr].
  - assert (Hs : 0 < list_sum (map slot_len (slots s))) by lia.
    destruct (list_sum_pos_ex slot_len (slots s) Hs) as (w & sl & Hn & Hp).
    apply (slot_enabled w sl Hn). rewrite slot_len_eq in Hp.
    destruct (q sl) as [|m qr]; [|left; discriminate].
    right. left. unfold list_sum in Hp; cbn in Hp. destruct (pc sl); cbn in *; try lia; reflexivity.
  - apply res_enabled. intros E. rewrite E in Hr. apply Hr. reflexivity.
Qed.

Theorem progress : main s <> MDone -> enabled c s.
Proof.
  intros Hnd.
  destruct (p_len c ntotal s HI) as [Hlen Hnj].
  destruct (main s) as [rem [ch|]| | | | | |] eqn:Hm; try congruence.
  - (* waiting to dispatch a drawn chunk *)
    destruct (blocked (nactive s) (length ch) (maxact c)) eqn:Hb.
    + destruct (items s) as [|x it] eqn:Hi.
      * apply flight_enabled; [|assumption]. pose proof (p_act c ntotal s HI) as Ha. rewrite Hm in Ha.
        rewrite blocked_spec in Hb. apply andb_true_iff in Hb. destruct Hb as [Hb _]. apply Nat.ltb_lt in Hb. lia.
      * exists LMain; cbn [step]; rewrite Hm, Hb, Hi; discriminate.
    + exists LMain; cbn [step]; rewrite Hm, Hb. rewrite (choose_spec c _ _ Hnj).
      destruct (p_ids c ntotal s HI) as [_ Hlc].
      assert (Hw : forall w ti lc, (if order c || match lastc s with [] => true | _ => false end
                 then (tidx s mod njobs c, S (tidx s), lastc s)
                 else match lastc s with w0 :: r => (w0, tidx s, r) | [] => (0, tidx s, []) end) = (w, ti, lc) -> w < njobs c).
      { intros w ti lc E. destruct (order c || _).
        - inversion E; subst. apply Nat.mod_upper_bound. lia.
        - destruct (lastc s) as [|w0 r]; inversion E; subst; [lia|]. exact (Forall_inv Hlc). }
      destruct (if order c || _ then _ else _) as [[w ti] lc] eqn:E. specialize (Hw w ti lc eq_refl).
      destruct (nth_error (slots s) w) eqn:En; [discriminate|]. apply nth_error_None in En. lia.
  - (* about to draw the next chunk *)
    destruct (predraw (nactive s) (maxact c)) eqn:Hb.
    + destruct (items s) as [|x it] eqn:Hi.
      * apply flight_enabled; [|assumption]. pose proof (p_act c ntotal s HI) as Ha. rewrite Hm in Ha.
        rewrite predraw_spec in Hb. apply Nat.ltb_lt in Hb. lia.
      * exists LMain; cbn [step]; rewrite Hm, Hb, Hi; discriminate.
    + exists LMain; cbn [step]; rewrite Hm, Hb. destruct rem; discriminate.
  - (* draining *)
    destruct (items s) as [|x it] eqn:Hi.
    + destruct (exhausted (ndrawn s) (length (yielded s))) eqn:He.
      * exists LMain; cbn [step]; rewrite Hm, Hi, He; discriminate.
      * apply flight_enabled; [|assumption]. destruct (p_cons c ntotal s HI) as [Hc Hd]. rewrite Hm in Hc, Hd. cbn in Hc, Hd.
        rewrite exhausted_spec in He. apply Nat.eqb_neq in He. lia.
    + exists LMain; cbn [step]; rewrite Hm, Hi; discriminate.
  - exists LMain; cbn [step]; rewrite Hm; discriminate.
  - (* join the task queues *)
    destruct (forallb (fun sl => unf sl =? 0) (slots s)) eqn:Ha.
    + exists LMain; cbn [step]; rewrite Hm, Ha; discriminate.
    + destruct (forallb_false_ex _ _ Ha) as (w & sl & Hn & Hu). apply Nat.eqb_neq in Hu.
      destruct (p_slot c ntotal s HI w sl Hn) as (_ & _ & _ & Hun & _).
      apply (slot_enabled w sl Hn). destruct (q sl); [|left; discriminate].
      right. left. cbn in Hun. unfold holds in Hun. destruct (running (pc sl)); [reflexivity|lia].
  - (* join the workers *)
    destruct (forallb (fun sl => match pc sl with WDead => negb (restart sl) | _ => false end) (slots s)) eqn:Ha.
    + exists LMain; cbn [step]; rewrite Hm, Ha; discriminate.
    + destruct (forallb_false_ex _ _ Ha) as (w & sl & Hn & Hu).
      destruct (p_slot c ntotal s HI w sl Hn) as (_ & _ & _ & _ & _ & Hpl & Hpi & _).
      rewrite Hm in Hpl. specialize (Hpl eq_refl).
      apply (slot_enabled w sl Hn).
      destruct (pc sl) eqn:Hp; auto 10.
      * (* WLoop: not pilled yet, the pill is in its queue *)
        destruct Hpl as [[Hpp _]|[_ Hq]]; [destruct (Hpi Hpp) as [Hx _]; discriminate|].
        left. rewrite Hq. discriminate.
      * destruct (restart sl); [auto 10|discriminate].
  - (* join the results queue *)
    destruct (resq s) eqn:Hr; [exists LMain; cbn [step]; rewrite Hm, Hr; discriminate|].
    apply res_enabled. congruence.
Qed.
End Progress.

(* C03 (deadlock-freedom half): every reachable state of every schedule is finished or has an
   enabled actor *)
Theorem no_deadlock c chunks sched :
  0 < njobs c -> Forall (fun ch => 0 < length ch) chunks ->
  let s := run c (init c chunks) sched in
  main s <> MDone -> enabled c s.
Proof. intros Hn Hc s. eapply progress. apply run_Inv; assumption. Qed.

(* Proofs/CoreResult.v -- what a finished call delivered, for ALL schedules: the results handed
   to the caller are a permutation of the inputs, and so is the execution log (each task run
   exactly once).  Before the end, the execution log is a sub-multiset of the inputs. *)
From Coq Require Import List Arith Lia Bool Permutation.
From RecordUpdate Require Import RecordUpdate.
From Mpv Require Import NumOps GenProto Core ProtoSpec CoreCons.
Import ListNotations.
Close Scope Z_scope.
Open Scope nat_scope.

Lemma submultiset_same_length (a b : list nat) :
  (forall t, cnt t a <= cnt t b) -> length a = length b -> forall t, cnt t a = cnt t b.
Proof.
  revert b; induction a as [|x a IH]; intros b Hle Hlen t.
  - destruct b; [reflexivity|discriminate].
  - assert (Hin : In x b).
    { apply (count_occ_In Nat.eq_dec). specialize (Hle x). rewrite cnt_cons in Hle.
      destruct (Nat.eq_dec x x); [unfold cnt in Hle; lia|congruence]. }
    apply in_split in Hin. destruct Hin as (b1 & b2 & ->).
    assert (Hb : forall u, cnt u (b1 ++ x :: b2) = (if Nat.eq_dec x u then 1 else 0) + cnt u (b1 ++ b2)).
    { intros u. rewrite !cnt_app, cnt_cons. lia. }
    rewrite Hb, cnt_cons. f_equal. apply IH.
    + intros u. specialize (Hle u). rewrite Hb, cnt_cons in Hle. lia.
    + rewrite app_length in *. simpl in *. lia.
Qed.

Lemma cnt_perm a b : (forall t, cnt t a = cnt t b) -> Permutation a b.
Proof. intros H. apply (Permutation_count_occ Nat.eq_dec). intros x. apply H. Qed.

(* bookkeeping of the dispatch loop's own counter *)
Definition stopped (m : mpc) : bool :=
  match m with MStop | MJoinQ | MJoinW | MJoinR | MDone => true | _ => false end.

Definition InvK (ntotal : nat) (s : st) : Prop :=
  match main s with
  | MDispatch rem _ => ndrawn s + length (concat rem) = ntotal
  | _ => ndrawn s = ntotal
  end /\ (stopped (main s) = true -> length (yielded s) = ntotal).

Lemma step_InvK c n s a s' : InvK n s -> step c s a = Some s' -> InvK n s'.
Proof.
  unfold InvK. intros [H1 H2] Hs. destruct a as [| |w|w]; cbn [step] in Hs.
  - destruct (main s) as [rem [ch|]| | | | | |] eqn:Hm; try discriminate.
    + destruct (blocked _ _ _).
      * destruct (items s); inversion Hs; subst s'; clear Hs; cbn; rewrite Hm; cbn; split; [assumption|discriminate].
      * destruct (choose _ _ _) as [[[w ti] lc]|]; [|discriminate].
        destruct (nth_error _ _); inversion Hs; subst s'; clear Hs; cbn; split; [assumption|discriminate].
    + destruct (predraw _ _).
      { destruct (items s); inversion Hs; subst s'; clear Hs; cbn; rewrite Hm; cbn; split; [assumption|discriminate]. }
      destruct rem as [|ch rem']; inversion Hs; subst s'; clear Hs; cbn.
      * cbn in H1. split; [lia|discriminate].
      * cbn in H1. rewrite app_length in H1. split; [lia|discriminate].
    + destruct (items s).
      * rewrite exhausted_spec in Hs. destruct (Nat.eqb_spec (length (yielded s)) (ndrawn s)); inversion Hs; subst s'; clear Hs.
        cbn. split; [assumption|]. intros _. lia.
      * inversion Hs; subst s'; clear Hs. cbn. rewrite Hm. split; [assumption|discriminate].
    + inversion Hs; subst s'; clear Hs. cbn. split; [assumption|]. intros _. apply H2. reflexivity.
    + destruct (forallb _ _); inversion Hs; subst s'; clear Hs. cbn. split; [assumption|]. intros _. apply H2. reflexivity.
    + destruct (forallb _ _); inversion Hs; subst s'; clear Hs. cbn. split; [assumption|]. intros _. apply H2. reflexivity.
    + destruct (resq s); inversion Hs; subst s'; clear Hs. cbn. split; [assumption|]. intros _. apply H2. reflexivity.
  - destruct (resq s) as [|[w b] r]; try discriminate.
    destruct (nth_error _ _); inversion Hs; subst s'; clear Hs. destruct b; cbn; split; assumption.
  - destruct (nth_error (slots s) w) as [sl|]; try discriminate.
    destruct (pc sl) as [| |ch|rest acc| | |]; try discriminate.
    + inversion Hs; subst s'; clear Hs; cbn; split; assumption.
    + destruct (alive_guard _ _).
      * destruct (q sl) as [|[ch|] qr]; inversion Hs; subst s'; clear Hs; cbn; split; assumption.
      * inversion Hs; subst s'; clear Hs; cbn; split; assumption.
    + inversion Hs; subst s'; clear Hs; cbn; split; assumption.
    + destruct rest; inversion Hs; subst s'; clear Hs; cbn; split; assumption.
    + inversion Hs; subst s'; clear Hs; cbn; split; assumption.
    + destruct (must_wait _ _); inversion Hs; subst s'; clear Hs; cbn; split; assumption.
  - destruct (nth_error (slots s) w) as [sl|]; try discriminate.
    destruct (pc sl); try discriminate. destruct (restart sl); inversion Hs; subst s'; clear Hs; cbn; split; assumption.
Qed.

Lemma run_InvK c chunks sched : InvK (length (concat chunks)) (run c (init c chunks) sched).
Proof.
  assert (H0 : InvK (length (concat chunks)) (init c chunks)).
  { unfold InvK, init; cbn. split; [reflexivity|discriminate]. }
  revert H0. generalize (init c chunks).
  induction sched as [|a r IH]; intros s HI; simpl; [exact HI|].
  destruct (step c s a) eqn:Hs; [apply IH; eapply step_InvK; eauto|apply IH; exact HI].
Qed.

Section Results.
Variables (c : cfg) (chunks : list (list nat)) (sched : list label).
Let s := run c (init c chunks) sched.
Let all := concat chunks.

Lemma yielded_le t : cnt t (yielded s) <= cnt t all.
Proof. destruct (run_InvC c chunks sched t) as [H _]. fold s all in H. unfold produced in H. rewrite !cnt_app in H. lia. Qed.

Lemma executed_le t : cnt t (executed s) <= cnt t all.
Proof. destruct (run_InvC c chunks sched t) as [H1 H2]. fold s all in H1, H2. lia. Qed.

(* C02, failure half / any moment: nothing is executed more often than it occurs in the input *)
Theorem executed_submultiset : forall t, cnt t (executed s) <= cnt t all.
Proof. exact executed_le. Qed.

(* C01 (unordered): when the call has finished, the delivered results are a permutation of the inputs *)
Theorem finished_yielded_perm : stopped (main s) = true -> Permutation (yielded s) all.
Proof.
  intros Hd. apply cnt_perm. apply submultiset_same_length; [apply yielded_le|].
  destruct (run_InvK c chunks sched) as [_ H]. fold s in H. apply H. exact Hd.
Qed.

(* C02, success half: every task was executed exactly once *)
Theorem finished_executed_perm : stopped (main s) = true -> Permutation (executed s) all.
Proof.
  intros Hd. apply cnt_perm. intros t.
  pose proof (finished_yielded_perm Hd) as HP.
  assert (Hy : cnt t (yielded s) = cnt t all) by (apply (Permutation_count_occ Nat.eq_dec); exact HP).
  destruct (run_InvC c chunks sched t) as [H1 H2]. fold s all in H1, H2.
  unfold produced in *. rewrite !cnt_app in *. lia.
Qed.

(* with distinct task indices: no task is ever executed twice *)
Theorem executed_nodup : NoDup all -> NoDup (executed s).
Proof.
  intros Hnd. apply (NoDup_count_occ Nat.eq_dec). intros t.
  pose proof (executed_le t) as H. apply (NoDup_count_occ Nat.eq_dec) with (x := t) in Hnd.
  unfold cnt in H. lia.
Qed.
End Results.

(* Proofs/DeathProofs.v -- with the read order the source currently has, the death watch never
   fires when nobody was killed (whatever the interleaving with routine exits and restarts), and
   fires on the first complete pass after an announced instance was killed. *)
From Coq Require Import List Arith Lia Bool.
From Mpv Require Import GenStruct Death.
Import ListNotations.
Close Scope Z_scope.
Open Scope nat_scope.

(* Spec lemmas: what the source currently does *)
Lemma death_reads_spec : death_reads = [RNotNone; RStarted; RDeadCaptured; RFlag; RSame].
Proof. reflexivity. Qed.
Lemma start_worker_assign_first_spec : start_worker_assign_first = true.
Proof. reflexivity. Qed.

(* the flag is up exactly while the current instance is in PUp *)
Definition flag_ok (s : dst) : Prop := match ph s with PUp => flag s = true | _ => flag s = false end.

(* where the watch is in its pass, and what it has learnt so far *)
Definition watch_ok (s : dst) : Prop :=
  fired s = false /\ captured s <= cur s /\
  (wpos s = [] \/ wpos s = [RNotNone; RStarted; RDeadCaptured; RFlag; RSame] \/
   wpos s = [RStarted; RDeadCaptured; RFlag; RSame] \/
   (* `ident is not None` seen: the captured instance had been started *)
   (wpos s = [RDeadCaptured; RFlag; RSame] /\ (captured s < cur s \/ ph s <> PNew)) \/
   (* `not is_alive()` seen: it is a predecessor, or the current one and gone after lowering its flag *)
   (wpos s = [RFlag; RSame] /\ (captured s < cur s \/ ph s = PExited)) \/
   (* flag then seen up: raised by a successor, so the slot no longer holds the captured instance *)
   (wpos s = [RSame] /\ captured s < cur s)).

Definition DInv (s : dst) : Prop := killed_any s = false -> flag_ok s /\ watch_ok s /\ ph s <> PKilled.

Ltac wcases H :=
  destruct H as [H|[H|[H|[[H ?Hx]|[[H ?Hx]|[H ?Hx]]]]]].

Lemma dstep_DInv s a s' : DInv s -> dstep s a = Some s' -> DInv s'.
Proof.
  unfold DInv. intros HI Hs.
  destruct a; cbn [dstep] in Hs.
  - (* the current instance moves on *)
    destruct (ph s) eqn:Hp; inversion Hs; subst s'; clear Hs; cbn; intros Hk;
    destruct (HI Hk) as (Hf & (H1 & H2 & H3) & Hnk); unfold flag_ok, watch_ok in *; rewrite Hp in *; cbn;
    (split; [first [reflexivity|assumption]|]); (split; [|discriminate]); repeat split; auto;
    wcases H3; auto 10.
    all: try (right; right; right; left; split; [assumption|]; destruct Hx; [left; assumption|right; congruence]).
    all: try (right; right; right; right; left; split; [assumption|]; destruct Hx; [left; assumption|congruence]).
  - (* kill: the hypothesis killed_any = false no longer holds *)
    destruct (ph s); inversion Hs; subst s'; cbn; intros; discriminate.
  - (* restart *)
    destruct (ph s) eqn:Hp; inversion Hs; subst s'; clear Hs; cbn; intros Hk.
    destruct (HI Hk) as (Hf & (H1 & H2 & H3) & Hnk); unfold flag_ok, watch_ok in *; rewrite Hp in *; cbn.
    split; [assumption|]. split; [|discriminate]. repeat split; auto.
    wcases H3; auto 10.
    all: try (right; right; right; left; split; [assumption|left; lia]).
    all: try (right; right; right; right; left; split; [assumption|left; lia]).
    all: try (right; right; right; right; right; split; [assumption|lia]).
  - (* one read of the watch *)
    destruct (fired s) eqn:Hfi; [discriminate|].
    intros Hk'.
    assert (Hk : killed_any s = false).
    { destruct (wpos s) as [|r rest]; [inversion Hs; subst s'; exact Hk'|].
      destruct (read s r); [destruct rest|]; inversion Hs; subst s'; exact Hk'. }
    destruct (HI Hk) as (Hf & (H1 & H2 & H3) & Hnk). unfold flag_ok, watch_ok in *.
    destruct (wpos s) as [|r rest] eqn:Hwp.
    + inversion Hs; subst s'; clear Hs; cbn. split; [exact Hf|]. split; [|exact Hnk]. rewrite death_reads_spec. repeat split; auto.
    + wcases H3; try discriminate; inversion H3; subst r rest; clear H3; cbn [read] in Hs.
      * inversion Hs; subst s'; cbn. split; [exact Hf|]. split; [|exact Hnk]. repeat split; auto 10.
      * destruct (started_of s (captured s)) eqn:Hst; inversion Hs; subst s'; cbn; (split; [exact Hf|]); (split; [|exact Hnk]); repeat split; auto 10.
        right; right; right; left. split; [reflexivity|].
        unfold started_of in Hst. destruct (Nat.ltb_spec (captured s) (cur s)); [left; assumption|].
        destruct (Nat.eqb_spec (captured s) (cur s)); [|discriminate]. right. destruct (ph s); congruence.
      * destruct (gone_of s (captured s)) eqn:Hg; inversion Hs; subst s'; cbn; (split; [exact Hf|]); (split; [|exact Hnk]); repeat split; auto 10.
        right; right; right; right; left. split; [reflexivity|].
        destruct Hx as [Hx|Hx]; [left; assumption|].
        unfold gone_of in Hg. destruct (Nat.ltb_spec (captured s) (cur s)); [left; assumption|].
        destruct (Nat.eqb_spec (captured s) (cur s)); [|lia].
        (* without kills the current instance is gone only after lowering its flag *)
        right. destruct (ph s) eqn:Hp; try discriminate; try congruence.

      * destruct (flag s) eqn:Hfl; inversion Hs; subst s'; cbn; (split; [exact Hf|]); (split; [|exact Hnk]); repeat split; auto 10.
        right; right; right; right; right. split; [reflexivity|].
        destruct Hx as [Hx|Hx]; [assumption|]. rewrite Hx in Hf. congruence.
      * destruct (Nat.eqb_spec (captured s) (cur s)); [lia|]. inversion Hs; subst s'; cbn; (split; [exact Hf|]); (split; [|exact Hnk]); repeat split; auto 10.
Qed.

Lemma dinit_DInv : DInv dinit.
Proof. intros _. unfold flag_ok, watch_ok, dinit; cbn. repeat split; auto; discriminate. Qed.

Lemma killed_any_stable s a s' : a <> DKill -> dstep s a = Some s' -> killed_any s' = killed_any s.
Proof.
  intros Ha Hs. destruct a; try congruence; cbn [dstep] in Hs.
  - destruct (ph s); inversion Hs; reflexivity.
  - destruct (ph s); inversion Hs; reflexivity.
  - destruct (fired s); [discriminate|]. destruct (wpos s) as [|r rest]; [inversion Hs; reflexivity|].
    destruct (read s r); [destruct rest|]; inversion Hs; reflexivity.
Qed.

(* C12 (routine restarts are never mistaken for a death) / C07: for EVERY interleaving of worker
   progress, routine exits, restarts and the individual reads of the watch, if nobody is killed the
   watch never declares a death *)
Theorem no_false_death : forall sched, ~ In DKill sched -> fired (drun dinit sched) = false.
Proof.
  intros sched Hno.
  assert (H : forall s, DInv s -> killed_any s = false -> ~ In DKill sched ->
                        DInv (drun s sched) /\ killed_any (drun s sched) = false).
  { clear Hno. induction sched as [|a r IH]; intros s HI Hk Hno; cbn [drun]; [split; assumption|].
    assert (Ha : a <> DKill) by (intros ->; apply Hno; left; reflexivity).
    assert (Hr : ~ In DKill r) by (intros Hin; apply Hno; right; exact Hin).
    destruct (dstep s a) as [s'|] eqn:Hs; [|apply IH; assumption].
    apply IH; [eapply dstep_DInv; eauto| |assumption].
    rewrite (killed_any_stable _ _ _ Ha Hs). exact Hk. }
  destruct (H dinit dinit_DInv eq_refl Hno) as [HI Hk].
  destruct (HI Hk) as (_ & (Hf & _) & _). exact Hf.
Qed.

(* detection: an instance killed after it announced itself (flag up) is reported by the first
   complete pass of the watch that starts afterwards *)
Theorem death_detected : forall s,
  ph s = PKilled -> flag s = true -> fired s = false -> wpos s = [] ->
  fired (drun s (repeat DWatch 6)) = true.
Proof.
  intros [cu p fl wp ca fi ka] Hp Hfl Hfi Hwp. cbn in *. subst p fl fi wp.
  assert (Hst : forall w f k, started_of (mkD cu PKilled true w cu f k) cu = true).
  { intros. unfold started_of. cbn [cur ph captured]. rewrite Nat.ltb_irrefl, Nat.eqb_refl. reflexivity. }
  assert (Hgo : forall w f k, gone_of (mkD cu PKilled true w cu f k) cu = true).
  { intros. unfold gone_of. cbn [cur ph captured]. rewrite Nat.ltb_irrefl, Nat.eqb_refl. reflexivity. }
  cbn [repeat]. rewrite death_reads_spec.
  repeat (cbn [drun dstep fired wpos read captured cur ph flag killed_any]; rewrite ?Hst, ?Hgo, ?Nat.eqb_refl).
  reflexivity.
Qed.

(* the race is real: with the flag read BEFORE the liveness of the slot (the order the code had
   before the fix) a routine exit between the two reads is declared a death *)
Example old_order_false_alarm :
  let old_step (s : dst) (a : dlabel) :=           (* the watch with reads [RFlag; RDeadSlot] *)
      match a with
      | DWatch => match wpos s with
                  | [] => Some (mkD (cur s) (ph s) (flag s) [RFlag; RDeadSlot] (cur s) false (killed_any s))
                  | r :: rest => if read s r
                                 then match rest with [] => Some (mkD (cur s) (ph s) (flag s) [] (captured s) true (killed_any s))
                                                 | _ => Some (mkD (cur s) (ph s) (flag s) rest (captured s) false (killed_any s)) end
                                 else Some (mkD (cur s) (ph s) (flag s) [] (captured s) false (killed_any s))
                  end
      | _ => dstep s a
      end in
  let run := fold_left (fun s a => match old_step s a with Some s' => s' | None => s end) in
  fired (run [DInst; DInst; DWatch; DWatch; DInst; DInst; DWatch] dinit) = true.
Proof. vm_compute. reflexivity. Qed.

(* Proofs/FailAuxProofs.v -- transport faithfulness; no false timeout on any timeline of short
   calls (idle gaps of any length included); a timeout fires at the first check after t. *)
From Coq Require Import List Arith Lia Bool String ZArith.
From Mpv Require Import GenAsync GenStruct OrderHist Fail FailAux.
Import ListNotations.
Open Scope Z_scope.

Lemma guards_spec : get_exception_guards_three_parts = true. Proof. vm_compute. reflexivity. Qed.
Lemma pickler_spec : get_exception_uses_the_pools_pickler = true. Proof. vm_compute. reflexivity. Qed.
Lemma populate_spec : populate_rebuilds_args_and_state = true. Proof. vm_compute. reflexivity. Qed.
Lemma started_spec : started_sets_now = true. Proof. vm_compute. reflexivity. Qed.
Lemma completed_spec : completed_sets_zero = true. Proof. vm_compute. reflexivity. Qed.
Lemma phases_spec : init_exit_phases_bracketed = true. Proof. vm_compute. reflexivity. Qed.
Lemma finally_spec : run_func_clears_in_finally = true. Proof. vm_compute. reflexivity. Qed.

(* C04: what the caller rebuilds is the raised exception (class, args, attributes) when the pool's
   pickler can transport it, else CannotPickleExceptionError describing it; the traceback text is
   attached as the cause in both cases. *)
Theorem transport_faithful e tb :
  let r := populate (get_exception e tb) in
  r_cause r = tb /\
  (if pk_ty e && pk_args e && pk_attrs e
   then r_ty r = ety e /\ r_args r = eargs e /\ r_attrs r = eattrs e
   else r_ty r = CANNOT_PICKLE /\ r_args r = [erepr e]).
Proof.
  unfold populate, get_exception. rewrite guards_spec, populate_spec.
  destruct (pk_ty e && pk_args e && pk_attrs e); cbn; auto.
Qed.

(* ---- timeouts ---- *)
Lemma timed_out_iff st now t : has_worker_timed_out st now t = true <-> st <> 0 /\ t <= now - st.
Proof.
  unfold has_worker_timed_out. destruct (Z.eqb_spec st 0).
  - split; [discriminate|intros [H _]; congruence].
  - rewrite Z.leb_le. tauto.
Qed.

(* the next completion time on a timeline *)
Fixpoint next_done (l : list tev) : option Z :=
  match l with [] => None | TDone n :: _ => Some n | TStart _ :: _ => None | TCheck _ :: r => next_done r end.
Definition ev_time (e : tev) : Z := match e with TStart n | TDone n | TCheck n => n end.
(* a well-formed timeline: time moves forward, starts and completions alternate, the clock is
   never 0 (time.time() of a running system), and every call completes in less than t *)
Fixpoint short_calls (t : Z) (running : bool) (clock : Z) (l : list tev) : Prop :=
  match l with
  | [] => True
  | TStart n :: r => running = false /\ clock <= n /\ 0 < n /\ (exists d, next_done r = Some d /\ d - n < t) /\ short_calls t true n r
  | TDone n :: r => running = true /\ clock <= n /\ short_calls t false n r
  | TCheck n :: r => clock <= n /\ short_calls t running n r
  end.

Lemma no_false_timeout_gen t : forall l running clock started,
  short_calls t running clock l ->
  (running = false -> started = 0) ->
  (running = true -> 0 < started /\ started <= clock /\ exists d, next_done l = Some d /\ d - started < t) ->
  Forall (fun b => b = false) (checks t started l).
Proof.
  induction l as [|e r IH]; intros running clock started Hs Hidle Hrun; cbn [checks]; [constructor|].
  destruct e as [n|n|n]; cbn [tstep short_calls] in *.
  - destruct Hs as (Hr & Hc & Hn & (d & Hd & Hlt) & Hs). rewrite started_spec.
    eapply IH; [exact Hs|discriminate|]. intros _. split; [lia|]. split; [lia|]. exists d. auto.
  - destruct Hs as (Hr & Hc & Hs). rewrite completed_spec.
    eapply IH; [exact Hs|reflexivity|discriminate].
  - destruct Hs as (Hc & Hs). constructor.
    + destruct running.
      * destruct (Hrun eq_refl) as (Hp & Hle & d & Hd & Hlt).
        destruct (has_worker_timed_out started n t) eqn:E; [|reflexivity].
        apply timed_out_iff in E. destruct E as [_ E].
        (* the completion d lies ahead of this check: n <= d *)
        assert (Hnd : n <= d).
        { clear - Hs Hd. cbn [next_done] in Hd. revert n Hs Hd. generalize true at 1.
          induction r as [|e r IHr]; intros b n Hs Hd; [discriminate|].
          destruct e as [m|m|m]; cbn [next_done short_calls] in *; try discriminate.
          - inversion Hd; subst. lia.
          - destruct Hs as (Hc & Hs). specialize (IHr _ _ Hs Hd). lia. }
        lia.
      * rewrite (Hidle eq_refl). reflexivity.
    + eapply IH; [exact Hs|exact Hidle|]. intros Hr. destruct (Hrun Hr) as (Hp & Hle & d & Hd & Hlt).
      split; [assumption|]. split; [lia|]. exists d. cbn [next_done] in Hd. auto.
Qed.

(* C08, first half: on ANY timeline on which every call of the watched function completes within
   less than t -- whatever the idle gaps between calls, however many calls (worker restarts and
   keep-alive reuse only add Start/Done pairs), whenever the handler looks -- no check fires *)
Theorem no_false_timeout t l : short_calls t false 0 l -> Forall (fun b => b = false) (checks t 0 l).
Proof. intros H. eapply no_false_timeout_gen; [exact H|reflexivity|discriminate]. Qed.

(* C08, second half: a call started at st that is still running is found overdue by every check at or after st + t *)
Theorem timeout_fires t st now : 0 < st -> st + t <= now -> has_worker_timed_out st now t = true.
Proof. intros H1 H2. apply timed_out_iff. lia. Qed.
Theorem timeout_not_early t st now : now < st + t -> has_worker_timed_out st now t = false.
Proof. intros H. destruct (has_worker_timed_out st now t) eqn:E; [|reflexivity]. apply timed_out_iff in E. lia. Qed.
Theorem idle_never_times_out t now : has_worker_timed_out 0 now t = false.
Proof. reflexivity. Qed.

Example short_calls_example : short_calls 10 false 0 [TStart 5; TCheck 7; TDone 9; TCheck 500; TStart 600; TDone 601; TCheck 100000].
Proof. cbn. repeat split; try lia; try (eexists; split; [reflexivity|lia]). Qed.

(* Proofs/FailProofs.v -- for EVERY interleaving of raising / blocking / dying user functions with the
   results handler, the death watch, the timeout handler and main: the exception the caller gets is
   one that really occurred in this call; once the exception event is set, the stored exception main
   waits for always arrives; and no state is stuck as long as blocking functions have a timeout. *)
From Coq Require Import List Arith Lia Bool String.
From Mpv Require Import GenAsync GenStruct GenObserve OrderHist Apply ApplyProofs Fail.
Import ListNotations.
Close Scope string_scope.
Close Scope Z_scope.
Open Scope nat_scope.

Lemma raise_order_spec : raise_checks_then_sets_then_queues = true. Proof. vm_compute. reflexivity. Qed.
Lemma run_safely_first_spec : run_safely_checks_event_first = true. Proof. vm_compute. reflexivity. Qed.
Lemma broadcast_init_spec : results_handler_broadcasts_init = true. Proof. vm_compute. reflexivity. Qed.
Lemma death_order_spec : death_stores_before_signalling = true. Proof. vm_compute. reflexivity. Qed.
Lemma timeout_order_spec : timeout_signals_kills_then_stores = true. Proof. vm_compute. reflexivity. Qed.
Lemma handle_exception_spec : handle_exception_waits_for_named_job = true. Proof. vm_compute. reflexivity. Qed.
Lemma stored_reset_spec : stored_exceptions_reset_when_workers_start = true. Proof. vm_compute. reflexivity. Qed.
Lemma finit_stale_eq stale scripts : finit_stale stale scripts = finit scripts.
Proof. unfold finit_stale, finit. rewrite stored_reset_spec. reflexivity. Qed.
Lemma reaches_spec : user_exception_reaches_the_handler = true. Proof. vm_compute. reflexivity. Qed.
Lemma snapshot_spec : timeout_scan_uses_a_snapshot = true. Proof. vm_compute. reflexivity. Qed.
Lemma drains_spec : terminate_drains_queues_completely = true. Proof. vm_compute. reflexivity. Qed.
Lemma waits_spec : dispatch_waits_stop_on_exception = true. Proof. vm_compute. reflexivity. Qed.
Ltac ffacts := rewrite ?reaches_spec, ?snapshot_spec, ?drains_spec, ?waits_spec, ?raise_order_spec, ?run_safely_first_spec, ?broadcast_init_spec, ?death_order_spec, ?timeout_order_spec,
  ?handle_exception_spec in *.

Lemma jid_eqb_refl j : jid_eqb j j = true. Proof. destruct j; reflexivity. Qed.
Lemma store_same c j e : store c j e j = Some e. Proof. unfold store. rewrite jid_eqb_refl. reflexivity. Qed.
Lemma store_some c j e k : c k <> None -> store c j e k <> None.
Proof. unfold store. intros H. destruct (jid_eqb k j); [discriminate|]. destruct (_ && _ && _); [discriminate|assumption]. Qed.
Lemma store_in c j e k x : store c j e k = Some x -> x = e \/ c k = Some x.
Proof. unfold store. destruct (jid_eqb k j); [intros H; inversion H; auto|]. destruct (_ && _ && _); [intros H; inversion H; auto|auto]. Qed.

(* the stored exception for job j is on its way *)
Definition delivers (s : fst) (j : jid) : Prop :=
  cexc s j <> None \/ (exists e, In (j, e) (fresq s)) \/ (exists e, In (j, e) (to2 s)) \/
  (exists w x e, nth_error (ws s) w = Some x /\ wpc x = FRaise2 j e).

Definition running_main (m : fmain) : bool := match m with FWait | FHandle _ => true | _ => false end.

Record FI (s : fst) : Prop := {
  (* every exception that is queued, stored, about to be stored or raised by main really occurred *)
  g_resq : forall j e, In (j, e) (fresq s) -> In e (flog s);
  g_to2 : forall j e, In (j, e) (to2 s) -> In e (flog s);
  g_cexc : forall j e, cexc s j = Some e -> In e (flog s);
  g_main : forall e, fmn s = FRaised e -> In e (flog s);
  g_raise : forall w x j e, nth_error (ws s) w = Some x -> (wpc x = FRaise1 j e \/ wpc x = FRaise2 j e) -> In (EUser e) (flog s);
  g_killed : forall w x j r, nth_error (ws s) w = Some x -> wpc x = FKilled j r -> In (EDied w) (flog s);
  (* the event names a job whose exception is on its way; so does main once it waits *)
  d_event : running_main (fmn s) = true -> fexn s = true -> delivers s (fjob s);
  d_main : forall j, fmn s = FHandle j -> delivers s j;
  (* a reported death has set the event *)
  k_rep : forall w x j, nth_error (ws s) w = Some x -> wpc x = FKilled j true -> fexn s = true
}.

Lemma nth_upd_same {A} (l : list A) i x y : nth_error l i = Some y -> nth_error (Apply.upd l i x) i = Some x.
Proof.
  revert i; induction l as [|a l IH]; intros [|i] H; simpl in *; try discriminate; [reflexivity|].
  unfold Apply.upd in *. simpl. apply IH. exact H.
Qed.
Lemma nth_upd_other {A} (l : list A) i j x : i <> j -> nth_error (Apply.upd l i x) j = nth_error l j.
Proof.
  revert i j; induction l as [|a l IH]; intros i j H.
  - unfold Apply.upd. rewrite firstn_nil, skipn_nil. reflexivity.
  - destruct i as [|i], j as [|j]; try congruence; unfold Apply.upd in *; simpl; try reflexivity. apply IH. congruence.
Qed.

Lemma delivers_stable_upd s w x0 x (P : fst -> Prop) j :
  nth_error (ws s) w = Some x0 -> (forall e, wpc x0 <> FRaise2 j e) -> delivers s j ->
  forall s', ws s' = Apply.upd (ws s) w x -> cexc s' = cexc s -> fresq s' = fresq s -> to2 s' = to2 s -> delivers s' j.
Proof.
  intros Hn Hnr [H|[H|[H|(w1 & x1 & e & Hn1 & Hp1)]]] s' Hw Hc Hr Ht; unfold delivers; rewrite Hc, Hr, Ht; auto.
  right; right; right. exists w1, x1, e. split; [|assumption]. rewrite Hw.
  destruct (Nat.eq_dec w w1) as [->|Hne]; [rewrite Hn in Hn1; inversion Hn1; subst; exfalso; eapply Hnr; eauto|].
  rewrite nth_upd_other by assumption. assumption.
Qed.

Lemma delivers_mono s s' j :
  delivers s j ->
  (cexc s j <> None -> cexc s' j <> None) ->
  (forall e, In (j, e) (fresq s) -> In (j, e) (fresq s') \/ cexc s' j <> None) ->
  (forall e, In (j, e) (to2 s) -> In (j, e) (to2 s') \/ cexc s' j <> None) ->
  (forall w x e, nth_error (ws s) w = Some x -> wpc x = FRaise2 j e ->
     (exists x', nth_error (ws s') w = Some x' /\ wpc x' = FRaise2 j e) \/ In (j, EUser e) (fresq s')) ->
  delivers s' j.
Proof.
  intros [H|[(e & H)|[(e & H)|(w & x & e & Hn & Hp)]]] Hc Hr Ht Hw; unfold delivers.
  - auto.
  - destruct (Hr _ H); eauto.
  - destruct (Ht _ H); eauto 6.
  - destruct (Hw _ _ _ Hn Hp) as [(x' & Hn' & Hp')|Hin]; eauto 10.
Qed.

Ltac fstep_cases Hs :=
  unfold fstep in Hs; ffacts; cbn [andb] in Hs;
  repeat match type of Hs with
  | match ?a with _ => _ end = Some _ => destruct a eqn:?; try discriminate
  | (if ?b then _ else _) = Some _ => destruct b eqn:?; try discriminate
  end; inversion Hs; subst; clear Hs.

Ltac wsplit Hn w w1 Hn1 :=
  destruct (Nat.eq_dec w w1) as [<-|?Hne];
  [rewrite (nth_upd_same _ _ _ _ Hn) in Hn1; inversion Hn1; subst; clear Hn1; cbn [wpc todo] in *
  |rewrite nth_upd_other in Hn1 by assumption].

Lemma step_FI s a s' : FI s -> fstep s a = Some s' -> FI s'.
Proof.
  intros [Hq Ht Hc Hm Hr Hk De Dm Kr] Hs.
  fstep_cases Hs.
  all: constructor; cbn [ws fexn fjob fresq cexc to2 fmn flog]; unfold setw.
  (* genuineness: unchanged or the log only grew *)
  all: try solve [intros; rewrite ?in_app_iff; eauto].
  all: try solve [intros w0 x0 j0 e0 Hn1 Hp1;
                  match goal with Hn : nth_error (ws _) ?w = Some _ |- _ => wsplit Hn w w0 Hn1 end;
                  rewrite ?in_app_iff; try (destruct Hp1; congruence); eauto].
  all: try solve [intros w0 x0 j0 Hn1 Hp1;
                  match goal with Hn : nth_error (ws _) ?w = Some _ |- _ => wsplit Hn w w0 Hn1 end;
                  try congruence; eauto].
  (* the event is not set *)
  all: try solve [intros; discriminate].
  (* delivery is stable under worker steps that do not leave FRaise2 *)
  all: try solve [
    intros;
    match goal with
    | Hd : ?P -> ?Q -> delivers _ _ |- delivers _ _ => eapply delivers_mono; [apply Hd; assumption|..]
    | Hd : forall j, _ -> delivers _ j |- delivers _ _ => eapply delivers_mono; [apply Hd; eassumption|..]
    end; cbn [ws fexn fjob fresq cexc to2 fmn flog]; auto;
    intros w1 x1 e1 Hn1 Hp1;
    match goal with Hn : nth_error (ws _) ?w = Some _ |- _ =>
      destruct (Nat.eq_dec w w1) as [<-|?Hne]; [rewrite Hn in Hn1; inversion Hn1; subst; congruence|
      left; exists x1; rewrite nth_upd_other by assumption; auto] end ].
  all: try solve [intros w0 x0 j0 r0 Hn1 Hp1;
                  match goal with Hn : nth_error (ws _) ?w = Some _ |- _ => wsplit Hn w w0 Hn1 end;
                  rewrite ?in_app_iff; try congruence; eauto].
  all: try match goal with H : fresq _ = _ :: _ |- _ => rewrite H in * end.
  all: try match goal with H : to2 _ = _ :: _ |- _ => rewrite H in * end.
  (* g_raise *)
  all: try solve [
    intros w0 x0 j0 e0 Hn1 Hp1; match goal with Hn : nth_error (ws _) ?w = Some _ |- _ => wsplit Hn w w0 Hn1 end;
    rewrite ?in_app_iff;
    [destruct Hp1 as [Hp1|Hp1]; inversion Hp1; subst; first [right; left; reflexivity | eapply Hr; [eassumption|eauto]] | eauto] ].
  (* queues: push / pop, stores *)
  all: try solve [
    intros j0 e0 Hin; apply in_app_iff in Hin; rewrite ?in_app_iff; destruct Hin as [Hin|[Hin|[]]];
    [eauto | inversion Hin; subst; first [right; left; reflexivity | eapply Hr; [eassumption|right; eassumption]]] ].
  all: try solve [intros j0 e0 Hin; first [eapply Hq | eapply Ht]; right; eassumption].
  all: try solve [
    intros j0 e0 Hst; apply store_in in Hst; destruct Hst as [->|Hst];
    [first [eapply Hq; left; reflexivity | eapply Ht; left; reflexivity | eapply Hk; eassumption] | eauto] ].
  (* the event has just been set: its job's exception is on its way *)
  all: try solve [intros _ _; right; right; right; do 3 eexists; split; [eapply nth_upd_same; eassumption|reflexivity]].
  all: try solve [intros _ _; left; rewrite store_same; discriminate].
  all: try solve [intros _ _; right; right; left; eexists; apply in_app_iff; right; left; reflexivity].
  all: try solve [intros j0 e0 Hin; solve [eapply Hq; right; eassumption | eapply Ht; right; eassumption]].
  (* terminate: every worker is gone *)
  all: try solve [intros w x j0 e0 Hn1 Hp1; rewrite nth_error_map in Hn1; destruct (nth_error (ws s) w); inversion Hn1; subst;
                  cbn in Hp1; try destruct Hp1; discriminate].
  all: try solve [intros w x j0 Hn1 Hp1; rewrite nth_error_map in Hn1; destruct (nth_error (ws s) w); inversion Hn1; subst;
                  cbn in Hp1; discriminate].
  (* delivery through the remaining steps *)
  all: try solve [
    intros;
    match goal with
    | Hd : ?P -> ?Q -> delivers _ _ |- delivers _ _ => eapply delivers_mono; [apply Hd; assumption|..]
    | Hd : forall j, _ -> delivers _ j |- delivers _ _ => eapply delivers_mono; [apply Hd; eassumption|..]
    end; cbn [ws fexn fjob fresq cexc to2 fmn flog]; auto using store_some;
    [ intros e1 Hin; rewrite ?in_app_iff; auto;
      try (destruct Hin as [Hin|Hin]; [inversion Hin; subst; right; rewrite store_same; discriminate | left; assumption])
    ..
    | intros w1 x1 e1 Hn1 Hp1;
      try (left; exists x1; split; assumption);
      match goal with Hn : nth_error (ws _) ?w = Some _ |- _ =>
        destruct (Nat.eq_dec w w1) as [<-|?Hne];
        [rewrite Hn in Hn1; inversion Hn1; subst; first [congruence | right; apply in_app_iff; right; left; congruence]
        |left; exists x1; rewrite nth_upd_other by assumption; auto] end ] ].
  all: try solve [intros w x j0 r0 Hn1 Hp1; rewrite nth_error_map in Hn1; destruct (nth_error (ws s) w); inversion Hn1; subst;
                  cbn in Hp1; discriminate].
  all: try solve [intros e0 He; inversion He; subst; eapply Hc; eassumption].
  all: try solve [intros j0 Hj; inversion Hj; subst;
                  match goal with Hw : fmn _ = FWait |- _ => eapply delivers_mono; [apply De; [rewrite Hw; reflexivity|assumption]|..] end;
                  cbn [ws fexn fjob fresq cexc to2 fmn flog]; eauto].
  all: try solve [intros _ _; left; rewrite store_same; discriminate].
  all: try solve [intros _ _; left; cbn [cexc]; rewrite store_same; discriminate].
  - (* a killed worker's death is in the log *)
    intros w0 x0 j0 r0 Hn1 Hp1. wsplit Heqo w w0 Hn1; rewrite in_app_iff; [right; left; reflexivity|left; eauto].
  - intros Hrm He. specialize (De Hrm He). eapply delivers_mono; [exact De|..]; cbn [ws fexn fjob fresq cexc to2 fmn flog]; eauto using store_some.
    intros e1 Hin; match goal with H : _ = _ :: _ |- _ => rewrite H in Hin end;
    destruct Hin as [Hin|Hin]; [inversion Hin; subst; right; rewrite store_same; discriminate|left; assumption].
  - intros j0 Hj. specialize (Dm _ Hj). eapply delivers_mono; [exact Dm|..]; cbn [ws fexn fjob fresq cexc to2 fmn flog]; eauto using store_some.
    intros e1 Hin; match goal with H : _ = _ :: _ |- _ => rewrite H in Hin end;
    destruct Hin as [Hin|Hin]; [inversion Hin; subst; right; rewrite store_same; discriminate|left; assumption].
  - intros Hrm He. specialize (De Hrm He). eapply delivers_mono; [exact De|..]; cbn [ws fexn fjob fresq cexc to2 fmn flog]; eauto using store_some.
    intros e1 Hin; match goal with H : _ = _ :: _ |- _ => rewrite H in Hin end;
    destruct Hin as [Hin|Hin]; [inversion Hin; subst; right; rewrite store_same; discriminate|left; assumption].
  - intros j0 Hj. specialize (Dm _ Hj). eapply delivers_mono; [exact Dm|..]; cbn [ws fexn fjob fresq cexc to2 fmn flog]; eauto using store_some.
    intros e1 Hin; match goal with H : _ = _ :: _ |- _ => rewrite H in Hin end;
    destruct Hin as [Hin|Hin]; [inversion Hin; subst; right; rewrite store_same; discriminate|left; assumption].
  - intros j0 Hj. inversion Hj; subst.
    assert (Hd : delivers s (fjob s)).
    { apply De; reflexivity. }
    eapply delivers_mono; [exact Hd|..]; cbn [ws fexn fjob fresq cexc to2 fmn flog]; eauto.
Qed.

(* ---- lifting, and what the caller gets ---- *)
Lemma frun_invariant (P : fst -> Prop) : (forall s a s', P s -> fstep s a = Some s' -> P s') ->
  forall l s, P s -> P (frun s l).
Proof.
  intros Hstep. induction l as [|a r IH]; intros s Hp; cbn [frun]; [assumption|].
  destruct (fstep s a) eqn:Hs; [apply IH; eapply Hstep; eauto|apply IH; assumption].
Qed.

Lemma init_FI scripts : FI (finit scripts).
Proof.
  constructor; cbn; try (intros; contradiction); try discriminate.
  - intros w x j e Hn [Hp|Hp]; rewrite nth_error_map in Hn; destruct (nth_error scripts w); inversion Hn; subst; discriminate.
  - intros w x j r Hn Hp; rewrite nth_error_map in Hn; destruct (nth_error scripts w); inversion Hn; subst; discriminate.
  - intros w x j Hn Hp; rewrite nth_error_map in Hn; destruct (nth_error scripts w); inversion Hn; subst; discriminate.
Qed.

Lemma reach_FI scripts sched : FI (frun (finit scripts) sched).
Proof. apply frun_invariant; [intros; eapply step_FI; eauto|apply init_FI]. Qed.

(* the log is sound: everything in it was done by a user function of THIS call *)
Definition script (scripts : list (list (jid * uout))) (w : nat) := nth w scripts [].
Record FS (scripts : list (list (jid * uout))) (s : fst) : Prop := {
  s_todo : forall w x, nth_error (ws s) w = Some x ->
     (forall jo, In jo (todo x) -> In jo (script scripts w)) /\
     (forall j o, wpc x = FUser j o -> In (j, o) (script scripts w));
  s_user : forall e, In (EUser e) (flog s) -> exists w j, In (j, URaise e) (script scripts w);
  s_died : forall w, In (EDied w) (flog s) -> exists j, In (j, UDie) (script scripts w);
  s_tout : forall w, In (ETimeout w) (flog s) -> exists j, In (j, UBlock true) (script scripts w)
}.

Lemma step_FS scripts s a s' : FS scripts s -> fstep s a = Some s' -> FS scripts s'.
Proof.
  intros [Ht Hu Hd Ho] Hs.
  fstep_cases Hs.
  all: constructor; cbn [ws fexn fjob fresq cexc to2 fmn flog]; unfold setw; try assumption.
  all: try solve [intros w0 x0 Hn1;
                  match goal with Hn : nth_error (ws _) ?w = Some _ |- _ => wsplit Hn w w0 Hn1; [destruct (Ht _ _ Hn) as [Ha Hb]|auto] end;
                  split; [intros jo Hin; try contradiction; apply Ha; try assumption;
                          match goal with H : todo _ = _ :: _ |- _ => rewrite H; right; assumption end
                         |intros j1 o1 Hp1; inversion Hp1; subst; try (apply Ha; match goal with H : todo _ = _ :: _ |- _ => rewrite H; left; reflexivity end)]].
  all: try solve [intros e1 Hin; apply in_app_iff in Hin; destruct Hin as [Hin|[Hin|[]]]; [auto|inversion Hin; subst];
                  match goal with Hn : nth_error (ws _) ?w = Some _ |- _ => destruct (Ht _ _ Hn) as [Ha Hb]; eauto end].
  all: try solve [intros e1 Hin; apply in_app_iff in Hin; destruct Hin as [Hin|[Hin|[]]]; [auto|discriminate]].
  all: try solve [intros w x Hn1; rewrite nth_error_map in Hn1; destruct (nth_error (ws s) w) as [x0|] eqn:Hn0; inversion Hn1; subst;
                  destruct (Ht _ _ Hn0) as [Ha Hb]; split; [exact Ha|intros; discriminate]].
Qed.

Lemma init_FS scripts : FS scripts (finit scripts).
Proof.
  constructor; cbn; try (intros; contradiction).
  intros w x Hn. rewrite nth_error_map in Hn. destruct (nth_error scripts w) as [t|] eqn:Hn0; inversion Hn; subst; cbn.
  split; [|intros; discriminate]. intros jo Hin. unfold script. rewrite (nth_error_nth _ _ _ Hn0). assumption.
Qed.

(* C04 / C07 / C08: whatever main raises really occurred in this call: it is an exception a user
   function of this call raised, or the death of a worker whose function really killed its
   process, or the timeout of a function that really had one -- never something invented. *)
Theorem raised_was_raised scripts sched e :
  fmn (frun (finit scripts) sched) = FRaised e ->
  match e with
  | EUser x => exists w j, In (j, URaise x) (script scripts w)
  | EDied w => exists j, In (j, UDie) (script scripts w)
  | ETimeout w => exists j, In (j, UBlock true) (script scripts w)
  end.
Proof.
  intros Hm.
  pose proof (g_main _ (reach_FI scripts sched) _ Hm) as Hin.
  assert (HS : FS scripts (frun (finit scripts) sched)).
  { apply frun_invariant; [intros; eapply step_FS; eauto|apply init_FS]. }
  destruct e; [apply (s_user _ _ HS)|apply (s_died _ _ HS)|apply (s_tout _ _ HS)]; assumption.
Qed.

(* no failure, no exception: a call in which nothing raises, dies or times out never raises *)
Theorem no_failure_no_exception scripts sched :
  (forall w j o, In (j, o) (script scripts w) -> o = UOk \/ o = UBlock false) ->
  forall e, fmn (frun (finit scripts) sched) <> FRaised e.
Proof.
  intros Hok e Hm. pose proof (raised_was_raised scripts sched e Hm) as H.
  destruct e; [destruct H as (w & j & H)|destruct H as (j & H)|destruct H as (j & H)];
    destruct (Hok _ _ _ H); discriminate.
Qed.

(* ---- progress and termination on the failure path ---- *)
Definition pcw (p : fpc) : nat :=
  match p with FLoop => 1 | FUser _ _ => 4 | FRaise1 _ _ => 3 | FRaise2 _ _ => 2 | FStopped => 0
             | FKilled _ false => 2 | FKilled _ true => 1 end.
Definition ww (x : fworker) : nat := 4 * List.length (todo x) + pcw (wpc x).
Definition mw (m : fmain) : nat := match m with FWait => 2 | FHandle _ => 1 | _ => 0 end.
Definition FM (s : fst) : nat := list_sum (map ww (ws s)) + List.length (fresq s) + List.length (to2 s) + mw (fmn s).

Lemma ww_eq x : ww x = 4 * List.length (todo x) + pcw (wpc x). Proof. reflexivity. Qed.
Arguments ww : simpl never.
Lemma sum_upd (l : list fworker) w x0 x : nth_error l w = Some x0 ->
  list_sum (map ww (Apply.upd l w x)) + ww x0 = list_sum (map ww l) + ww x.
Proof.
  revert w; induction l as [|a l IH]; intros [|w] Hn; simpl in Hn; try discriminate.
  - inversion Hn; subst. unfold Apply.upd. simpl. lia.
  - specialize (IH _ Hn). unfold Apply.upd in *. simpl in *. lia.
Qed.
Lemma sum_stop (l : list fworker) : list_sum (map ww (map (fun x => mkFW FStopped (todo x)) l)) <= list_sum (map ww l).
Proof. induction l as [|a l IH]; simpl; [lia|]. unfold ww at 1 3. simpl. lia. Qed.

Lemma fstep_decreases s a s' : fstep s a = Some s' -> FM s' < FM s.
Proof.
  intros Hs. fstep_cases Hs.
  all: unfold FM; cbn [ws fexn fjob fresq cexc to2 fmn flog mw]; unfold setw; rewrite ?app_length; cbn [List.length].
  all: try match goal with H : fresq _ = _ :: _ |- _ => rewrite H end.
  all: try match goal with H : to2 _ = _ :: _ |- _ => rewrite H end.
  all: try match goal with H : fmn _ = _ |- _ => rewrite H end.
  all: cbn [List.length mw].
  all: try (match goal with Hn : nth_error (ws _) ?w = Some ?f |- context[Apply.upd _ ?w ?x] =>
              pose proof (sum_upd _ _ _ x Hn) as Hsum; rewrite (ww_eq f), (ww_eq x) in Hsum; cbn [wpc todo] in Hsum;
              repeat match goal with H : wpc f = _ |- _ => rewrite H in Hsum end;
              repeat match goal with H : todo f = _ |- _ => rewrite H in Hsum end; cbn [pcw List.length] in Hsum end).
  all: try lia.
  all: pose proof (sum_stop (ws s)); lia.
Qed.

Definition timed_pc (p : fpc) : bool := match p with FUser _ (UBlock false) => false | _ => true end.
Definition timed_todo (t : list (jid * uout)) : bool :=
  forallb (fun jo => match snd jo with UBlock false => false | _ => true end) t.
(* every blocking user function has a time limit (task_timeout / worker_init_timeout / worker_exit_timeout) *)
Definition Timed (s : fst) : Prop :=
  forall w x, nth_error (ws s) w = Some x -> timed_pc (wpc x) = true /\ timed_todo (todo x) = true.

Lemma step_Timed s a s' : Timed s -> fstep s a = Some s' -> Timed s'.
Proof.
  intros HT Hs. fstep_cases Hs.
  all: unfold Timed; cbn [ws]; unfold setw; try assumption.
  all: try (intros w0 x0 Hn1; match goal with Hn : nth_error (ws _) ?w = Some _ |- _ =>
              wsplit Hn w w0 Hn1; [destruct (HT _ _ Hn) as [Ha Hb]|exact (HT _ _ Hn1)] end).
  all: try solve [split; [reflexivity|assumption]].
  all: try solve [split; reflexivity].
  all: try solve [match goal with H : todo _ = _ :: _ |- _ => rewrite H in Hb; cbn in Hb; apply andb_prop in Hb; destruct Hb as [Hb1 Hb2] end;
                  split; [|assumption];
                  match goal with |- timed_pc (FUser _ ?o) = true => destruct o as [| |[|]|]; try reflexivity; discriminate end].
  intros w9 x9 Hn1; rewrite nth_error_map in Hn1; destruct (nth_error (ws s) w9) as [x0|] eqn:Hn0; inversion Hn1; subst.
  destruct (HT _ _ Hn0). split; [reflexivity|assumption].
Qed.

Lemma forallb_false_nth {A} (f : A -> bool) l : forallb f l = false -> exists w x, nth_error l w = Some x /\ f x = false.
Proof.
  induction l as [|a l IH]; cbn; [discriminate|]. destruct (f a) eqn:Hf; cbn.
  - intros H. destruct (IH H) as (w & x & Hn & Hx). exists (S w), x. auto.
  - intros _. exists 0, a. auto.
Qed.

Ltac enabled a := exists a; unfold fstep; ffacts; cbn [andb];
  repeat match goal with H : _ = _ |- _ => rewrite H end; cbn [negb]; try discriminate.

(* C03 on the failure path: while main has neither returned nor raised, some actor can move *)
Lemma fail_progress s : FI s -> Timed s -> running_main (fmn s) = true -> exists a, fstep s a <> None.
Proof.
  intros HI HT Hrm. destruct (fmn s) as [|j|e|] eqn:Hm; try discriminate.
  - destruct (fexn s) eqn:He; [enabled LMain|].
    destruct (forallb (fun x => match wpc x with FStopped => true | _ => false end) (ws s)) eqn:Hall; [enabled LMain|].
    apply forallb_false_nth in Hall. destruct Hall as (w & x & Hn & Hx).
    destruct (wpc x) as [|j o|j e|j e| |j r] eqn:Hp; try discriminate.
    + exists (LW w). unfold fstep. ffacts. rewrite Hn, Hp, He. cbn [andb]. destruct (todo x) as [|[j o] r]; discriminate.
    + destruct o as [|e|[|]|].
      * enabled (LW w).
      * enabled (LW w).
      * enabled (LTo1 w).
      * destruct (HT _ _ Hn) as [Ha _]. rewrite Hp in Ha. discriminate.
      * enabled (LW w).
    + enabled (LW w).
    + enabled (LW w).
    + destruct r; [rewrite (k_rep _ HI _ _ _ Hn Hp) in He; discriminate|enabled (LDeath w)].
  - destruct (d_main _ HI _ Hm) as [Hc|[(e & Hin)|[(e & Hin)|(w & x & e & Hn & Hp)]]].
    + destruct (cexc s j) eqn:Hcj; [|congruence]. enabled LMain.
    + exists LRes. unfold fstep. destruct (fresq s) as [|[j0 e0] r]; [destruct Hin|discriminate].
    + exists LTo2. unfold fstep. destruct (to2 s) as [|[j0 e0] r]; [destruct Hin|discriminate].
    + enabled (LW w).
Qed.

Record FReach (s : fst) : Prop := { fr_i : FI s; fr_t : Timed s }.
Lemma FReach_step s a s' : FReach s -> fstep s a = Some s' -> FReach s'.
Proof. intros [H1 H2] Hs. constructor; [eapply step_FI; eauto|eapply step_Timed; eauto]. Qed.

Lemma frun_le : forall sched s, FReach s -> FM (frun s sched) <= FM s /\ FReach (frun s sched).
Proof.
  induction sched as [|a r IH]; intros s HR; cbn [frun]; [split; [lia|assumption]|].
  destruct (fstep s a) as [s'|] eqn:Hs; [|apply IH; assumption].
  pose proof (fstep_decreases s a s' Hs). destruct (IH s' (FReach_step _ _ _ HR Hs)). split; [lia|assumption].
Qed.
Lemma fsegment_progress : forall seg s a, FReach s -> In a seg -> fstep s a <> None -> FM (frun s seg) < FM s.
Proof.
  induction seg as [|b r IH]; intros s a HR Hin Hen; [destruct Hin|].
  cbn [frun]. destruct (fstep s b) as [s'|] eqn:Hs.
  - pose proof (fstep_decreases s b s' Hs). destruct (frun_le r s' (FReach_step _ _ _ HR Hs)). lia.
  - destruct Hin as [->|Hin]; [congruence|]. eapply IH; eauto.
Qed.
Lemma fmain_final_stable : forall sched s, running_main (fmn s) = false -> fmn (frun s sched) = fmn s.
Proof.
  induction sched as [|a r IH]; intros s Hd; cbn [frun]; [reflexivity|].
  destruct (fstep s a) as [s'|] eqn:Hs; [|apply IH; assumption].
  assert (E : fmn s' = fmn s).
  { fstep_cases Hs; cbn [fmn]; try reflexivity;
    match goal with H : fmn s = _ |- _ => rewrite H in Hd; discriminate end. }
  rewrite <- E. apply IH. rewrite E. assumption.
Qed.
Lemma frun_app : forall l1 l2 s, frun s (l1 ++ l2) = frun (frun s l1) l2.
Proof. induction l1 as [|a r IH]; intros l2 s; cbn [app frun]; [reflexivity|]. destruct (fstep s a); apply IH. Qed.

Definition fround (n : nat) : list flabel :=
  LMain :: LRes :: LTo2 :: flat_map (fun w => [LW w; LDeath w; LTo1 w]) (seq 0 n).
Fixpoint frr (n k : nat) : list flabel := match k with 0 => [] | S k => fround n ++ frr n k end.

Lemma aupd_length {A} (l : list A) i x : List.length (Apply.upd l i x) = List.length l.
Proof.
  revert i; induction l as [|a l IH]; intros i.
  - unfold Apply.upd. rewrite firstn_nil, skipn_nil. reflexivity.
  - destruct i as [|i]; [reflexivity|]. specialize (IH i). unfold Apply.upd in *. simpl. rewrite IH. reflexivity.
Qed.
Lemma ws_length_step s a s' : fstep s a = Some s' -> List.length (ws s') = List.length (ws s).
Proof. intros Hs. fstep_cases Hs; cbn [ws]; unfold setw; rewrite ?aupd_length, ?map_length; reflexivity. Qed.

Lemma fenabled_in_round s a : fstep s a <> None -> In a (fround (List.length (ws s))).
Proof.
  intros Hen. unfold fround.
  assert (Hw : forall w, nth_error (ws s) w <> None -> In w (seq 0 (List.length (ws s)))).
  { intros w Hn. apply in_seq. split; [lia|]. cbn. apply nth_error_Some. assumption. }
  destruct a as [w| |w|w| |].
  - right; right; right. apply in_flat_map. exists w. split; [|left; reflexivity].
    apply Hw. intros E. unfold fstep in Hen. rewrite E in Hen. congruence.
  - right; left; reflexivity.
  - right; right; right. apply in_flat_map. exists w. split; [|right; left; reflexivity].
    apply Hw. intros E. unfold fstep in Hen. rewrite E in Hen. congruence.
  - right; right; right. apply in_flat_map. exists w. split; [|right; right; left; reflexivity].
    apply Hw. intros E. unfold fstep in Hen. rewrite E in Hen. congruence.
  - right; right; left; reflexivity.
  - left; reflexivity.
Qed.

Lemma frun_length : forall l s, List.length (ws (frun s l)) = List.length (ws s).
Proof.
  induction l as [|a r IH]; intros s; cbn [frun]; [reflexivity|].
  destruct (fstep s a) eqn:Hs; [rewrite IH; eapply ws_length_step; eauto|apply IH].
Qed.

Lemma frr_done : forall k s, FReach s ->
  running_main (fmn (frun s (frr (List.length (ws s)) k))) = false \/ FM (frun s (frr (List.length (ws s)) k)) + k <= FM s.
Proof.
  induction k as [|k IH]; intros s HR.
  - right. cbn. lia.
  - cbn [frr]. rewrite frun_app. destruct (running_main (fmn s)) eqn:Hrm.
    + destruct (fail_progress s (fr_i _ HR) (fr_t _ HR) Hrm) as [a Ha].
      pose proof (fsegment_progress _ s a HR (fenabled_in_round s a Ha) Ha) as Hlt.
      destruct (frun_le (fround (List.length (ws s))) s HR) as [_ HR1].
      specialize (IH _ HR1). rewrite frun_length in IH. destruct IH as [Hd|Hle]; [left; assumption|right; lia].
    + left. rewrite fmain_final_stable; rewrite fmain_final_stable; assumption.
Qed.

Lemma init_Timed scripts : Forall (fun t => timed_todo t = true) scripts -> Timed (finit scripts).
Proof.
  intros HF w x Hn. cbn in Hn. rewrite nth_error_map in Hn. destruct (nth_error scripts w) as [t|] eqn:Hn0; inversion Hn; subst; cbn.
  split; [reflexivity|]. rewrite Forall_forall in HF. apply HF. eapply nth_error_In; eauto.
Qed.

(* C03/C04/C07/C08: whatever the user functions do -- return, raise, die, overrun their time limit --
   a fair schedule ends with main having returned or raised: a failing call never hangs. *)
Theorem failing_call_terminates scripts :
  Forall (fun t => timed_todo t = true) scripts ->
  running_main (fmn (frun (finit scripts) (frr (List.length scripts) (S (FM (finit scripts)))))) = false.
Proof.
  intros HT.
  assert (HR : FReach (finit scripts)) by (constructor; [apply init_FI|apply init_Timed; assumption]).
  pose proof (frr_done (S (FM (finit scripts))) (finit scripts) HR) as H.
  cbn [finit ws] in H. rewrite map_length in H. destruct H as [H|H]; [exact H|lia].
Qed.

(* and every schedule performs at most FM(init) steps *)
Fixpoint fnsteps (s : fst) (l : list flabel) : nat :=
  match l with [] => 0 | a :: r => match fstep s a with Some s' => S (fnsteps s' r) | None => fnsteps s r end end.
Theorem failing_call_bounded scripts sched : fnsteps (finit scripts) sched <= FM (finit scripts).
Proof.
  generalize (finit scripts). induction sched as [|a r IH]; intros s; cbn [fnsteps]; [lia|].
  destruct (fstep s a) as [s'|] eqn:Hs; [|apply IH]. pose proof (fstep_decreases _ _ _ Hs). specialize (IH s'). lia.
Qed.

(* a failure is never swallowed: once a user function raised, died or timed out, main cannot
   return normally any more *)
Definition failing_pc (p : fpc) : Prop := match p with FRaise1 _ _ | FKilled _ _ => True | _ => False end.
Record NS (s : fst) : Prop := {
  ns_main : (match fmn s with FHandle _ | FRaised _ => True | _ => False end) -> fexn s = true;
  ns_done : flog s <> [] -> fmn s <> FDone;
  ns_all : fmn s = FDone -> forall w x, nth_error (ws s) w = Some x -> wpc x = FStopped;
  ns_pend : flog s <> [] -> fexn s = true \/ exists w x, nth_error (ws s) w = Some x /\ failing_pc (wpc x)
}.
Lemma app_not_nil {A} (l : list A) x : l ++ [x] <> [].
Proof. destruct l; discriminate. Qed.

Lemma forallb_nth {A} (f : A -> bool) l w x : forallb f l = true -> nth_error l w = Some x -> f x = true.
Proof. intros H Hn. rewrite forallb_forall in H. apply H. eapply nth_error_In; eauto. Qed.

Lemma step_NS s a s' : NS s -> fstep s a = Some s' -> NS s'.
Proof.
  intros [Hm Hd Ha Hp] Hs. fstep_cases Hs.
  all: constructor; cbn [ws fexn fjob fresq cexc to2 fmn flog]; unfold setw; try assumption; auto.
  all: try solve [intros _; left; reflexivity].
  all: try solve [intros _; right; do 2 eexists; split; [eapply nth_upd_same; eassumption|exact I]].
  all: try solve [intros Hl; apply Hd; intros E; rewrite E in Hl; auto using app_not_nil].
  all: try solve [intros _ E; apply (Hd ltac:(auto using app_not_nil)) in E; assumption].
  all: try solve [intros _; apply Hd; auto using app_not_nil].
  all: try solve [
    intros Hl; destruct (Hp Hl) as [He|(w1 & x1 & Hn1 & Hf1)]; [left; assumption|];
    match goal with Hn : nth_error (ws _) ?w = Some _ |- _ =>
      destruct (Nat.eq_dec w w1) as [<-|?Hne];
      [rewrite Hn in Hn1; inversion Hn1; subst;
       match goal with H : wpc _ = _ |- _ => rewrite H in Hf1; try contradiction end
      |right; exists w1, x1; rewrite nth_upd_other by assumption; auto] end ].
  all: try solve [intros E w1 x1 Hn1; specialize (Ha E);
                  match goal with Hn : nth_error (ws _) ?w = Some _ |- _ =>
                    pose proof (Ha _ _ Hn) as Hst; wsplit Hn w w1 Hn1; [congruence|eauto] end].
  all: try solve [intros _ E; match goal with Hn : nth_error (ws _) ?w = Some _ |- _ => pose proof (Ha E _ _ Hn); congruence end].
  all: try solve [intros; discriminate].
  - intros _. left. match goal with H : negb (fexn s) = false |- _ => apply negb_false_iff in H; exact H end.
  - intros Hl E. destruct (Hp Hl) as [He|(w1 & x1 & Hn1 & Hf1)]; [congruence|].
    match goal with H : forallb _ (ws s) = true |- _ => pose proof (forallb_nth _ _ _ _ H Hn1) as Hst end.
    cbn in Hst. destruct (wpc x1); try discriminate; contradiction.
  - intros _ w1 x1 Hn1.
    match goal with H : forallb _ (ws s) = true |- _ => pose proof (forallb_nth _ _ _ _ H Hn1) as Hst end.
    cbn in Hst. destruct (wpc x1); try discriminate; reflexivity.
Qed.

Lemma init_NS scripts : NS (finit scripts).
Proof. constructor; cbn; try contradiction; try discriminate. Qed.

Theorem failure_is_not_swallowed scripts sched :
  flog (frun (finit scripts) sched) <> [] -> fmn (frun (finit scripts) sched) <> FDone.
Proof.
  apply ns_done. apply frun_invariant; [intros; eapply step_NS; eauto|apply init_NS].
Qed.

(* together: a call in which some user function failed ends -- in every fair schedule -- with main
   RAISING, and what it raises is one of the failures that occurred *)
Theorem failing_call_raises scripts :
  Forall (fun t => timed_todo t = true) scripts ->
  let s := frun (finit scripts) (frr (List.length scripts) (S (FM (finit scripts)))) in
  flog s <> [] -> exists e, fmn s = FRaised e /\ In e (flog s).
Proof.
  intros HT s Hl. pose proof (failing_call_terminates scripts HT) as Hend. fold s in Hend.
  pose proof (failure_is_not_swallowed scripts _ Hl) as Hnd. fold s in Hnd.
  destruct (fmn s) as [|j|e|] eqn:Hm; try discriminate; [|congruence].
  exists e. split; [reflexivity|]. apply (g_main _ (reach_FI scripts _)). exact Hm.
Qed.

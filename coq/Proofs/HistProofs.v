(* Proofs/HistProofs.v -- for EVERY history of calls, setters and shutdowns on one pool: each
   completed call ran with its own function, ordering mode, lifespan, timeout and with the pool's
   current extras; workers are reused exactly when they are alive and the settings did not change;
   after a failed call the pool is indistinguishable from a fresh one. *)
From Coq Require Import List Arith Lia Bool String.
From Mpv Require Import GenStruct GenParams OrderHist Hist.
Import ListNotations.
Close Scope Z_scope.
Open Scope nat_scope.

(* Spec lemmas: what the current source does; each is the first thing to break when it stops *)
Lemma setters_reset_comms_spec : setters_reset_comms = true. Proof. vm_compute. reflexivity. Qed.
Lemma changed_settings_restart_spec : changed_settings_restart = true. Proof. vm_compute. reflexivity. Qed.
Lemma new_params_shipped_spec : new_params_shipped = true. Proof. vm_compute. reflexivity. Qed.
Lemma fresh_workers_when_none_spec : fresh_workers_when_none = true. Proof. vm_compute. reflexivity. Qed.
Lemma helper_chosen_per_chunk_spec : helper_chosen_per_chunk = true. Proof. vm_compute. reflexivity. Qed.
Lemma lifespan_read_from_current_params_spec : lifespan_read_from_current_params = true. Proof. vm_compute. reflexivity. Qed.
Lemma ordered_calls_set_and_clear_flag_spec : ordered_calls_set_and_clear_flag = true. Proof. vm_compute. reflexivity. Qed.
Lemma failure_terminates_and_clears_spec : failure_terminates_and_clears = true. Proof. vm_compute. reflexivity. Qed.
Lemma cut_short_terminates_spec : cut_short_terminates = true. Proof. vm_compute. reflexivity. Qed.
Lemma start_workers_resets_spec : start_workers_resets = true. Proof. vm_compute. reflexivity. Qed.
Lemma apply_params_spec : apply_sets_params_only_when_starting = true. Proof. vm_compute. reflexivity. Qed.
Lemma apply_mode_spec : apply_mode_reset_per_task = true. Proof. vm_compute. reflexivity. Qed.
Lemma apply_cleanup_spec : apply_phase_failure_cleaned_up = true. Proof. vm_compute. reflexivity. Qed.
Lemma idle_death_spec : idle_death_reported_once = true. Proof. vm_compute. reflexivity. Qed.
Lemma eq_compares_all_fields_spec : eq_compares_all_fields = true. Proof. vm_compute. reflexivity. Qed.

Ltac facts := rewrite ?setters_reset_comms_spec, ?changed_settings_restart_spec, ?new_params_shipped_spec,
  ?fresh_workers_when_none_spec, ?helper_chosen_per_chunk_spec, ?lifespan_read_from_current_params_spec,
  ?ordered_calls_set_and_clear_flag_spec, ?failure_terminates_and_clears_spec, ?cut_short_terminates_spec, ?start_workers_resets_spec, ?idle_death_spec, ?apply_mode_spec, ?apply_params_spec, ?apply_cleanup_spec in *.

Lemma opt_eqb_eq a b : opt_eqb a b = true -> a = b.
Proof. destruct a, b; cbn; intros H; try discriminate; try reflexivity. apply Nat.eqb_eq in H. congruence. Qed.

Lemma mp_eqb_eq a b : mp_eqb a b = true -> a = b.
Proof.
  unfold mp_eqb. rewrite eq_compares_all_fields_spec. destruct a, b; cbn. intros H.
  repeat (apply andb_true_iff in H; destruct H as [H ?]).
  repeat match goal with
  | H : (_ =? _) = true |- _ => apply Nat.eqb_eq in H
  | H : opt_eqb _ _ = true |- _ => apply opt_eqb_eq in H
  | H : Bool.eqb _ _ = true |- _ => apply Bool.eqb_prop in H end.
  congruence.
Qed.

Definition HI (s : hst) : Prop :=
  (stale_err s = true -> alive s = false) /\
  keep_order s = false /\
  (alive s = true -> initialized s = true -> w_layout s = p_layout s) /\
  (alive s = true -> p_params s = Some (w_params s)).

Definition good_obs (ob : obs) : Prop :=
  o_func ob = mp_func (o_want ob) /\ o_ordered ob = o_want_ordered ob /\ o_life ob = mp_life (o_want ob) /\
  o_tt ob = mp_tt (o_want ob) /\ o_layout ob = o_want_layout ob.

Lemma hstep_HI s o : HI s -> HI (fst (hstep s o)) /\
  match snd (hstep s o) with
  | Some ob => good_obs ob /\ o_reused ob = alive s && initialized s /\
               o_gen ob = (if alive s && initialized s then gen s else S (gen s))
  | None => True end.
Proof.
  intros (Hst & Hk & Hl & Hp). destruct o as [ordered mp out|l|b| | |amp|amp]; cbn [hstep fst snd]; unfold happly; facts.
  - (* a call *)
    assert (Hns : alive s = true -> stale_err s = false).
    { intros Ha. destruct (stale_err s) eqn:E; [rewrite (Hst eq_refl) in Ha; discriminate|reflexivity]. }
    destruct (alive s) eqn:Ha, (initialized s) eqn:Hi; cbn [andb negb].
    + (* alive, initialised: reuse; ship parameters when they differ *)
      specialize (Hl eq_refl eq_refl). specialize (Hp eq_refl). rewrite Hp. rewrite (Hns eq_refl).
      destruct (mp_eqb (w_params s) mp) eqn:He; cbn [negb andb].
      * apply mp_eqb_eq in He. subst mp.
        destruct out; cbn; unfold HI, good_obs; cbn; rewrite ?andb_true_r;
          repeat split; auto; try discriminate; try congruence; try (destruct ordered; cbn; auto; rewrite ?Hk; auto; fail);
          try (intros; discriminate).
      * destruct out; cbn; unfold HI, good_obs; cbn;
          repeat split; auto; try discriminate; try congruence; try (destruct ordered; cbn; auto; rewrite ?Hk; auto; fail);
          try (intros; discriminate).
    + (* alive but the settings changed: restart with the pool's current settings *)
      destruct out; cbn; unfold HI, good_obs; cbn;
        repeat split; auto; try discriminate; try congruence; try (destruct ordered; cbn; auto; rewrite ?Hk; auto; fail);
        try (intros; discriminate).
    + destruct out; cbn; unfold HI, good_obs; cbn;
        repeat split; auto; try discriminate; try congruence; try (destruct ordered; cbn; auto; rewrite ?Hk; auto; fail);
        try (intros; discriminate).
    + destruct out; cbn; unfold HI, good_obs; cbn;
        repeat split; auto; try discriminate; try congruence; try (destruct ordered; cbn; auto; rewrite ?Hk; auto; fail);
        try (intros; discriminate).
  - (* a setter of the extras *)
    split; [|exact I]. unfold HI; cbn. repeat split; auto.
    intros Ha Hi'. destruct (layout_eqb l (p_layout s)) eqn:E; cbn in Hi'; [|discriminate].
    rewrite (Hl Ha Hi'). destruct l as [[a b] c], (p_layout s) as [[a' b'] c']. cbn in E.
    repeat (apply andb_true_iff in E; destruct E as [E ?]).
    repeat match goal with
    | H : (_ =? _) = true |- _ => apply Nat.eqb_eq in H
    | H : Bool.eqb _ _ = true |- _ => apply Bool.eqb_prop in H end.
    congruence.
  - split; [|exact I]. unfold HI; cbn. repeat split; auto.
  - split; [|exact I]. unfold HI; cbn. repeat split; auto; intros; discriminate.
  - split; [|exact I]. unfold HI; cbn. repeat split; auto; intros; discriminate.
  - (* apply_async: running workers and the pool-side copy stay in step; otherwise fresh workers with its parameters *)
    rewrite ?apply_params_spec. destruct (alive s) eqn:Ha; cbn [fst snd]; (split; [|exact I]); unfold HI; cbn [alive gen w_layout w_params w_ordered initialized keep_order p_layout p_keep_alive p_params stale_err].
    + repeat split; auto; intros; try discriminate; try (rewrite Ha in *; discriminate).
    + repeat split; auto; intros; discriminate.
  - (* the apply phase fails pool-wide: the stored error comes with no live workers for the next call *)
    split; [|exact I]. destruct (alive s) eqn:Ha; unfold HI; cbn [alive gen w_layout w_params w_ordered initialized keep_order p_layout p_keep_alive p_params stale_err];
      repeat split; auto; intros; discriminate.
Qed.

Lemma hinit_HI l k : HI (hinit l k).
Proof. unfold HI, hinit; cbn. repeat split; auto; intros; discriminate. Qed.

Lemma hrun_good : forall h s, HI s -> Forall good_obs (hrun s h).
Proof.
  induction h as [|o r IH]; intros s HIs; cbn [hrun]; [constructor|].
  destruct (hstep_HI s o HIs) as [H1 H2]. destruct (hstep s o) as [s' ob]. cbn [fst snd] in *.
  destruct ob as [ob|]; cbn [app]; [constructor; [apply H2|apply IH; assumption]|apply IH; assumption].
Qed.

(* C10 (1): every completed call of every history ran with ITS OWN function, ordering mode,
   lifespan and task timeout, and with the extras the pool is currently configured for *)
Theorem call_uses_own_params l k h : Forall good_obs (hrun (hinit l k) h).
Proof. apply hrun_good. apply hinit_HI. Qed.

Lemma hstate_HI : forall h s, HI s -> HI (hstate s h).
Proof.
  induction h as [|o r IH]; intros s HIs; cbn [hstate]; [assumption|].
  apply IH. apply (hstep_HI s o HIs).
Qed.

(* C10 (2): after any history, a completed call reuses the live workers (same generation) iff
   workers are alive and no setting changed since they were started; otherwise it gets a fresh
   generation *)
Theorem reuse_or_fresh l k h ordered mp s' ob :
  let s := hstate (hinit l k) h in
  hstep s (HCall ordered mp Ok) = (s', Some ob) ->
  o_reused ob = alive s && initialized s /\
  o_gen ob = (if alive s && initialized s then gen s else S (gen s)).
Proof.
  intros s Hs. pose proof (hstep_HI s (HCall ordered mp Ok) (hstate_HI h _ (hinit_HI l k))) as [_ H].
  rewrite Hs in H. cbn [snd] in H. tauto.
Qed.

(* consecutive completed calls with keep_alive on and no setter in between: same workers *)
Theorem keepalive_reuses s o1 m1 o2 m2 :
  HI s -> p_keep_alive s = true ->
  let s1 := fst (hstep s (HCall o1 m1 Ok)) in
  match snd (hstep s1 (HCall o2 m2 Ok)) with
  | Some ob => o_reused ob = true /\ o_gen ob = gen s1
  | None => False end.
Proof.
  intros HIs Hk s1.
  assert (Ha : alive s1 = true /\ initialized s1 = true).
  { unfold s1. cbn [hstep fst]. facts. rewrite Hk.
    destruct (alive s), (initialized s); cbn; destruct (p_params s); try destruct (mp_eqb _ _); cbn; auto. }
  destruct Ha as [Ha Hi].
  pose proof (hstep_HI s1 (HCall o2 m2 Ok) (proj1 (hstep_HI s (HCall o1 m1 Ok) HIs))) as [_ H].
  destruct (snd (hstep s1 (HCall o2 m2 Ok))) as [ob|] eqn:E.
  - destruct H as (_ & Hr & Hg). rewrite Ha, Hi in *. cbn in *. split; assumption.
  - cbn [hstep snd] in E. discriminate.
Qed.

(* without keep_alive every completed call leaves no workers: the next call starts fresh ones *)
Theorem no_keepalive_fresh s o1 m1 o2 m2 :
  HI s -> p_keep_alive s = false ->
  let s1 := fst (hstep s (HCall o1 m1 Ok)) in
  match snd (hstep s1 (HCall o2 m2 Ok)) with
  | Some ob => o_reused ob = false /\ o_gen ob = S (gen s1)
  | None => False end.
Proof.
  intros HIs Hk s1.
  assert (Ha : alive s1 = false). { unfold s1. cbn [hstep fst]. facts. rewrite Hk. cbn. reflexivity. }
  pose proof (hstep_HI s1 (HCall o2 m2 Ok) (proj1 (hstep_HI s (HCall o1 m1 Ok) HIs))) as [_ H].
  destruct (snd (hstep s1 (HCall o2 m2 Ok))) as [ob|] eqn:E.
  - destruct H as (_ & Hr & Hg). rewrite Ha in *. cbn in *. split; assumption.
  - cbn [hstep snd] in E. discriminate.
Qed.

(* changing pass_worker_id / shared_objects / use_worker_state takes effect through fresh workers *)
Theorem setter_forces_restart s l o m :
  HI s -> layout_eqb l (p_layout s) = false ->
  let s1 := fst (hstep s (HSetLayout l)) in
  match snd (hstep s1 (HCall o m Ok)) with
  | Some ob => o_reused ob = false /\ o_layout ob = l /\ o_gen ob = S (gen s)
  | None => False end.
Proof.
  intros HIs Hne s1.
  assert (Hi : initialized s1 = false /\ gen s1 = gen s /\ p_layout s1 = l).
  { unfold s1. cbn [hstep fst]. facts. rewrite Hne. cbn. auto. }
  destruct Hi as (Hi & Hg & Hl).
  pose proof (hstep_HI s1 (HCall o m Ok) (proj1 (hstep_HI s (HSetLayout l) HIs))) as [_ H].
  destruct (snd (hstep s1 (HCall o m Ok))) as [ob|] eqn:E.
  - destruct H as ((_ & _ & _ & _ & Hlay) & Hr & Hgen). rewrite Hi, andb_false_r in *.
    repeat split; [assumption| |congruence].
    rewrite Hlay. cbn [hstep snd] in E. inversion E; subst ob. cbn. exact Hl.
  - cbn [hstep snd] in E. discriminate.
Qed.

(* ---- C06: after ANY failed call the pool behaves as a fresh pool with the same settings ---- *)
Definition strip (ob : obs) := (o_reused ob, o_func ob, o_ordered ob, o_life ob, o_layout ob, o_tt ob).
(* two pool states that later calls cannot tell apart (up to the generation counter) *)
Definition same_future (s t : hst) : Prop :=
  keep_order s = keep_order t /\ p_layout s = p_layout t /\ p_keep_alive s = p_keep_alive t /\
  ((alive s = false /\ alive t = false) \/
   (alive s = alive t /\ initialized s = initialized t /\ w_layout s = w_layout t /\ w_params s = w_params t /\
    w_ordered s = w_ordered t /\ p_params s = p_params t)).

Lemma same_future_step s t o : same_future s t ->
  same_future (fst (hstep s o)) (fst (hstep t o)) /\
  option_map strip (snd (hstep s o)) = option_map strip (snd (hstep t o)).
Proof.
  intros (Hk & Hl & Hka & Hw). destruct o as [ordered mp out|l|b| | |amp|amp]; cbn [hstep fst snd]; unfold happly; facts.
  - destruct Hw as [[Ha Hb]|(Ha & Hi & Hwl & Hwp & Hwo & Hpp)].
    + rewrite Ha, Hb, Hk, Hl, Hka. cbn. destruct out; cbn; (split; [unfold same_future; cbn; repeat split; auto|reflexivity]);
      right; repeat split; auto.
    + rewrite Ha, Hi, Hk, Hl, Hka, Hwl, Hwp, Hwo, Hpp.
      destruct out; cbn; (split; [unfold same_future; cbn; repeat split; auto|reflexivity]);
      right; repeat split; auto.
  - split; [|reflexivity]. unfold same_future; cbn. rewrite Hl. repeat split; auto.
    destruct Hw as [[Ha Hb]|(Ha & Hi & Hwl & Hwp & Hwo & Hpp)]; [left; auto|right; rewrite Hi; repeat split; auto].
  - split; [|reflexivity]. unfold same_future; cbn. repeat split; auto.
  - split; [|reflexivity]. unfold same_future; cbn. repeat split; auto.
  - split; [|reflexivity]. unfold same_future; cbn. repeat split; auto.
  - rewrite ?apply_params_spec.
    destruct Hw as [[Ha Hb]|(Ha & Hi & Hwl & Hwp & Hwo & Hpp)].
    + rewrite Ha, Hb. cbn [fst snd]. split; [|reflexivity]. unfold same_future; cbn. rewrite Hk, Hl, Hka. repeat split; auto.
      right. repeat split; auto.
    + rewrite Ha. destruct (alive t) eqn:Hat; cbn [fst snd]; (split; [|reflexivity]); unfold same_future; cbn; rewrite ?Hk, ?Hl, ?Hka; repeat split; auto;
        right; rewrite ?Hat; repeat split; auto.
  - split; [|reflexivity].
    destruct Hw as [[Ha Hb]|(Ha & Hi & Hwl & Hwp & Hwo & Hpp)].
    + rewrite Ha, Hb. unfold same_future; cbn. rewrite Hk, Hl, Hka. repeat split; auto.
    + rewrite Ha. destruct (alive t) eqn:Hat; unfold same_future; cbn; rewrite ?Hk, ?Hl, ?Hka; repeat split; auto.
Qed.

Lemma same_future_run : forall h s t, same_future s t -> map strip (hrun s h) = map strip (hrun t h).
Proof.
  induction h as [|o r IH]; intros s t H; cbn [hrun]; [reflexivity|].
  destruct (same_future_step s t o H) as [H1 H2].
  destruct (hstep s o) as [s' ob], (hstep t o) as [t' ob']. cbn [fst snd] in *.
  rewrite !map_app. f_equal; [|apply IH; assumption].
  destruct ob, ob'; cbn in *; try discriminate; try reflexivity. f_equal. congruence.
Qed.

(* whatever happened before, right after a FAILED call every later history behaves exactly as on a
   freshly constructed pool with the same settings: fresh workers, own parameters, own ordering
   mode, nothing of the failed call left *)
Theorem post_failure_fresh l k h ordered mp out later :
  out <> Ok ->
  let s := fst (hstep (hstate (hinit l k) h) (HCall ordered mp out)) in
  map strip (hrun s later) = map strip (hrun (hinit (p_layout s) (p_keep_alive s)) later).
Proof.
  intros Hout s. apply same_future_run.
  assert (HIs : HI s) by (apply hstep_HI; apply hstate_HI; apply hinit_HI).
  destruct HIs as (_ & Hk & _ & _).
  assert (Ha : alive s = false) by (unfold s; destruct out; [congruence| | |]; cbn [hstep fst]; facts; reflexivity).
  unfold same_future, hinit; cbn. split; [assumption|]. split; [reflexivity|]. split; [reflexivity|].
  left. split; [assumption|reflexivity].
Qed.

(* the timeout handler reads worker_init_timeout / worker_exit_timeout from the POOL-side copy of the map parameters, the
   workers stamp their phases according to THEIR copy: after every history the two agree whenever workers are alive *)
Theorem pool_and_workers_agree l k h :
  let s := hstate (hinit l k) h in alive s = true -> p_params s = Some (w_params s).
Proof. intros s Ha. assert (H : HI s) by (apply hstate_HI; apply hinit_HI). destruct H as (_ & _ & _ & H). exact (H Ha). Qed.

(* the same after a failure of the APPLY phase that stops the workers (worker_init / worker_exit raising or timing
   out while apply tasks are served): the next call or apply_async cleans up first *)
Theorem post_apply_failure_fresh l k h mp later :
  let s := fst (hstep (hstate (hinit l k) h) (HApplyFails mp)) in
  map strip (hrun s later) = map strip (hrun (hinit (p_layout s) (p_keep_alive s)) later).
Proof.
  intros s. apply same_future_run.
  assert (HIs : HI s) by (apply hstep_HI; apply hstate_HI; apply hinit_HI).
  destruct HIs as (_ & Hk & _ & _).
  assert (Ha : alive s = false) by (unfold s; cbn [hstep fst]; facts; reflexivity).
  unfold same_future, hinit; cbn. split; [assumption|]. split; [reflexivity|]. split; [reflexivity|].
  left. split; [assumption|reflexivity].
Qed.

(* a call that fails in worker_init / worker_exit / the main process surfaces its OWN error, never
   one stored by an earlier call: whenever such an error is still stored, no workers are alive, so
   the call starts workers, which resets the three permanent result objects *)
Theorem never_surfaces_stale_error l k h : Forall (fun b => b = true) (hfails (hinit l k) h).
Proof.
  assert (H : forall h s, HI s -> Forall (fun b => b = true) (hfails s h)).
  { induction h0 as [|o r IH]; intros s HIs; cbn [hfails]; [constructor|].
    apply Forall_app. split; [|apply IH; apply (hstep_HI s o HIs)].
    destruct o as [ordered mp out|?|?| | |?|?]; cbn [surfaces_own]; try constructor.
    destruct out; try constructor; [|constructor]. facts.
    destruct HIs as (Hst & _). destruct (stale_err s) eqn:E; [rewrite (Hst eq_refl); cbn; reflexivity|].
    destruct (alive s && negb (initialized s)); destruct (alive s); cbn; reflexivity. }
  apply H. apply hinit_HI.
Qed.

(* Proofs/ObserveProofs.v -- insights: the per-worker counters sum to the number of executed tasks for
   every schedule, restarts included; top-5 is short, sorted and well-formed; ratios lie in [0,1]
   and sum to T/(T+eps).  Progress bar: never decreases, never exceeds the total, counts every
   item once, ends at the total. *)
From Coq Require Import List Arith Lia Lqa Bool String ZArith QArith Qfield Permutation Sorted.
From Mpv Require Import GenObserve OrderHist NumOps GenProto Core ProtoSpec CoreLemmas CoreCons CoreResult CoreIdent Apply ApplyProofs Observe.
Import ListNotations.
Close Scope Q_scope.
Close Scope Z_scope.
Open Scope nat_scope.

Lemma counter_spec : counter_incremented_once_per_task = true. Proof. vm_compute. reflexivity. Qed.
Lemma reset_spec : counters_reset_only_when_workers_start = true. Proof. vm_compute. reflexivity. Qed.
Lemma top5_spec : top5_selection_as_modelled = true. Proof. vm_compute. reflexivity. Qed.
Lemma batching_spec : batching_as_modelled = true. Proof. vm_compute. reflexivity. Qed.
Lemma handler_spec : handler_updates_by_difference = true. Proof. vm_compute. reflexivity. Qed.
Lemma flush_spec : workers_flush_before_leaving = true. Proof. vm_compute. reflexivity. Qed.
Lemma zeroed_spec : counters_zeroed_per_call = true. Proof. vm_compute. reflexivity. Qed.

(* ---- insights counters ---- *)
Lemma list_sum_cons a l : list_sum (a :: l) = a + list_sum l. Proof. reflexivity. Qed.
Lemma sum_wtasks_in_range n : forall l, Forall (fun e => ev_w e < n) l ->
  list_sum (map (fun w => wtasks w l) (seq 0 n)) = ntasks l.
Proof.
  induction l as [|e l IH]; intros HF.
  - unfold wtasks, ntasks. cbn. induction (seq 0 n); cbn; auto.
  - inversion HF as [|? ? He HF']; subst. specialize (IH HF').
    unfold ntasks, wtasks in *. cbn [filter]. destruct (is_task e) eqn:Et; cbn [andb].
    + cbn [List.length]. rewrite <- IH. clear IH HF HF'.
      (* exactly one w in [0, n) equals ev_w e *)
      assert (G : forall a k, a <= ev_w e < a + k ->
                list_sum (map (fun w => List.length (if ev_w e =? w then e :: filter (fun e0 => is_task e0 && (ev_w e0 =? w)) l
                                                   else filter (fun e0 => is_task e0 && (ev_w e0 =? w)) l)) (seq a k)) =
                S (list_sum (map (fun w => List.length (filter (fun e0 => is_task e0 && (ev_w e0 =? w)) l)) (seq a k)))).
      { intros a k; revert a; induction k as [|k IHk]; intros a Hr; [lia|]. cbn [seq map list_sum].
        destruct (Nat.eqb_spec (ev_w e) a) as [E|E].
        - cbn [List.length]. rewrite !list_sum_cons.
          match goal with |- _ + list_sum (map ?f1 ?sq) = S (_ + list_sum (map ?f2 ?sq)) =>
            assert (M : map f1 sq = map f2 sq) end.
          { apply map_ext_in. intros w Hw. apply in_seq in Hw. destruct (Nat.eqb_spec (ev_w e) w); [lia|reflexivity]. }
          rewrite M. lia.
        - rewrite !list_sum_cons. rewrite IHk by lia. lia. }
      apply G. lia.
    + exact IH.
Qed.

Lemma ntasks_executed l : ntasks l = List.length (exec_of l).
Proof.
  unfold ntasks, exec_of. induction l as [|e l IH]; [reflexivity|]. cbn. unfold is_task at 1.
  destruct (ev_kind e); cbn; rewrite ?IH; reflexivity.
Qed.

(* C18: at every moment of every schedule -- whatever the lifespan, however many instances a worker
   id has had -- the counters have one entry per worker id and sum to the number of tasks executed *)
Theorem insight_counts_sum c chunks sched :
  let s := run c (init c chunks) sched in
  List.length (insight_counts (njobs c) (evlog s)) = njobs c /\
  list_sum (insight_counts (njobs c) (evlog s)) = List.length (executed s).
Proof.
  intros s. unfold insight_counts. rewrite counter_spec. split; [rewrite map_length, seq_length; reflexivity|].
  rewrite sum_wtasks_in_range.
  - rewrite ntasks_executed. unfold executed. rewrite map_length. reflexivity.
  - apply Forall_forall. intros e He. eapply ids_in_range; eauto.
Qed.

(* ... and when the call is done, to exactly the number of tasks *)
Theorem insight_counts_total c chunks sched :
  let s := run c (init c chunks) sched in
  stopped (main s) = true -> list_sum (insight_counts (njobs c) (evlog s)) = List.length (List.concat chunks).
Proof.
  intros s Hd. destruct (insight_counts_sum c chunks sched) as [_ H]. fold s in H. rewrite H.
  apply Permutation_length. apply finished_executed_perm. exact Hd.
Qed.

(* ---- top five ---- *)
Open Scope Z_scope.
Definition lexleP (a b : Z * nat) : Prop := lexle a b = true.
Lemma lexle_total a b : lexle a b = false -> lexle b a = true.
Proof. unfold lexle. intros H. apply orb_false_iff in H. destruct H as [H1 H2]. apply Z.ltb_ge in H1.
  destruct (Z.ltb_spec (fst b) (fst a)); [reflexivity|]. cbn. assert (E : fst a = fst b) by lia.
  rewrite E, Z.eqb_refl in *. cbn in *. apply Nat.leb_gt in H2. apply Nat.leb_le. lia. Qed.
Lemma lexle_trans a b c : lexle a b = true -> lexle b c = true -> lexle a c = true.
Proof.
  unfold lexle. intros H1 H2. apply orb_true_iff in H1. apply orb_true_iff in H2. apply orb_true_iff.
  destruct H1 as [H1|H1], H2 as [H2|H2]; rewrite ?Z.ltb_lt, ?andb_true_iff, ?Z.eqb_eq, ?Nat.leb_le in *.
  - left. lia.
  - left. lia.
  - left. lia.
  - right. split; lia.
Qed.
Lemma ins_sorted x l : StronglySorted lexleP l -> StronglySorted lexleP (ins x l).
Proof.
  induction l as [|y r IH]; intros Hs; cbn.
  - constructor; constructor.
  - inversion Hs as [|? ? Hr Hy]; subst. destruct (lexle x y) eqn:E.
    + constructor; [exact Hs|]. constructor; [exact E|]. eapply Forall_impl; [|exact Hy]. intros z Hz. eapply lexle_trans; eauto.
    + constructor; [apply IH; exact Hr|].
      assert (Hin : forall z, In z (ins x r) -> z = x \/ In z r).
      { clear. induction r as [|a r IHr]; cbn; intros z Hz; [destruct Hz as [<-|[]]; auto|].
        destruct (lexle x a); cbn in Hz; [destruct Hz as [<-|Hz]; auto|]. destruct Hz as [<-|Hz]; auto. destruct (IHr _ Hz); auto. }
      apply Forall_forall. intros z Hz. destruct (Hin _ Hz) as [->|Hz'].
      * apply lexle_total. exact E.
      * rewrite Forall_forall in Hy. apply Hy. exact Hz'.
Qed.
Lemma isort_sorted l : StronglySorted lexleP (isort l).
Proof. induction l as [|x l IH]; cbn; [constructor|apply ins_sorted; exact IH]. Qed.

Lemma ins_perm x l : Permutation (ins x l) (x :: l).
Proof. induction l as [|y r IH]; cbn; [reflexivity|]. destruct (lexle x y); [reflexivity|]. rewrite IH. apply perm_swap. Qed.
Lemma isort_perm l : Permutation (isort l) l.
Proof. induction l as [|x l IH]; cbn; [reflexivity|]. rewrite ins_perm. constructor. exact IH. Qed.

Lemma skipn_sorted {A} (R : A -> A -> Prop) n l : StronglySorted R l -> StronglySorted R (skipn n l).
Proof.
  revert l; induction n as [|n IH]; intros l Hs; [exact Hs|]. destruct l as [|a l]; [constructor|].
  cbn. apply IH. inversion Hs; assumption.
Qed.
Lemma sorted_snoc {A} (R : A -> A -> Prop) l a : StronglySorted R l -> Forall (fun x => R x a) l -> StronglySorted R (l ++ [a]).
Proof.
  induction l as [|b r IH]; intros Hs Hf; cbn; [constructor; constructor|].
  inversion Hs as [|? ? Hr Hb]; subst. inversion Hf as [|? ? Hba Hf']; subst.
  constructor; [apply IH; assumption|]. apply Forall_app. split; [assumption|constructor; [assumption|constructor]].
Qed.
Lemma rev_sorted {A} (R : A -> A -> Prop) l : StronglySorted R l -> StronglySorted (fun a b => R b a) (rev l).
Proof.
  induction l as [|a l IH]; intros Hs; cbn; [constructor|]. inversion Hs as [|? ? Hl Ha]; subst.
  apply sorted_snoc; [apply IH; assumption|]. apply Forall_forall. intros x Hx. apply in_rev in Hx.
  rewrite Forall_forall in Ha. apply Ha. exact Hx.
Qed.
Lemma map_sorted {A B} (R : A -> A -> Prop) (S : B -> B -> Prop) (f : A -> B) l :
  (forall a b, R a b -> S (f a) (f b)) -> StronglySorted R l -> StronglySorted S (map f l).
Proof.
  intros H. induction l as [|a l IH]; intros Hs; cbn; [constructor|]. inversion Hs as [|? ? Hl Ha]; subst.
  constructor; [apply IH; assumption|]. apply Forall_forall. intros y Hy. apply in_map_iff in Hy. destruct Hy as (x & <- & Hx).
  apply H. rewrite Forall_forall in Ha. apply Ha. exact Hx.
Qed.

Lemma combine_seq_nth (durs : list Z) : forall a d i, In (d, i) (combine durs (seq a (List.length durs))) -> (a <= i)%nat /\ nth (i - a) durs 0 = d.
Proof.
  induction durs as [|x r IH]; intros a d i Hin; cbn in Hin; [destruct Hin|].
  destruct Hin as [Hin|Hin].
  - inversion Hin; subst. split; [lia|]. rewrite Nat.sub_diag. reflexivity.
  - destruct (IH _ _ _ Hin) as [Hle Hn]. split; [lia|]. replace (i - a)%nat with (S (i - S a)) by lia. exact Hn.
Qed.

Definition dur_of (durs : list Z) (i : nat) : Z := nth i durs 0.
Lemma sel_durations durs :
  StronglySorted (fun a b => b <= a) (map (dur_of durs) (rev (last5 (argsort durs)))).
Proof.
  unfold argsort, last5. set (P := isort (combine durs (seq 0 (List.length durs)))).
  rewrite map_length. rewrite skipn_map, <- map_rev, map_map.
  assert (HP : forall p, In p P -> dur_of durs (snd p) = fst p).
  { intros [d i] Hp. unfold P in Hp. apply (Permutation_in _ (isort_perm _)) in Hp.
    destruct (combine_seq_nth durs 0 d i Hp) as [_ H]. rewrite Nat.sub_0_r in H. exact H. }
  rewrite (map_ext_in _ fst).
  - apply (map_sorted (fun a b => lexleP b a)).
    + intros a b H. unfold lexleP, lexle in H. apply orb_true_iff in H. destruct H as [H|H]; [apply Z.ltb_lt in H; lia|].
      apply andb_true_iff in H. destruct H as [H _]. apply Z.eqb_eq in H. lia.
    + apply rev_sorted. apply skipn_sorted. apply isort_sorted.
  - intros p Hp. apply HP. apply in_rev in Hp. eapply skipn_In. exact Hp.
Qed.

Lemma pick_facts durs args : forall idxs,
  StronglySorted (fun a b => b <= a) (map (dur_of durs) idxs) ->
  StronglySorted (fun a b => b <= a) (map fst (pick durs args idxs)) /\
  Forall (fun x => exists i, In i idxs /\ fst x = dur_of durs i /\ snd x = nth i args EmptyString /\ fst x <> 0 /\ snd x <> EmptyString)
         (pick durs args idxs) /\
  (List.length (pick durs args idxs) <= List.length idxs)%nat.
Proof.
  induction idxs as [|i r IH]; intros Hs; cbn [pick]; [repeat split; constructor|].
  cbn in Hs. inversion Hs as [|? ? Hr Hi]; subst. destruct (IH Hr) as (S1 & F1 & L1).
  assert (F1' : Forall (fun x => exists i0, In i0 (i :: r) /\ fst x = dur_of durs i0 /\ snd x = nth i0 args EmptyString /\ fst x <> 0 /\ snd x <> EmptyString)
                       (pick durs args r)).
  { eapply Forall_impl; [|exact F1]. intros x (i0 & H0 & H1). exists i0. split; [right; exact H0|exact H1]. }
  destruct (Z.eqb_spec (nth i durs 0) 0) as [E|E]; [repeat split; [constructor|constructor|cbn; lia]|].
  destruct (String.eqb_spec (nth i args EmptyString) EmptyString) as [Ea|Ea]; [repeat split; [assumption|assumption|cbn; lia]|].
  repeat split.
  - cbn. constructor; [exact S1|]. apply Forall_forall. intros d Hd. apply in_map_iff in Hd. destruct Hd as (x & <- & Hx).
    rewrite Forall_forall in F1. destruct (F1 _ Hx) as (i0 & Hi0 & Hf & _). rewrite Hf.
    rewrite Forall_forall in Hi. apply Hi. apply in_map. exact Hi0.
  - constructor; [|exact F1']. exists i. cbn. repeat split; auto.
  - cbn. lia.
Qed.

(* C18: at most five longest tasks, by decreasing duration, each a real (duration, args) slot with a
   non-zero duration and a non-empty argument string *)
Theorem top5_ok durs args :
  let t := top5 durs args in
  (List.length t <= 5)%nat /\ StronglySorted (fun a b => b <= a) (map fst t) /\
  Forall (fun x => exists i, (i < List.length durs)%nat /\ fst x = nth i durs 0 /\ snd x = nth i args EmptyString /\ fst x <> 0 /\ snd x <> EmptyString) t.
Proof.
  unfold top5. rewrite top5_spec. destruct (pick_facts durs args _ (sel_durations durs)) as (S1 & F1 & L1).
  split; [|split; [exact S1|]].
  - eapply Nat.le_trans; [exact L1|]. rewrite rev_length. unfold last5. rewrite skipn_length. lia.
  - eapply Forall_impl; [|exact F1]. intros x (i & Hi & H1 & H2 & H3 & H4). exists i. repeat split; auto.
    destruct (Nat.lt_ge_cases i (List.length durs)) as [Hl|Hg]; [exact Hl|].
    exfalso. apply H3. rewrite H1. unfold dur_of. apply nth_overflow. exact Hg.
Qed.
Close Scope Z_scope.

(* ---- ratios ---- *)
Open Scope Q_scope.
Lemma eps_pos : 0 < eps. Proof. reflexivity. Qed.
Theorem ratios_ok (a b c d e : Q) :
  0 <= a -> 0 <= b -> 0 <= c -> 0 <= d -> 0 <= e ->
  let T := a + b + c + d + e in
  (0 <= ratio a T <= 1) /\ (0 <= ratio b T <= 1) /\ (0 <= ratio c T <= 1) /\ (0 <= ratio d T <= 1) /\ (0 <= ratio e T <= 1) /\
  ratio a T + ratio b T + ratio c T + ratio d T + ratio e T == T / (T + eps) /\
  (1 - (ratio a T + ratio b T + ratio c T + ratio d T + ratio e T)) * (T + eps) == eps.
Proof.
  intros Ha Hb Hc Hd He T. pose proof eps_pos as Hp.
  assert (HT : 0 < T + eps) by (unfold T; lra).
  assert (R : forall x, 0 <= x -> x <= T -> 0 <= ratio x T <= 1).
  { intros x H0 H1. unfold ratio. split.
    - apply Qle_shift_div_l; [exact HT|]. lra.
    - apply Qle_shift_div_r; [exact HT|]. lra. }
  repeat split; try (apply R; unfold T; lra).
  - unfold ratio, T. field. lra.
  - unfold ratio, T. field. lra.
Qed.
Close Scope Q_scope.

(* ---- progress bar ---- *)
Lemma lsum_upd (l : list nat) w x0 x : nth_error l w = Some x0 -> list_sum (Apply.upd l w x) + x0 = list_sum l + x.
Proof.
  revert w; induction l as [|a l IH]; intros [|w] Hn; simpl in Hn; try discriminate.
  - inversion Hn; subst. unfold Apply.upd. simpl. lia.
  - specialize (IH _ Hn). unfold Apply.upd in *. simpl in *. lia.
Qed.

Record PInv (s : pst) : Prop := {
  p_sum : list_sum (arr s) + list_sum (loc s) = pexec s;
  p_tot : pexec s <= total s;
  p_shown : shown s <= list_sum (arr s);
  p_len : List.length (arr s) = List.length (loc s);
  p_ts : forall t, tshown s = Some t -> t = total s;            (* the displayed total, once known, is the true one *)
  p_upd : upd s = true -> tshown s = None;
  (* whenever the bar shows its (known, positive) total and nothing new is announced, completion has been signalled *)
  p_full : forall t, tshown s = Some t -> shown s = t -> upd s = false -> 0 < t -> complete s = true
}.

Lemma tcpb_spec force due l x : tcpb force due l x =
  (let l1 := if force then l else S l in if force || due then (0, x + l1) else (l1, x)).
Proof. unfold tcpb. rewrite batching_spec. reflexivity. Qed.

Lemma aupd_len {A} (l : list A) i x : List.length (Apply.upd l i x) = List.length l.
Proof.
  revert i; induction l as [|a l IH]; intros i.
  - unfold Apply.upd. rewrite firstn_nil, skipn_nil. reflexivity.
  - destruct i as [|i]; [reflexivity|]. specialize (IH i). unfold Apply.upd in *. simpl. rewrite IH. reflexivity.
Qed.

Ltac pfields := cbn [arr loc shown total tshown upd complete pexec].

Lemma pstep_PInv s a s' : PInv s -> pstep s a = Some s' ->
  PInv s' /\ shown s <= shown s' /\ total s' = total s /\ (complete s = true -> complete s' = true).
Proof.
  intros [Hs Ht Hsh Hl Hts Hu Hfull] Hp. destruct a as [w due|w| |]; cbn [pstep] in Hp.
  - destruct (Nat.ltb_spec (pexec s) (total s)) as [Hlt|]; [|discriminate].
    destruct (nth_error (loc s) w) as [l|] eqn:Hnl; [|discriminate].
    destruct (nth_error (arr s) w) as [x|] eqn:Hna; [|discriminate].
    rewrite tcpb_spec in Hp. cbn [orb] in Hp.
    pose proof (lsum_upd _ _ _ (if due then x + S l else x) Hna) as Ha.
    pose proof (lsum_upd _ _ _ (if due then 0 else S l) Hnl) as Hb.
    destruct due; inversion Hp; subst s'; clear Hp; pfields;
      (split; [constructor; pfields; rewrite ?aupd_len; try lia; assumption|split; [lia|split; [reflexivity|auto]]]).
  - destruct (nth_error (loc s) w) as [l|] eqn:Hnl; [|discriminate].
    destruct (nth_error (arr s) w) as [x|] eqn:Hna; [|discriminate].
    rewrite tcpb_spec in Hp. cbn [orb] in Hp.
    pose proof (lsum_upd _ _ _ (x + l) Hna) as Ha.
    pose proof (lsum_upd _ _ _ 0 Hnl) as Hb.
    inversion Hp; subst s'; clear Hp; pfields.
    split; [constructor; pfields; rewrite ?aupd_len; try lia; assumption|split; [lia|split; [reflexivity|auto]]].
  - destruct (tshown s) eqn:Et; [discriminate|]. destruct (upd s) eqn:Eu; [discriminate|]. inversion Hp; subst s'; clear Hp; pfields.
    split; [|split; [lia|split; [reflexivity|auto]]].
    constructor; pfields; try assumption; try lia. intros _. reflexivity.
  - rewrite handler_spec in Hp.
    assert (Hts' : forall t, (if upd s then Some (total s) else tshown s) = Some t -> t = total s).
    { intros t. destruct (upd s); [intros E; inversion E; reflexivity|apply Hts]. }
    destruct ((0 <? list_sum (arr s)) && (list_sum (arr s) =? shown s) && negb (upd s)) eqn:Ec; inversion Hp; subst s'; clear Hp; pfields.
    + apply andb_true_iff in Ec. destruct Ec as [Ec Eu]. apply negb_true_iff in Eu. rewrite Eu in *.
      split; [constructor; pfields; try assumption; try discriminate; intros t H1 H2 _ H3; apply (Hfull t H1 H2 Eu H3)
             |split; [lia|split; [reflexivity|auto]]].
    + split; [constructor; pfields; try assumption; try lia; try discriminate|split; [lia|split; [reflexivity|]]].
      * intros t H1 H2 _ H3. rewrite H1. cbn [opt_eqb]. rewrite H2, Nat.eqb_refl. apply orb_true_r.
      * intros Hc. rewrite Hc. reflexivity.
Qed.

Lemma pinit_PInv n_jobs n sized : PInv (pinit n_jobs n sized).
Proof.
  assert (H : list_sum (repeat 0 n_jobs) = 0) by (induction n_jobs; cbn; auto).
  constructor; unfold pinit; pfields; rewrite ?H; try lia; try reflexivity; try discriminate.
  all: try (destruct sized; intros t E; inversion E; reflexivity).
  all: try (intros t H1 H2 _ H3; lia).
Qed.

Lemma prun_PInv : forall l s, PInv s ->
  PInv (prun s l) /\ shown s <= shown (prun s l) /\ total (prun s l) = total s /\ (complete s = true -> complete (prun s l) = true).
Proof.
  induction l as [|a r IH]; intros s HI; cbn [prun]; [auto|].
  destruct (pstep s a) as [s'|] eqn:Hp; [|apply IH; assumption].
  destruct (pstep_PInv _ _ _ HI Hp) as (HI' & Hm & Ht & Hc). destruct (IH _ HI') as (H1 & H2 & H3 & H4).
  split; [assumption|split; [lia|split; [congruence|auto]]].
Qed.

(* C19: the displayed count never decreases (between any two moments of any schedule), never exceeds
   the total nor the number of items really processed *)
Theorem bar_monotone n_jobs n sized l1 l2 :
  shown (prun (pinit n_jobs n sized) l1) <= shown (prun (pinit n_jobs n sized) (l1 ++ l2)).
Proof.
  assert (E : forall l1 l2 s, prun s (l1 ++ l2) = prun (prun s l1) l2).
  { clear. induction l1 as [|a r IH]; intros l2 s; cbn [app prun]; [reflexivity|]. destruct (pstep s a); apply IH. }
  rewrite E. destruct (prun_PInv l1 _ (pinit_PInv n_jobs n sized)) as (HI & _). apply (prun_PInv l2 _ HI).
Qed.

Theorem bar_bounded n_jobs n sized l :
  let s := prun (pinit n_jobs n sized) l in
  shown s <= pexec s /\ pexec s <= n /\ total s = n /\ (forall t, tshown s = Some t -> t = n /\ shown s <= t).
Proof.
  intros s. destruct (prun_PInv l _ (pinit_PInv n_jobs n sized)) as ([Hs Ht Hsh Hl Hts Hu Hfull] & _ & Htot & _).
  fold s in Hs, Ht, Hsh, Htot, Hts. cbn in Htot. repeat split; try lia.
  - rewrite (Hts _ H). exact Htot.
  - rewrite (Hts _ H). lia.
Qed.

(* ... and ends at the total, WITH the completion signal: once all n > 0 items were processed, every worker has flushed
   (forced update at the poison pill or at the end of its lifespan) and the total is known or has been announced --
   in whichever order these happened -- the next handler round shows exactly n of n and completion is signalled:
   nobody waits for the bar forever (sized and unsized inputs) *)
Theorem bar_ends_at_total n_jobs n sized l :
  let s := prun (pinit n_jobs n sized) l in
  0 < n -> pexec s = n -> Forall (fun x => x = 0) (loc s) -> (tshown s = Some n \/ upd s = true) ->
  forall s', pstep s PHandler = Some s' -> shown s' = n /\ tshown s' = Some n /\ complete s' = true.
Proof.
  intros s Hn He Hl Hk s' Hp. destruct (prun_PInv l _ (pinit_PInv n_jobs n sized)) as (HI & _ & Htot & _). fold s in HI, Htot.
  destruct (pstep_PInv _ _ _ HI Hp) as (HI' & _ & _ & _).
  destruct HI as [Hs Ht Hsh Hlen Hts Hu Hfull].
  assert (H0 : list_sum (loc s) = 0).
  { clear - Hl. induction (loc s) as [|a r IH]; [reflexivity|]. inversion Hl; subst. cbn. apply IH. assumption. }
  cbn in Htot.
  assert (Hts2 : (if upd s then Some (total s) else tshown s) = Some n).
  { destruct (upd s) eqn:Eu; [rewrite Htot; reflexivity|]. destruct Hk as [Hk|Hk]; [exact Hk|discriminate]. }
  assert (Hshown : shown s' = n /\ tshown s' = Some n /\ upd s' = false).
  { cbn [pstep] in Hp. rewrite handler_spec in Hp.
    destruct ((0 <? list_sum (arr s)) && (list_sum (arr s) =? shown s) && negb (upd s)) eqn:E; inversion Hp; subst s'; pfields.
    - apply andb_true_iff in E. destruct E as [E Eu]. apply andb_true_iff in E. destruct E as [_ E]. apply Nat.eqb_eq in E.
      repeat split; [lia|exact Hts2].
    - repeat split; [lia|exact Hts2]. }
  destruct Hshown as (H1 & H2 & H3). repeat split; auto. apply (p_full _ HI' n H2 H1 H3 Hn).
Qed.

(* a forced update leaves nothing behind *)
Theorem force_flushes s w s' : pstep s (PForce w) = Some s' -> nth_error (loc s') w = Some 0.
Proof.
  cbn [pstep]. destruct (nth_error (loc s) w) as [l|] eqn:Hnl; [|discriminate].
  destruct (nth_error (arr s) w) as [x|] eqn:Hna; [|discriminate]. rewrite tcpb_spec. cbn [orb].
  intros H; inversion H; subst s'; cbn [loc]. clear - Hnl.
  revert w Hnl; induction (loc s) as [|a r IH]; intros [|w] Hn; simpl in Hn; try discriminate; [reflexivity|].
  specialize (IH _ Hn). unfold Apply.upd in *. simpl. exact IH.
Qed.

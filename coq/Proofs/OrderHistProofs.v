From Coq Require Import List Arith Lia Bool String.
From Mpv Require Import GenStruct OrderHist.
Import ListNotations.
Close Scope Z_scope.
Open Scope nat_scope.

(* Spec lemmas: what the current source does (each breaks first if the source stops doing it) *)
Lemma setter_reaches_comms_spec : setter_reaches_comms = true.  Proof. vm_compute. reflexivity. Qed.
Lemma call_end_resets_counter_spec : call_end_resets_counter = true.  Proof. vm_compute. reflexivity. Qed.
Lemma call_end_clears_last_completed_spec : call_end_clears_last_completed = true.  Proof. vm_compute. reflexivity. Qed.
Lemma fresh_start_resets_counter_spec : fresh_start_resets_counter = true.  Proof. vm_compute. reflexivity. Qed.

Definition good (s : ost) : Prop := task_idx s = 0 /\ comms_order s = wanted s.

Lemma orun_good : forall h s, good s -> Forall (fun ob => let '(i, used, want) := ob in i = 0 /\ used = want) (orun s h).
Proof.
  induction h as [|o r IH]; intros s [H0 Hw]; cbn [orun]; [constructor|].
  destruct o as [b|k]; cbn [ostep].
  - rewrite setter_reaches_comms_spec. cbn [app]. apply IH. split; cbn; [assumption|reflexivity].
  - rewrite call_end_resets_counter_spec. cbn [app]. constructor; [split; assumption|].
    apply IH. split; cbn; [reflexivity|assumption].
Qed.

(* for every history of setter calls and map calls: every call numbers its chunks from 0 and the
   distribution uses the value last set through the constructor or the setter *)
Theorem order_per_call : forall ctor h,
  Forall (fun ob => let '(i, used, want) := ob in i = 0 /\ used = want) (orun (oinit ctor) h).
Proof.
  intros. apply orun_good. unfold good, oinit. rewrite fresh_start_resets_counter_spec. split; reflexivity.
Qed.

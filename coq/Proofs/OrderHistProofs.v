From Coq Require Import List Arith Lia Bool String.
From Mpv Require Import GenStruct OrderHist.
Import ListNotations.
Close Scope Z_scope.
Open Scope nat_scope.

(* Spec lemmas: what the current source does (each breaks first if the source stops doing it) *)
Lemma setter_reaches_comms_spec : setter_reaches_comms = true.  Proof. vm_compute. reflexivity. Qed.
Lemma call_end_resets_counter_spec : call_end_resets_counter = true.  Proof. vm_compute. reflexivity. Qed.
Lemma call_end_clears_last_completed_spec : call_end_clears_last_completed = true.  Proof. vm_compute. reflexivity. Qed.
Lemma fresh_start_resets_counter_spec : fresh_start_resets_counter = true.  Proof. vm_compute. reflexivity. Qed.

Lemma call_start_resets_counter_spec : call_start_resets_counter = true.  Proof. vm_compute. reflexivity. Qed.

Definition good (s : ost) : Prop := comms_order s = wanted s.

Lemma orun_good : forall h s, good s -> Forall (fun ob => let '(i, used, want) := ob in i = 0 /\ used = want) (orun s h).
Proof.
  induction h as [|o r IH]; intros s Hw; cbn [orun]; [constructor|].
  destruct o as [b|k|k]; cbn [ostep].
  - rewrite setter_reaches_comms_spec. cbn [app]. apply IH. reflexivity.
  - rewrite call_end_resets_counter_spec, call_start_resets_counter_spec. cbn [app]. constructor; [split; [reflexivity|assumption]|].
    apply IH. exact Hw.
  - cbn [app]. apply IH. exact Hw.
Qed.

(* for every history of setter calls, map calls and apply_async submissions: every map call numbers its chunks from 0
   and the distribution uses the value last set through the constructor or the setter *)
Theorem order_per_call : forall ctor h,
  Forall (fun ob => let '(i, used, want) := ob in i = 0 /\ used = want) (orun (oinit ctor) h).
Proof.
  intros. apply orun_good. unfold good, oinit. reflexivity.
Qed.

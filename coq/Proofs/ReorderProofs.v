(* Proofs/ReorderProofs.v -- whatever the arrival order of the index-tagged results, imap yields the values in
   input order: f 0, f 1, ..., f (n-1). *)
From Coq Require Import List Arith Lia Bool String Permutation Sorted.
From Mpv Require Import GenStruct OrderHist Reorder.
Import ListNotations.
Open Scope nat_scope.

Lemma imap_loop_spec : imap_loop_as_modelled = true. Proof. vm_compute. reflexivity. Qed.

Section P.
Variable A : Type.
Variable f : nat -> A.
Notation buf := (list (nat * A)).

(* the buffer holds values of f, keys distinct and all >= next *)
Definition good (next : nat) (t : buf) : Prop :=
  NoDup (map fst t) /\ Forall (fun p => next <= fst p /\ snd p = f (fst p)) t.

Lemma pop_some k t v t' : pop A k t = Some (v, t') ->
  exists l1 l2, t = l1 ++ (k, v) :: l2 /\ t' = l1 ++ l2 /\ ~ In k (map fst l1).
Proof.
  revert v t'; induction t as [|[j w] r IH]; intros v t' H; cbn in H; [discriminate|].
  destruct (Nat.eqb_spec j k) as [->|Hne].
  - inversion H; subst. exists [], t'. cbn. auto.
  - destruct (pop A k r) as [[x r']|] eqn:E; [|discriminate]. inversion H; subst.
    destruct (IH _ _ eq_refl) as (l1 & l2 & -> & -> & Hn). exists ((j, w) :: l1), l2. cbn. repeat split; auto.
    intros [H1|H1]; [congruence|auto].
Qed.
Lemma pop_none k t : pop A k t = None -> ~ In k (map fst t).
Proof.
  induction t as [|[j w] r IH]; cbn; intros H; [tauto|].
  destruct (Nat.eqb_spec j k); [discriminate|]. destruct (pop A k r) as [[x r']|]; [discriminate|].
  intros [H1|H1]; [congruence|apply IH; auto].
Qed.

Lemma good_remove next l1 k v l2 : good next (l1 ++ (k, v) :: l2) -> good next (l1 ++ l2) /\ v = f k /\ next <= k /\ ~ In k (map fst (l1 ++ l2)).
Proof.
  intros [Hnd Hf]. rewrite map_app in Hnd. cbn in Hnd. apply NoDup_remove in Hnd. destruct Hnd as [Hnd Hni].
  apply Forall_app in Hf. destruct Hf as [H1 H2]. inversion H2 as [|? ? [Hle Hv] H3]; subst. cbn in *.
  split; [split; [rewrite map_app; exact Hnd|apply Forall_app; auto]|].
  split; [assumption|]. split; [assumption|]. rewrite map_app. exact Hni.
Qed.

(* draining: yields f next, f (next+1), ... and leaves a good buffer for the new next *)
Lemma drain_spec : forall fuel next t out n' t',
  good next t -> drain A fuel next t = (out, n', t') ->
  out = map f (seq next (n' - next)) /\ next <= n' /\ good n' t' /\
  Permutation (map fst t) (seq next (n' - next) ++ map fst t') /\ List.length t' + (n' - next) = List.length t.
Proof.
  induction fuel as [|fuel IH]; intros next t out n' t' Hg H; cbn in H.
  - inversion H; subst. rewrite Nat.sub_diag. cbn.
    split; [reflexivity|]. split; [lia|]. split; [exact Hg|]. split; [reflexivity|lia].
  - destruct (pop A next t) as [[v t1]|] eqn:E.
    + destruct (pop_some _ _ _ _ E) as (l1 & l2 & -> & -> & Hn).
      destruct (good_remove _ _ _ _ _ Hg) as (Hg1 & -> & Hle & Hni).
      destruct (drain A fuel (S next) (l1 ++ l2)) as [[o2 n2] t2] eqn:E2. inversion H; subst.
      assert (Hg2 : good (S next) (l1 ++ l2)).
      { destruct Hg1 as [Hnd Hf]. split; [assumption|]. apply Forall_forall. intros p Hp.
        rewrite Forall_forall in Hf. destruct (Hf p Hp) as [H1 H2]. split; [|assumption].
        destruct (Nat.eq_dec (fst p) next) as [E1|]; [|lia]. exfalso. apply Hni. rewrite <- E1. apply in_map. exact Hp. }
      destruct (IH _ _ _ _ _ Hg2 E2) as (Ho & Hle2 & Hg3 & Hp & Hlen).
      replace (n' - next) with (S (n' - S next)) by lia. cbn [seq map].
      split; [f_equal; exact Ho|]. split; [lia|]. split; [exact Hg3|]. split.
      * rewrite map_app. cbn [map fst]. rewrite <- Permutation_middle. cbn. constructor. rewrite <- map_app. exact Hp.
      * rewrite app_length in *. cbn [List.length]. lia.
    + inversion H; subst. rewrite Nat.sub_diag. cbn.
      split; [reflexivity|]. split; [lia|]. split; [exact Hg|]. split; [reflexivity|lia].
Qed.

(* state invariant over a prefix of arrivals whose index set is S: yielded = f 0 .. f (next-1); the buffer holds
   exactly the arrived indices >= next *)
Definition inv (seen : list nat) (out : list A) (st : nat * buf) : Prop :=
  let '(next, t) := st in
  out = map f (seq 0 next) /\ good next t /\ Permutation seen (seq 0 next ++ map fst t).

Lemma arrive_inv seen out st i o st' :
  inv seen out st -> ~ In i seen -> arrive A st (i, f i) = (o, st') -> inv (i :: seen) (out ++ o) st'.
Proof.
  destruct st as [next t]. intros (Ho & Hg & Hp) Hni H. unfold arrive in H.
  destruct (drain A (List.length t) next t) as [[o1 n1] t1] eqn:E. cbn [fst snd] in H.
  destruct (drain_spec _ _ _ _ _ _ Hg E) as (Ho1 & Hle & Hg1 & Hp1 & Hlen).
  assert (Hseq : seq 0 n1 = seq 0 next ++ seq next (n1 - next)).
  { replace n1 with (next + (n1 - next)) at 1 by lia. apply seq_app. }
  assert (Hp2 : Permutation seen (seq 0 n1 ++ map fst t1)).
  { rewrite Hp, Hp1, Hseq, app_assoc. reflexivity. }
  assert (Hi : n1 <= i \/ False).
  { destruct (Nat.lt_ge_cases i n1) as [Hlt|]; [|auto]. exfalso. apply Hni. rewrite Hp2. apply in_or_app. left. apply in_seq. lia. }
  destruct Hi as [Hi|[]].
  destruct (Nat.eqb_spec i n1) as [->|Hne]; inversion H; subst; clear H.
  - unfold inv. split; [|split].
    + rewrite seq_S, map_app, Hseq, map_app, <- !app_assoc. reflexivity.
    + destruct Hg1 as [Hnd Hf]. split; [assumption|]. apply Forall_forall. intros p Hp0. rewrite Forall_forall in Hf.
      destruct (Hf p Hp0) as [H1 H2]. split; [|assumption].
      destruct (Nat.eq_dec (fst p) n1) as [E1|]; [|lia]. exfalso. apply Hni. rewrite Hp2. apply in_or_app. right. rewrite <- E1. apply in_map. exact Hp0.
    + rewrite seq_S. rewrite Hp2. rewrite <- app_assoc. cbn [app]. apply Permutation_middle.
  - unfold inv. split; [|split].
    + rewrite app_nil_r || idtac. rewrite Hseq, map_app. reflexivity.
    + destruct Hg1 as [Hnd Hf]. split.
      * cbn [map fst]. constructor; [|assumption]. intros Hin. apply Hni. rewrite Hp2. apply in_or_app. right. exact Hin.
      * constructor; [cbn; split; [lia|reflexivity]|assumption].
    + cbn [map fst]. rewrite Hp2. apply Permutation_middle.
Qed.

Lemma run_inv : forall arr seen out st o st',
  inv seen out st -> NoDup (arr ++ seen) ->
  run_arrivals A st (map (fun i => (i, f i)) arr) = (o, st') -> inv (rev arr ++ seen) (out ++ o) st'.
Proof.
  induction arr as [|i r IH]; intros seen out st o st' Hi Hnd H; cbn in H.
  - inversion H; subst. rewrite app_nil_r. exact Hi.
  - destruct (arrive A st (i, f i)) as [o1 st1] eqn:E1.
    destruct (run_arrivals A st1 (map (fun i0 => (i0, f i0)) r)) as [o2 st2] eqn:E2. inversion H; subst.
    cbn in Hnd. inversion Hnd as [|? ? Hni Hnd']; subst.
    assert (Hi1 : inv (i :: seen) (out ++ o1) st1).
    { eapply arrive_inv; eauto. intros Hin. apply Hni. apply in_or_app. right. exact Hin. }
    assert (Hnd2 : NoDup (r ++ i :: seen)).
    { apply NoDup_Add with (a := i) (l := r ++ seen); [apply Add_app|]. constructor; assumption. }
    specialize (IH _ _ _ _ _ Hi1 Hnd2 E2). cbn. rewrite <- app_assoc. cbn. rewrite app_assoc. exact IH.
Qed.

(* sorting the remaining buffer by key *)
Lemma kins_perm x l : Permutation (kins A x l) (x :: l).
Proof. induction l as [|y r IH]; cbn; [reflexivity|]. destruct (fst x <=? fst y); [reflexivity|]. rewrite IH. apply perm_swap. Qed.
Lemma ksort_perm l : Permutation (ksort A l) l.
Proof. induction l as [|x l IH]; cbn; [reflexivity|]. rewrite kins_perm. constructor. exact IH. Qed.
Definition kle (a b : nat * A) : Prop := fst a <= fst b.
Lemma kins_sorted x l : StronglySorted kle l -> StronglySorted kle (kins A x l).
Proof.
  induction l as [|y r IH]; intros Hs; cbn; [constructor; constructor|].
  inversion Hs as [|? ? Hr Hy]; subst. destruct (Nat.leb_spec (fst x) (fst y)).
  - constructor; [exact Hs|]. constructor; [exact H|]. eapply Forall_impl; [|exact Hy]. intros z Hz. unfold kle in *. lia.
  - constructor; [apply IH; exact Hr|]. apply Forall_forall. intros z Hz.
    apply (Permutation_in _ (kins_perm x r)) in Hz. destruct Hz as [<-|Hz]; [unfold kle; lia|].
    rewrite Forall_forall in Hy. apply Hy. exact Hz.
Qed.
Lemma ksort_sorted l : StronglySorted kle (ksort A l).
Proof. induction l as [|x l IH]; cbn; [constructor|apply kins_sorted; exact IH]. Qed.

(* a key-sorted list whose keys are a permutation of next, next+1, ..., next+m-1 has exactly these keys in order *)
Lemma sorted_keys_seq : forall m next (l : buf),
  StronglySorted kle l -> NoDup (map fst l) -> Permutation (map fst l) (seq next m) -> map fst l = seq next m.
Proof.
  induction m as [|m IH]; intros next l Hs Hnd Hp.
  - cbn in *. apply Permutation_sym, Permutation_nil in Hp. exact Hp.
  - destruct l as [|[k v] r]; [apply Permutation_nil in Hp; discriminate|].
    inversion Hs as [|? ? Hr Hk]; subst. cbn in *. inversion Hnd as [|? ? Hni Hnd']; subst.
    assert (Hk0 : k = next).
    { assert (Hin : In next (k :: map fst r)) by (rewrite Hp; left; reflexivity).
      assert (Hkin : In k (next :: seq (S next) m)) by (rewrite <- Hp; left; reflexivity).
      destruct Hin as [->|Hin]; [reflexivity|]. apply in_map_iff in Hin. destruct Hin as ([k2 v2] & E & Hin2). cbn in E. subst k2.
      rewrite Forall_forall in Hk. specialize (Hk _ Hin2). unfold kle in Hk. cbn in Hk.
      destruct Hkin as [<-|Hkin]; [reflexivity|]. apply in_seq in Hkin. lia. }
    subst k. f_equal. apply IH; auto. apply Permutation_cons_inv in Hp. exact Hp.
Qed.

(* C01 (imap): for EVERY arrival order of the n index-tagged results, imap yields f 0, f 1, ..., f (n-1) *)
Theorem imap_yields_in_input_order (n : nat) (arrived : list nat) :
  Permutation arrived (seq 0 n) ->
  imap_yields A (map (fun i => (i, f i)) arrived) = map f (seq 0 n).
Proof.
  intros Hp. unfold imap_yields. rewrite imap_loop_spec.
  destruct (run_arrivals A (0, []) (map (fun i => (i, f i)) arrived)) as [out [next t]] eqn:E.
  assert (Hnd : NoDup (arrived ++ [])).
  { rewrite app_nil_r. apply (Permutation_NoDup (Permutation_sym Hp)). apply seq_NoDup. }
  assert (Hi0 : inv [] [] (0, [])).
  { cbn. repeat split; [constructor|constructor|reflexivity]. }
  pose proof (run_inv arrived [] [] (0, []) out (next, t) Hi0 Hnd E) as (Ho & [Hndt Hf] & Hperm).
  cbn [app] in Ho. rewrite app_nil_r in Hperm. subst out.
  (* the buffered keys are exactly next .. n-1 *)
  assert (Hle : next <= n).
  { destruct next as [|k]; [lia|]. assert (Hin : In k (seq 0 n)).
    { rewrite <- Hp. apply (Permutation_in _ (Permutation_sym (Permutation_rev arrived))). rewrite Hperm. apply in_or_app. left. apply in_seq. lia. }
    apply in_seq in Hin. lia. }
  assert (Hkeys : Permutation (map fst t) (seq next (n - next))).
  { assert (H1 : Permutation (seq 0 next ++ map fst t) (seq 0 next ++ seq next (n - next))).
    { rewrite <- Hperm, <- Permutation_rev, Hp. replace n with (next + (n - next)) at 1 by lia. rewrite seq_app. reflexivity. }
    apply Permutation_app_inv_l in H1. exact H1. }
  assert (Hsk : map fst (ksort A t) = seq next (n - next)).
  { apply sorted_keys_seq; [apply ksort_sorted| |].
    - apply (Permutation_NoDup (l := map fst t)); [apply Permutation_map, Permutation_sym, ksort_perm|exact Hndt].
    - rewrite <- Hkeys. apply Permutation_map, ksort_perm. }
  assert (Hvals : map snd (ksort A t) = map f (map fst (ksort A t))).
  { rewrite map_map. apply map_ext_in. intros p Hin. apply (Permutation_in _ (ksort_perm t)) in Hin.
    rewrite Forall_forall in Hf. destruct (Hf p Hin) as [_ H2]. exact H2. }
  rewrite Hvals, Hsk, <- map_app. f_equal. replace n with (next + (n - next)) at 2 by lia. rewrite seq_app. reflexivity.
Qed.
End P.

Example reorder_example :
  imap_yields nat (map (fun i => (i, i * i)) [2; 0; 3; 1; 4]) = [0; 1; 4; 9; 16].
Proof. vm_compute. reflexivity. Qed.

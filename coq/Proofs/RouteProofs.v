(* Proofs/RouteProofs.v -- exception routes of imap_unordered *)
From Coq Require Import List Arith Bool String.
From Mpv Require Import GenStruct GenObserve OrderHist Routes.
Import ListNotations.

Lemma protected_spec : every_protected_position_shuts_down = true. Proof. vm_compute. reflexivity. Qed.
Lemma touched_spec : workers_only_touched_under_protection = true. Proof. vm_compute. reflexivity. Qed.
Lemma handle_exception_spec : handle_exception_shuts_down = true. Proof. vm_compute. reflexivity. Qed.

(* general facts about the propagation semantics (any handler table, any nesting) *)
(* a handler whose first top-level statement is a shutdown protects everything under it, whatever lies further out *)
Lemma hrun_shutdown_first l rest outer : indented l = false -> is_shutdown l = true -> hrun (l :: rest) outer = true.
Proof. intros Hi Hs. cbn [hrun]. rewrite Hi, Hs. reflexivity. Qed.
(* the verdict is monotone in what lies further out: adding protection outside never removes protection *)
Lemma hrun_mono body : hrun body false = true -> hrun body true = true.
Proof.
  induction body as [|l rest IH]; cbn [hrun]; [discriminate|].
  destruct (indented l).
  - destruct (is_raise (strip l)); [cbn; discriminate|exact IH].
  - destruct (is_shutdown l); [reflexivity|]. destruct (is_raise l); [discriminate|exact IH].
Qed.
Lemma hrun_mono' body o : hrun body o = true -> hrun body true = true.
Proof. destruct o; [auto|apply hrun_mono]. Qed.
(* no enclosing try body: nothing can shut the pool down *)
Lemma route_nil tries : route tries [] = false. Proof. reflexivity. Qed.
(* a try block with no matching handler is transparent *)
Lemma route_transparent tries t rest : matching (nth t tries []) = None -> route tries (t :: rest) = route tries rest.
Proof. intros H. cbn [route]. rewrite H. reflexivity. Qed.

(* C17/C05: for EVERY statement of imap_unordered inside the outer try -- i.e. every point of the call at which a
   worker or helper thread of this call can exist -- a KeyboardInterrupt raised there (or below it, in a callee that
   does not catch it) runs a handler that shuts the pool down before the exception leaves the call *)
Theorem every_interrupt_point_shuts_down (p : string * list ctx) :
  In p imap_unordered_positions -> in_outer_try p = true -> shut_down_before_leaving p = true.
Proof.
  intros Hin Hp. pose proof protected_spec as H. unfold every_protected_position_shuts_down in H.
  rewrite forallb_forall in H. specialize (H p Hin). rewrite Hp in H. exact H.
Qed.
Theorem workers_started_only_under_protection (p : string * list ctx) :
  In p imap_unordered_positions -> starts_workers p = true -> in_outer_try p = true.
Proof.
  intros Hin Hp. pose proof touched_spec as H. unfold workers_only_touched_under_protection in H.
  apply andb_prop in H. destruct H as [H _]. rewrite forallb_forall in H. specialize (H p Hin). rewrite Hp in H. exact H.
Qed.

(* Proofs/SignalProofs.v -- the handler slot is restored by every program of nested with-blocks, signal arrivals and
   exceptions; no signal is lost outside DisableKeyboardInterruptSignal; the shutdown ledger is empty after every
   exit path. *)
From Coq Require Import List Arith Lia Bool String.
From Mpv Require Import GenStruct GenObserve OrderHist Routes RouteProofs Signals.
Import ListNotations.
Open Scope nat_scope.

(* keep cbn from evaluating the string comparisons behind the facts (it would, slowly, wherever exec is unfolded on a
   symbolic continuation) *)
Arguments delayed_saves_and_restores : simpl never.
Arguments disable_saves_and_restores : simpl never.

Lemma delayed_spec : delayed_saves_and_restores = true. Proof. vm_compute. reflexivity. Qed.
Lemma disable_spec : disable_saves_and_restores = true. Proof. vm_compute. reflexivity. Qed.
Lemma workers_ignore_spec : workers_ignore_sigint = true. Proof. vm_compute. reflexivity. Qed.
Lemma terminate_spec : terminate_clears_everything = true. Proof. vm_compute. reflexivity. Qed.
Lemma stop_threads_spec : stop_handler_threads_joins_all_four = true. Proof. vm_compute. reflexivity. Qed.
Lemma stop_join_spec : stop_and_join_obeys_its_argument = true. Proof. vm_compute. reflexivity. Qed.
Lemma pb_mask_spec : progress_bar_thread_started_under_mask = true. Proof. vm_compute. reflexivity. Qed.
Lemma insights_mask_spec : insights_manager_started_under_mask = true. Proof. vm_compute. reflexivity. Qed.
Lemma map_terminates_spec : map_call_terminates_on_any_exception = true. Proof. vm_compute. reflexivity. Qed.

(* C05 / C17: whatever happens inside -- signals, nested blocks, exceptions -- the SIGINT handler after a program is
   the handler before it *)
Theorem handler_restored : forall fuel p h pend lvl, hnd (exec fuel p h pend lvl) = h.
Proof.
  induction fuel as [|fuel IH]; intros p h pend lvl; [reflexivity|].
  destruct p as [|k| |b k|b k]; cbn [exec]; try reflexivity.
  - destruct h as [id| |l]; cbn [on_signal]; cbn; try reflexivity; apply IH.
  - rewrite delayed_spec.
    destruct (existsb _ _).
    + destruct h as [id| |l]; cbn [on_signal].
      * rewrite orb_true_r. reflexivity.
      * rewrite orb_false_r. destruct (raised _); cbn; [reflexivity|apply IH].
      * rewrite orb_false_r. destruct (raised _); cbn; [reflexivity|apply IH].
    + destruct (raised _); cbn; [reflexivity|apply IH].
  - rewrite disable_spec. destruct (raised _); cbn; [reflexivity|apply IH].
Qed.

(* under the user's handler (no manager active) a signal is delivered at once *)
Theorem delivered_at_once fuel k id pend lvl :
  let s := exec (S fuel) (PSig k) (HUser id) pend lvl in raised s = true /\ delivered s = 1.
Proof. cbn. auto. Qed.

(* one-step unfolding equations: the proofs below never let cbn (or the kernel at Qed) unfold exec on a symbolic
   continuation, which is exponential in the fuel *)
Lemma exec_delayed_unfold f body k h pend lvl :
  exec (S f) (PDelayed body k) h pend lvl =
  if delayed_saves_and_restores then
    let s := exec f body (HDelay lvl) pend (S lvl) in
    let got := existsb (Nat.eqb lvl) (spend s) in
    let pend' := filter (fun l => negb (l =? lvl)) (spend s) in
    if got then
      let '(r, d, x, pend'') := on_signal h pend' in
      if raised s || r then mkS h pend'' true (delivered s + d) (dropped s + x)
      else let s2 := exec f k h pend'' lvl in
           mkS (hnd s2) (spend s2) (raised s2) (delivered s + d + delivered s2) (dropped s + x + dropped s2)
    else if raised s then mkS h pend' true (delivered s) (dropped s)
    else let s2 := exec f k h pend' lvl in
         mkS (hnd s2) (spend s2) (raised s2) (delivered s + delivered s2) (dropped s + dropped s2)
  else mkS h pend false 0 0.
Proof. reflexivity. Qed.
Lemma exec_sig_end_delay f l0 pend lvl :
  exec (S (S f)) (PSig PEnd) (HDelay l0) pend lvl = mkS (HDelay l0) (l0 :: pend) false 0 0.
Proof. reflexivity. Qed.


(* a signal that arrives inside DelayedKeyboardInterrupt (and not inside an inner Disable block) is not lost: it
   reaches the user's handler when the block is left -- exactly once *)
Theorem deferred_signal_is_delivered fuel id k :
  let s := exec (S (S (S fuel))) (PDelayed (PSig PEnd) k) (HUser id) [] 0 in
  raised s = true /\ delivered s = 1 /\ dropped s = 0 /\ hnd s = HUser id.
Proof. intros s; subst s. rewrite exec_delayed_unfold, delayed_spec, exec_sig_end_delay. cbn. auto. Qed.

(* ---- shutdown ledger ---- *)
Definition clean (l : ledger) : Prop := lworkers l = 0 /\ lthreads l = 0.

(* C05: after terminate(), the end of the `with` block, stop_and_join() without keep_alive, or ANY failing /
   interrupted map call -- whatever came before -- no worker and no helper thread of the pool is left *)
Theorem clean_after_every_exit_path (hist : list pop) (o : pop) (l0 : ledger) :
  (o = OTerminate \/ o = OExit \/ o = OStopJoin false \/ o = OCallFails \/ o = OCallInterrupted) ->
  clean (lstep (fold_left lstep hist l0) o).
Proof.
  intros H. set (l := fold_left lstep hist l0). unfold clean, lstep.
  rewrite terminate_spec, stop_threads_spec, map_terminates_spec, stop_join_spec, pb_mask_spec, insights_mask_spec,
    protected_spec, touched_spec, handle_exception_spec.
  destruct H as [H|[H|[H|[H|H]]]]; subst o; cbn; auto.
Qed.

(* ... hence repeating any cycle accumulates nothing *)
Theorem cycles_accumulate_nothing (cycles : list (list pop)) :
  Forall (fun c => exists pre o, c = (pre ++ [o])%list /\ (o = OTerminate \/ o = OExit \/ o = OStopJoin false \/ o = OCallFails \/ o = OCallInterrupted)) cycles ->
  cycles <> [] -> clean (fold_left lstep (List.concat cycles) (mkL 0 0 false)).
Proof.
  intros HF Hne. destruct (exists_last Hne) as (front & c & ->).
  rewrite concat_app. cbn [List.concat]. rewrite app_nil_r, fold_left_app.
  apply Forall_app in HF. destruct HF as [_ HF]. inversion HF as [|? ? Hc _]; subst. destruct Hc as (pre & o & Hc & Ho). subst c.
  rewrite fold_left_app. cbn [fold_left]. rewrite <- fold_left_app. apply clean_after_every_exit_path. exact Ho.
Qed.

(* Proofs/SortRecovers.v -- `map` tags every input with its index and returns the results sorted
   by index: sorting ANY permutation of the indices 0..n-1 gives exactly 0,1,..,n-1, so the
   returned list is in input order whatever order the results arrived in.  (ssreflect style) *)
From mathcomp Require Import all_ssreflect.
Set Implicit Arguments.
Unset Strict Implicit.
Unset Printing Implicit Defensive.

Lemma sort_recovers (n : nat) (arrived : seq nat) :
  perm_eq arrived (iota 0 n) -> sort leq arrived = iota 0 n.
Proof.
  move=> Hp. apply: (@sorted_eq _ leq).
  - exact: leq_trans.
  - exact: anti_leq.
  - apply: sort_sorted. exact: leq_total.
  - exact: iota_sorted.
  - by rewrite (perm_trans _ Hp) // perm_sort.
Qed.

(* keyed version: results are (index, value) pairs sorted by index; the values come out as
   f 0, f 1, ..., f (n-1) *)
Lemma sort_by_index_recovers (V : eqType) (f : nat -> V) (n : nat) (arrived : seq nat) :
  perm_eq arrived (iota 0 n) ->
  [seq p.2 | p <- sort (fun p q : nat * V => p.1 <= q.1) [seq (i, f i) | i <- arrived]]
  = [seq f i | i <- iota 0 n].
Proof.
  move=> Hp.
  have -> : sort (fun p q : nat * V => p.1 <= q.1) [seq (i, f i) | i <- arrived]
          = [seq (i, f i) | i <- sort leq arrived].
    by rewrite sort_map.
  by rewrite (sort_recovers Hp) -map_comp.
Qed.

(* Props/C01.v -- map-family results equal sequential evaluation, independent of configuration. *)
From Coq Require Import List Arith Lia Bool Permutation ZArith.
From Mpv Require Import NumOps GenChunk Chunk ChunkPartition GenProto Core ProtoSpec CoreCons CoreResult.
From Mpv Require SortRecovers.
From Mpv Require Import GenStruct Reorder ReorderProofs.
Import ListNotations.
Close Scope Z_scope.

(* (1) unordered variants: for every configuration and every interleaving, a completed call has
   delivered exactly the multiset of inputs (results are identified with task indices: the user
   function is applied by exactly one worker to exactly that element, see C02/C13) *)
Theorem C01_unordered_multiset :
  forall (c : cfg) (chunks : list (list nat)) (sched : list label),
  stopped (main (run c (init c chunks) sched)) = true ->
  Permutation (yielded (run c (init c chunks) sched)) (concat chunks).
Proof. intros. apply finished_yielded_perm. assumption. Qed.
Print Assumptions C01_unordered_multiset.

(* (2) the outcome does not depend on n_jobs, max_tasks_active, lifespan, order_tasks, init/exit,
   nor on the schedule: any two completed runs over the same tasks deliver the same multiset *)
Theorem C01_configuration_independent :
  forall (c1 c2 : cfg) (ch1 ch2 : list (list nat)) (s1 s2 : list label),
  concat ch1 = concat ch2 ->
  stopped (main (run c1 (init c1 ch1) s1)) = true -> stopped (main (run c2 (init c2 ch2) s2)) = true ->
  Permutation (yielded (run c1 (init c1 ch1) s1)) (yielded (run c2 (init c2 ch2) s2)).
Proof.
  intros c1 c2 ch1 ch2 s1 s2 E H1 H2.
  eapply Permutation_trans; [apply finished_yielded_perm; exact H1|].
  rewrite E. apply Permutation_sym. apply finished_yielded_perm. exact H2.
Qed.
Print Assumptions C01_configuration_independent.

(* (3) the tasks that are dispatched are the input cut to iterable_len, in order, whatever the
   chunking parameters and arithmetic (C14) *)
Theorem C01_chunks_cover_input :
  forall (num : Type) (N : numops num) (A : Type) is_nd has_len (xs : list A) ilen cs ns chunks,
  (forall l, ilen = Some l -> (0 <= l)%Z) ->
  chunk_tasks N is_nd has_len xs ilen cs ns = Ok chunks ->
  concat chunks = take (limit_of xs ilen) xs.
Proof.
  intros num N A is_nd has_len xs ilen cs ns chunks Hl Hrun.
  pose proof (chunk_partition N is_nd has_len xs ilen cs ns Hl) as H. rewrite Hrun in H. apply H.
Qed.
Print Assumptions C01_chunks_cover_input.

(* (4) ordered `map`: results are tagged with their index and sorted; sorting any arrival order
   of the n indices gives input order *)
(* statement (ssreflect): forall n arrived, perm_eq arrived (iota 0 n) -> sort leq arrived = iota 0 n *)
Definition C01_map_sorted_is_input_order := SortRecovers.sort_recovers.
Check C01_map_sorted_is_input_order.
Print Assumptions C01_map_sorted_is_input_order.

(* (5) lazy ordered `imap`: the reorder buffer (loop read off pool.imap) yields, for EVERY arrival order of the n
   index-tagged results, the values in input order *)
Theorem C01_imap_yields_in_input_order :
  forall (A : Type) (f : nat -> A) (n : nat) (arrived : list nat),
  Permutation arrived (seq 0 n) -> imap_yields A (map (fun i => (i, f i)) arrived) = map f (seq 0 n).
Proof. exact imap_yields_in_input_order. Qed.
Print Assumptions C01_imap_yields_in_input_order.

(* (6) on a pool that is used for several calls -- map-family calls with other functions and parameters, setters,
   shutdowns, apply_async in between -- every completed call runs with ITS OWN function, ordering mode, lifespan and
   extras (history model; the effects of every pool method, incl. "a worker forgets apply mode before its next
   task" and "changed parameters are recorded and shipped", are read off the source) *)
From Mpv Require Import GenParams OrderHist Hist HistProofs.
Theorem C01_every_call_runs_with_its_own_function :
  forall l k h, Forall good_obs (hrun (hinit l k) h).
Proof. exact call_uses_own_params. Qed.
Print Assumptions C01_every_call_runs_with_its_own_function.

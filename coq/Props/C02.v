(* Props/C02.v -- every task is executed exactly once.
   Model: Model/Core.v (all interleavings of main, results handler, restart handler and the
   workers, any chunking, any max_tasks_active, any worker_lifespan, with or without order_tasks,
   init and exit functions) over the guards regenerated from the Python source. *)
From Coq Require Import List Arith Lia Bool Permutation.
From Mpv Require Import NumOps GenProto Core ProtoSpec CoreCons CoreResult.
Import ListNotations.
Close Scope Z_scope.

(* at EVERY moment of EVERY schedule: no task has been entered more often than it occurs in the
   input (this is also the failure half: a call that is cut short has executed a sub-multiset) *)
Theorem C02_never_more_than_once :
  forall (c : cfg) (chunks : list (list nat)) (sched : list label) (t : nat),
  count_occ Nat.eq_dec (executed (run c (init c chunks) sched)) t
  <= count_occ Nat.eq_dec (concat chunks) t.
Proof. intros. apply executed_submultiset. Qed.
Print Assumptions C02_never_more_than_once.

(* when the call has completed (main past the last result): the executed tasks are exactly the
   inputs, each once *)
Theorem C02_exactly_once_on_success :
  forall (c : cfg) (chunks : list (list nat)) (sched : list label),
  stopped (main (run c (init c chunks) sched)) = true ->
  Permutation (executed (run c (init c chunks) sched)) (concat chunks).
Proof. intros. apply finished_executed_perm. assumption. Qed.
Print Assumptions C02_exactly_once_on_success.

Theorem C02_no_duplicates :
  forall (c : cfg) (chunks : list (list nat)) (sched : list label),
  NoDup (concat chunks) -> NoDup (executed (run c (init c chunks) sched)).
Proof. intros. apply executed_nodup. assumption. Qed.
Print Assumptions C02_no_duplicates.

(* non-vacuity: a schedule with lifespan restarts reaches completion *)
Example C02_reaches_done :
  let c := mkCfg 3 4 (Some 2) false true true in
  let s := run c (init c [[0;1];[2;3];[4];[5;6];[7;8];[9]]) (rr 3 80) in
  main s = MDone /\ executed s = [0;1;2;3;4;5;6;7;8;9] /\ map inst (slots s) = [2;2;0].
Proof. vm_compute. repeat split. Qed.

(* (4) "its own function": on a pool used for several calls (other functions and parameters, kept-alive workers,
   replacements after a lifespan, apply_async in between) the tasks of a completed call are executed by the call's
   OWN function -- never skipped in favour of another call's function (history model, effects read off the source) *)
From Mpv Require Import GenStruct GenParams OrderHist Hist HistProofs.
Theorem C02_tasks_run_the_calls_own_function :
  forall l k h, Forall good_obs (hrun (hinit l k) h).
Proof. exact call_uses_own_params. Qed.
Print Assumptions C02_tasks_run_the_calls_own_function.

Theorem C02_replacements_use_the_same_parameters :
  forall l k h, let s := hstate (hinit l k) h in alive s = true -> p_params s = Some (w_params s).
Proof. intros l k h s Ha. destruct (hstate_HI h (hinit l k) (hinit_HI l k)) as (_ & _ & _ & H). apply H. exact Ha. Qed.
Print Assumptions C02_replacements_use_the_same_parameters.

(* Props/C03.v -- every call terminates: no deadlock or livelock for any valid configuration.
   (The map-family call; Model/Core.v.  Failure paths, apply and the progress-bar hand-shake are
   modelled in their own files and covered there; OS-level effects -- pipe capacity, feeder
   threads, fork -- are outside any model and are exercised by the watchdogged runs.) *)
From Coq Require Import List Arith Lia Bool.
From Mpv Require Import NumOps GenProto Core ProtoSpec CoreInv CoreInit CoreProgress CoreMeasure.
Import ListNotations.
Close Scope Z_scope.

(* (1) deadlock-freedom: in EVERY reachable state of EVERY schedule, for every n_jobs >= 1, any
   non-empty chunks, any max_tasks_active (also below the chunk size), any lifespan, order_tasks,
   init/exit: either the call is finished or some actor can move *)
Theorem C03_no_deadlock :
  forall (c : cfg) (chunks : list (list nat)) (sched : list label),
  0 < njobs c -> Forall (fun ch => 0 < length ch) chunks ->
  main (run c (init c chunks) sched) <> MDone -> enabled c (run c (init c chunks) sched).
Proof. intros; apply no_deadlock; assumption. Qed.
Print Assumptions C03_no_deadlock.

(* (2) no livelock: every enabled step of every actor strictly decreases a natural number, so NO
   schedule performs more than M(init) steps *)
Theorem C03_bounded_number_of_steps :
  forall (c : cfg) (chunks : list (list nat)) (sched : list label),
  0 < njobs c -> match lifespan c with Some L => 1 <= L | None => True end ->
  Forall (fun ch => ch <> []) chunks ->
  nsteps c (init c chunks) sched <= M c (init c chunks).
Proof. intros; apply any_schedule_bounded; assumption. Qed.
Print Assumptions C03_bounded_number_of_steps.

(* (3) termination under fairness: a schedule that keeps giving every actor a turn (round robin)
   finishes the call within M(init)+1 rounds *)
Theorem C03_fair_schedule_terminates :
  forall (c : cfg) (chunks : list (list nat)),
  0 < njobs c -> match lifespan c with Some L => 1 <= L | None => True end ->
  Forall (fun ch => ch <> []) chunks ->
  main (run c (init c chunks) (rr (njobs c) (S (M c (init c chunks))))) = MDone.
Proof. intros; apply fair_schedule_terminates; assumption. Qed.
Print Assumptions C03_fair_schedule_terminates.

(* non-vacuity: max_tasks_active below the chunk size, lifespan 1, three workers *)
Example C03_ex :
  let c := mkCfg 3 1 (Some 1) false true true in
  main (run c (init c [[0;1;2];[3;4;5];[6]]) (rr 3 60)) = MDone.
Proof. vm_compute. reflexivity. Qed.

(* (4) the failure path (Model/Fail.v: user functions that raise, block beyond a timeout or kill their process; the
   results handler, death watch, timeout handler and main's _handle_exception / terminate, with the waits of the
   dispatch loop and the queue-draining loop of terminate() read off the source): while main has neither returned
   nor raised some actor can move, and a fair schedule ends with main returned or raised -- a failing call
   terminates too *)
From Mpv Require Import GenAsync GenStruct GenObserve OrderHist Apply Fail FailProofs.
Theorem C03_failing_call_terminates :
  forall scripts, Forall (fun t => timed_todo t = true) scripts ->
  running_main (fmn (frun (finit scripts) (frr (List.length scripts) (S (FM (finit scripts)))))) = false.
Proof. exact failing_call_terminates. Qed.
Print Assumptions C03_failing_call_terminates.

Theorem C03_failure_path_facts :
  dispatch_waits_stop_on_exception = true /\ terminate_drains_queues_completely = true /\ handle_exception_waits_for_named_job = true.
Proof. exact (conj waits_spec (conj drains_spec handle_exception_spec)). Qed.
Print Assumptions C03_failure_path_facts.

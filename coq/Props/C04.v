(* Props/C04.v -- exceptions propagate faithfully and promptly. *)
From Coq Require Import List Arith Lia Bool ZArith String.
From Mpv Require Import GenAsync GenStruct OrderHist Apply Fail FailProofs FailAux FailAuxProofs.
Import ListNotations.
Close Scope Z_scope.
Open Scope nat_scope.

(* Schedules: any interleaving of worker steps (every worker runs its own script of user-function
   calls -- init / task / exit, each returning, raising, blocking or killing its process), the
   results handler, the death watch, the timeout handler and main.  The order of the shared-object
   accesses inside worker._raise, the death watch, the timeout handler and _handle_exception is
   read off the source (facts in Model/Fail.v, pinned in Proofs/FailProofs.v). *)

(* (1) what the call raises was really raised by a user function of THIS call (or is the death /
   timeout of a worker that really died / overran): first failure wins, nothing is invented *)
Theorem C04_raised_was_raised :
  forall scripts sched e,
  fmn (frun (finit scripts) sched) = FRaised e ->
  match e with
  | EUser x => exists w j, In (j, URaise x) (script scripts w)
  | EDied w => exists j, In (j, UDie) (script scripts w)
  | ETimeout w => exists j, In (j, UBlock true) (script scripts w)
  end.
Proof. exact raised_was_raised. Qed.
Print Assumptions C04_raised_was_raised.

(* (1b) ... also on a pool that has failed before: whatever earlier calls left in the pool's stored-exception slots,
   a call that starts its workers never raises it (the slots are reset by _start_workers: read off the source) *)
Theorem C04_stale_errors_are_not_reraised :
  forall stale scripts sched e,
  fmn (frun (finit_stale stale scripts) sched) = FRaised e ->
  match e with
  | EUser x => exists w j, In (j, URaise x) (script scripts w)
  | EDied w => exists j, In (j, UDie) (script scripts w)
  | ETimeout w => exists j, In (j, UBlock true) (script scripts w)
  end.
Proof. intros stale scripts sched e. rewrite finit_stale_eq. apply raised_was_raised. Qed.
Print Assumptions C04_stale_errors_are_not_reraised.

(* (2) a failure is never swallowed: once a user function has failed, the call cannot return normally *)
Theorem C04_failure_not_swallowed :
  forall scripts sched, flog (frun (finit scripts) sched) <> [] -> fmn (frun (finit scripts) sched) <> FDone.
Proof. exact failure_is_not_swallowed. Qed.
Print Assumptions C04_failure_not_swallowed.

(* (3) promptly: while main has neither returned nor raised some actor can move (no deadlock on the
   failure path), every schedule performs at most FM(init) steps, and a fair schedule ends with
   main raising one of the failures that occurred *)
Theorem C04_no_deadlock_on_failure_path :
  forall scripts sched, Forall (fun t => timed_todo t = true) scripts ->
  let s := frun (finit scripts) sched in
  running_main (fmn s) = true -> exists a, fstep s a <> None.
Proof.
  intros scripts sched HT s Hrm. apply fail_progress; [apply reach_FI| |exact Hrm].
  apply frun_invariant; [intros; eapply step_Timed; eauto|apply init_Timed; exact HT].
Qed.
Print Assumptions C04_no_deadlock_on_failure_path.

Theorem C04_bounded : forall scripts sched, fnsteps (finit scripts) sched <= FM (finit scripts).
Proof. exact failing_call_bounded. Qed.
Print Assumptions C04_bounded.

Theorem C04_failing_call_raises :
  forall scripts, Forall (fun t => timed_todo t = true) scripts ->
  let s := frun (finit scripts) (frr (List.length scripts) (S (FM (finit scripts)))) in
  flog s <> [] -> exists e, fmn s = FRaised e /\ In e (flog s).
Proof. exact failing_call_raises. Qed.
Print Assumptions C04_failing_call_raises.

(* (4) the exception object: same class, args and attributes when the pool's pickler can transport
   it, else CannotPickleExceptionError describing it; the worker traceback is the cause *)
Theorem C04_transport_faithful :
  forall e tb, let r := populate (get_exception e tb) in
  r_cause r = tb /\
  (if pk_ty e && pk_args e && pk_attrs e
   then r_ty r = ety e /\ r_args r = eargs e /\ r_attrs r = eattrs e
   else r_ty r = CANNOT_PICKLE /\ r_args r = [erepr e]).
Proof. exact transport_faithful. Qed.
Print Assumptions C04_transport_faithful.

(* the guard uses the pickler the queue will use (use_dill), and _raise checks the event, sets it,
   then queues: facts of the current source *)
Theorem C04_source_facts :
  get_exception_uses_the_pools_pickler = true /\ get_exception_guards_three_parts = true /\
  populate_rebuilds_args_and_state = true /\ raise_checks_then_sets_then_queues = true /\
  run_safely_checks_event_first = true /\ results_handler_broadcasts_init = true /\
  handle_exception_waits_for_named_job = true.
Proof.
  exact (conj pickler_spec (conj guards_spec (conj populate_spec (conj raise_order_spec (conj run_safely_first_spec
         (conj broadcast_init_spec handle_exception_spec)))))).
Qed.
Print Assumptions C04_source_facts.

(* non-vacuity: two workers raise different exceptions concurrently; main raises one of them *)
Example C04_example :
  let s := frun (finit [[(JInit, UOk); (JMap, URaise 7)]; [(JInit, URaise 9)]])
                [LW 0; LW 1; LW 1; LW 0; LW 0; LW 1; LW 0; LW 0; LW 1; LW 0; LMain; LRes; LRes; LMain; LMain] in
  exists e, fmn s = FRaised e /\ In e (flog s).
Proof. vm_compute. eexists. split; [reflexivity|]. auto. Qed.

(* source fact (worker._run_init_func / _run_exit_func): a raising worker_init is reported under the INIT slot and a raising worker_exit under the EXIT slot on both branches (with and without a timeout configured): the results handler fails the pending jobs only for the INIT slot *)
Theorem C04_init_exit_phases_bracketed : init_exit_phases_bracketed = true.
Proof. exact phases_spec. Qed.
Print Assumptions C04_init_exit_phases_bracketed.

(* Props/C05.v -- no leaked workers, threads or signal state on any exit path. *)
From Coq Require Import List Arith Lia Bool String.
From Mpv Require Import GenObserve Signals SignalProofs.
Import ListNotations.

(* (1) shutdown ledger (effects read off pool.terminate / _stop_handler_threads / __exit__ / the exception
   handlers of imap_unordered): after terminate(), the end of the `with` block, stop_and_join() without keep_alive,
   or a map call that fails or is interrupted -- after ANY history of operations -- no worker and no helper
   thread of the pool is left *)
Theorem C05_clean_after_every_exit_path :
  forall (hist : list pop) (o : pop) (l0 : ledger),
  (o = OTerminate \/ o = OExit \/ o = OStopJoin false \/ o = OCallFails \/ o = OCallInterrupted) ->
  clean (lstep (fold_left lstep hist l0) o).
Proof. exact clean_after_every_exit_path. Qed.
Print Assumptions C05_clean_after_every_exit_path.

(* (2) repeating such cycles arbitrarily often accumulates nothing *)
Theorem C05_cycles_accumulate_nothing :
  forall cycles : list (list pop),
  Forall (fun c => exists pre o, c = (pre ++ [o])%list /\
                   (o = OTerminate \/ o = OExit \/ o = OStopJoin false \/ o = OCallFails \/ o = OCallInterrupted)) cycles ->
  cycles <> [] -> clean (fold_left lstep (List.concat cycles) (mkL 0 0 false)).
Proof. exact cycles_accumulate_nothing. Qed.
Print Assumptions C05_cycles_accumulate_nothing.

(* (3) the SIGINT handler: every program of nested DelayedKeyboardInterrupt / DisableKeyboardInterruptSignal blocks,
   signal arrivals and exceptions leaves the handler slot as it found it *)
Theorem C05_sigint_handler_restored : forall fuel p h pend lvl, hnd (exec fuel p h pend lvl) = h.
Proof. exact handler_restored. Qed.
Print Assumptions C05_sigint_handler_restored.

Theorem C05_source_facts :
  terminate_clears_everything = true /\ stop_handler_threads_joins_all_four = true /\ map_call_terminates_on_any_exception = true /\
  delayed_saves_and_restores = true /\ disable_saves_and_restores = true.
Proof. exact (conj terminate_spec (conj stop_threads_spec (conj map_terminates_spec (conj delayed_spec disable_spec)))). Qed.
Print Assumptions C05_source_facts.

Example C05_example :
  clean (fold_left lstep [OStart 3; OCallFails; OStart 2; OStopJoin true; OCallInterrupted; OStart 4; OExit] (mkL 0 0 false)).
Proof. apply (clean_after_every_exit_path [OStart 3; OCallFails; OStart 2; OStopJoin true; OCallInterrupted; OStart 4] OExit (mkL 0 0 false)). auto. Qed.

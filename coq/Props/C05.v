(* Props/C05.v -- no leaked workers, threads or signal state on any exit path. *)
From Coq Require Import List Arith Lia Bool String.
From Mpv Require Import GenObserve Signals SignalProofs Routes RouteProofs.
Import ListNotations.

(* (1) shutdown ledger (effects read off pool.terminate / _stop_handler_threads / __exit__ / the exception
   handlers of imap_unordered): after terminate(), the end of the `with` block, stop_and_join() without keep_alive,
   or a map call that fails or is interrupted -- after ANY history of operations -- no worker and no helper
   thread of the pool is left *)
Theorem C05_clean_after_every_exit_path :
  forall (hist : list pop) (o : pop) (l0 : ledger),
  (o = OTerminate \/ o = OExit \/ o = OStopJoin false \/ o = OCallFails \/ o = OCallInterrupted) ->
  clean (lstep (fold_left lstep hist l0) o).
Proof. exact clean_after_every_exit_path. Qed.
Print Assumptions C05_clean_after_every_exit_path.

(* (2) repeating such cycles arbitrarily often accumulates nothing *)
Theorem C05_cycles_accumulate_nothing :
  forall cycles : list (list pop),
  Forall (fun c => exists pre o, c = (pre ++ [o])%list /\
                   (o = OTerminate \/ o = OExit \/ o = OStopJoin false \/ o = OCallFails \/ o = OCallInterrupted)) cycles ->
  cycles <> [] -> clean (fold_left lstep (List.concat cycles) (mkL 0 0 false)).
Proof. exact cycles_accumulate_nothing. Qed.
Print Assumptions C05_cycles_accumulate_nothing.

(* (3) the SIGINT handler: every program of nested DelayedKeyboardInterrupt / DisableKeyboardInterruptSignal blocks,
   signal arrivals and exceptions leaves the handler slot as it found it *)
Theorem C05_sigint_handler_restored : forall fuel p h pend lvl, hnd (exec fuel p h pend lvl) = h.
Proof. exact handler_restored. Qed.
Print Assumptions C05_sigint_handler_restored.

Theorem C05_source_facts :
  terminate_clears_everything = true /\ stop_handler_threads_joins_all_four = true /\ map_call_terminates_on_any_exception = true /\
  delayed_saves_and_restores = true /\ disable_saves_and_restores = true.
Proof. exact (conj terminate_spec (conj stop_threads_spec (conj map_terminates_spec (conj delayed_spec disable_spec)))). Qed.
Print Assumptions C05_source_facts.

Example C05_example :
  clean (fold_left lstep [OStart 3; OCallFails; OStart 2; OStopJoin true; OCallInterrupted; OStart 4; OExit] (mkL 0 0 false)).
Proof. apply (clean_after_every_exit_path [OStart 3; OCallFails; OStart 2; OStopJoin true; OCallInterrupted; OStart 4] OExit (mkL 0 0 false)). auto. Qed.

(* the try structure of imap_unordered (generated: every statement with the constructs around it, every try block
   with its handlers) under Python's propagation rule: a KeyboardInterrupt raised at ANY statement inside the outer
   try -- every point of the call at which a worker or helper thread of this call can exist -- or inside anything
   such a statement calls, runs a handler that shuts the pool down (terminate / _handle_exception, unconditionally)
   before the exception leaves the call; workers are started and joined only from such statements.  The positions
   outside (prologue, the outer handler itself, the finally clean-up) are listed in the evidence file. *)
Theorem C05_every_interrupt_point_shuts_down :
  forall p, In p imap_unordered_positions -> in_outer_try p = true -> shut_down_before_leaving p = true.
Proof. exact every_interrupt_point_shuts_down. Qed.
Print Assumptions C05_every_interrupt_point_shuts_down.

Theorem C05_workers_started_only_under_protection :
  forall p, In p imap_unordered_positions -> starts_workers p = true -> in_outer_try p = true.
Proof. exact workers_started_only_under_protection. Qed.
Print Assumptions C05_workers_started_only_under_protection.

Theorem C05_route_facts :
  every_protected_position_shuts_down = true /\ workers_only_touched_under_protection = true /\
  handle_exception_shuts_down = true.
Proof. exact (conj protected_spec (conj touched_spec handle_exception_spec)). Qed.
Print Assumptions C05_route_facts.

(* helper processes of the pool (tqdm manager, insights manager) are started with SIGINT masked, like the workers *)
Theorem C05_helper_processes_started_under_mask :
  progress_bar_thread_started_under_mask = true /\ insights_manager_started_under_mask = true.
Proof. exact (conj pb_mask_spec insights_mask_spec). Qed.
Print Assumptions C05_helper_processes_started_under_mask.

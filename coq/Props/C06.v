(* Props/C06.v -- a pool stays fully correct after any failed call. *)
From Coq Require Import List Arith Lia Bool.
From Mpv Require Import GenStruct GenParams OrderHist Hist HistProofs.
Import ListNotations.
Close Scope Z_scope.

(* (1) for EVERY history before, and EVERY history after: right after a failed call (task / init /
   exit exception, timeout, worker death, interrupt, nested-map misuse -- they all go through
   _handle_exception: terminate, clear the ordering flag, raise) the pool is indistinguishable from
   a freshly constructed pool with the same settings: same reuse decisions, functions, ordering
   modes, lifespans, extras for all later calls *)
Theorem C06_post_failure_fresh :
  forall (l : layout) (keep : bool) (before : list hop) (ordered : bool) (mp : mparams) (out : outcome) (later : list hop),
  out <> Ok ->        (* Fails, or CutShort: a lazy call closed before exhaustion / input iterable raising *)
  let s := fst (hstep (hstate (hinit l keep) before) (HCall ordered mp out)) in
  map strip (hrun s later) = map strip (hrun (hinit (p_layout s) (p_keep_alive s)) later).
Proof. exact post_failure_fresh. Qed.
Print Assumptions C06_post_failure_fresh.

(* (2) hence every later completed call runs with its own parameters and ordering mode (never the
   failed call's), whatever the prefix *)
Theorem C06_later_calls_correct :
  forall (l : layout) (keep : bool) (h : list hop), Forall good_obs (hrun (hinit l keep) h).
Proof. exact call_uses_own_params. Qed.
Print Assumptions C06_later_calls_correct.

(* (3) the ordering flag never survives a call, failed or not, and no worker survives a failed one *)
Theorem C06_nothing_left_behind :
  forall (l : layout) (keep : bool) (before : list hop) (ordered : bool) (mp : mparams) (out : outcome),
  out <> Ok ->
  let s := fst (hstep (hstate (hinit l keep) before) (HCall ordered mp out)) in
  keep_order s = false /\ alive s = false.
Proof.
  intros l keep before ordered mp out Hout s.
  assert (HIs : HI s) by (apply hstep_HI; apply hstate_HI; apply hinit_HI).
  split; [apply HIs|]. unfold s. destruct out; [congruence| | |]; cbn [hstep fst];
  rewrite ?failure_terminates_and_clears_spec, ?cut_short_terminates_spec; reflexivity.
Qed.
Print Assumptions C06_nothing_left_behind.

(* (4) a call whose worker_init / worker_exit raises surfaces ITS OWN error, never the one an earlier
   call left in the pool, for every history *)
Theorem C06_never_surfaces_an_earlier_error :
  forall (l : layout) (keep : bool) (h : list hop), Forall (fun b => b = true) (hfails (hinit l keep) h).
Proof. exact never_surfaces_stale_error. Qed.
Print Assumptions C06_never_surfaces_an_earlier_error.

(* (5) the death of an idle worker is reported by exactly one call (the stored error is taken out before it is
   raised), and a worker that served an apply task is back in map mode for the next call: read off the source *)
Theorem C06_source_facts : idle_death_reported_once = true /\ apply_mode_reset_per_task = true /\ start_workers_resets = true.
Proof. exact (conj idle_death_spec (conj apply_mode_spec start_workers_resets_spec)). Qed.
Print Assumptions C06_source_facts.

(* (6) the same after a failure of the APPLY phase that stops the workers (worker_init / worker_exit raising or timing out
   while apply tasks are served; the error sits in a permanent result object and no map call is around to clean up):
   the next map call and the next apply_async clean up before they look at the workers (statements read off
   imap_unordered and apply_async), so every later history behaves as on a fresh pool *)
Theorem C06_post_apply_failure_fresh :
  forall (l : layout) (keep : bool) (before : list hop) (mp : mparams) (later : list hop),
  let s := fst (hstep (hstate (hinit l keep) before) (HApplyFails mp)) in
  map strip (hrun s later) = map strip (hrun (hinit (p_layout s) (p_keep_alive s)) later).
Proof. exact post_apply_failure_fresh. Qed.
Print Assumptions C06_post_apply_failure_fresh.

Theorem C06_apply_failure_fact : apply_phase_failure_cleaned_up = true.
Proof. exact apply_cleanup_spec. Qed.
Print Assumptions C06_apply_failure_fact.

(* Props/C07.v -- abrupt worker death is contained. *)
From Coq Require Import List Arith Lia Bool ZArith String.
From Mpv Require Import GenAsync GenStruct OrderHist Apply ApplyProofs Fail FailProofs.
Import ListNotations.
Close Scope Z_scope.
Open Scope nat_scope.

(* map family.  A user function (init / any task / exit) that kills its process is the outcome UDie
   of Model/Fail.v; the death watch is the LDeath step (stores the RuntimeError for the job the
   victim was working on, THEN sets the exception event: order read off pool._unexpected_death_handler). *)

(* (1) the call does not return normally and does not hang: in every fair schedule main raises, and
   what it raises is a failure that occurred (the death, or an exception/timeout that raced it) *)
Theorem C07_death_is_reported :
  forall scripts, Forall (fun t => timed_todo t = true) scripts ->
  let s := frun (finit scripts) (frr (List.length scripts) (S (FM (finit scripts)))) in
  flog s <> [] -> exists e, fmn s = FRaised e /\ In e (flog s).
Proof. exact failing_call_raises. Qed.
Print Assumptions C07_death_is_reported.

Theorem C07_never_returns_partial :
  forall scripts sched, flog (frun (finit scripts) sched) <> [] -> fmn (frun (finit scripts) sched) <> FDone.
Proof. exact failure_is_not_swallowed. Qed.
Print Assumptions C07_never_returns_partial.

(* (2) no deadlock at any crash point: whatever the schedule so far, someone can move *)
Theorem C07_no_hang :
  forall scripts sched, Forall (fun t => timed_todo t = true) scripts ->
  let s := frun (finit scripts) sched in
  running_main (fmn s) = true -> exists a, fstep s a <> None.
Proof.
  intros scripts sched HT s Hrm. apply fail_progress; [apply reach_FI| |exact Hrm].
  apply frun_invariant; [intros; eapply step_Timed; eauto|apply init_Timed; exact HT].
Qed.
Print Assumptions C07_no_hang.

(* (3) a RuntimeError("died") is only ever raised for a worker that really died *)
Theorem C07_no_false_death_report :
  forall scripts sched w, fmn (frun (finit scripts) sched) = FRaised (EDied w) -> exists j, In (j, UDie) (script scripts w).
Proof. intros scripts sched w H. exact (raised_was_raised scripts sched (EDied w) H). Qed.
Print Assumptions C07_no_false_death_report.

(* apply mode: only the task the dead worker was running fails (with the death error, its
   error_callback invoked once), every other job keeps the value of its own function, the pool is
   not stopped, and once nothing can move every job is ready (the replacement worker took over
   the queue of the dead one) *)
Theorem C07_apply_only_the_victims_task_fails :
  forall (l : list alabel) (j : job), In j (jobs (arun ainit l)) -> job_ok j.
Proof. exact apply_correct. Qed.
Print Assumptions C07_apply_only_the_victims_task_fails.

Theorem C07_apply_pool_survives : forall l : list alabel, exn (arun ainit l) = false.
Proof. exact apply_never_stops_the_pool. Qed.
Print Assumptions C07_apply_pool_survives.

Theorem C07_apply_everything_completes :
  forall l : list alabel,
  (forall j, In j (jobs (arun ainit l)) -> j_oc j = OBlock -> j_to j = true) ->
  quiescent (arun ainit l) -> Forall (fun j => j_ready j = true) (jobs (arun ainit l)).
Proof. exact ready_by_join. Qed.
Print Assumptions C07_apply_everything_completes.

Theorem C07_source_facts : death_stores_before_signalling = true /\ death_in_apply_restarts_worker = true.
Proof. split; [exact death_order_spec|exact death_in_apply_restarts_worker_spec]. Qed.
Print Assumptions C07_source_facts.

(* non-vacuity: worker 1 dies inside its second task while worker 0 is working *)
Example C07_example :
  let s := frun (finit [[(JMap, UOk); (JMap, UOk)]; [(JMap, UOk); (JMap, UDie)]])
                [LW 1; LW 1; LW 1; LW 1; LW 0; LW 1; LDeath 1; LW 0; LMain; LMain] in
  fmn s = FRaised (EDied 1).
Proof. vm_compute. reflexivity. Qed.
Example C07_apply_example :
  let s := arun ainit [ASubmit 0 ODie false true true; ASubmit 0 (OOk 5%Z) false true true; AWork 0; AWork 0; AWork 1; ADeath 0; AWork 1; AWork 1; ARes 1] in
  map (fun j => (j_succ j, j_val j, j_ecb j, j_cb j)) (jobs s) = [(Some false, DIED, [DIED], []); (Some true, 5%Z, [], [5%Z])].
Proof. vm_compute. reflexivity. Qed.

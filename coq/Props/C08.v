(* Props/C08.v -- timeouts fire if and only if exceeded. *)
From Coq Require Import List Arith Lia Bool ZArith String.
From Mpv Require Import GenAsync GenStruct OrderHist Apply ApplyProofs Fail FailProofs FailAux FailAuxProofs.
Import ListNotations.
Open Scope Z_scope.

(* The decision kernel comms._has_worker_timed_out is TRANSLATED from the source; the stamps are
   set by signal_worker_*_started (= time.time()) and cleared by signal_worker_*_completed (= 0)
   in a finally: clause around each user function (facts below). *)

(* (1) no false timeout: on ANY timeline of one worker slot on which every call of the watched
   function completes in less than t -- whatever the idle gaps (also > t), however many calls,
   restarts or reuses, whenever the handler looks -- no check fires *)
Theorem C08_no_false_timeout :
  forall t l, short_calls t false 0 l -> Forall (fun b => b = false) (checks t 0 l).
Proof. exact no_false_timeout. Qed.
Print Assumptions C08_no_false_timeout.

(* (2) it fires exactly from st + t on, for a function still running since st *)
Theorem C08_fires_iff :
  forall st now t, has_worker_timed_out st now t = true <-> st <> 0 /\ t <= now - st.
Proof. exact timed_out_iff. Qed.
Print Assumptions C08_fires_iff.

Theorem C08_idle_never_times_out : forall t now, has_worker_timed_out 0 now t = false.
Proof. exact idle_never_times_out. Qed.
Print Assumptions C08_idle_never_times_out.

(* (3) map family / init / exit: the whole call fails, with the TimeoutError of a worker that really
   overran, in every fair schedule, independent of how many workers block and for how long
   (blocked user functions never move in the model: UBlock has no worker step) *)
Theorem C08_whole_call_fails :
  forall scripts, Forall (fun t => timed_todo t = true) scripts ->
  let s := frun (finit scripts) (frr (List.length scripts) (S (FM (finit scripts)))) in
  flog s <> [] -> exists e, fmn s = FRaised e /\ In e (flog s).
Proof. exact failing_call_raises. Qed.
Print Assumptions C08_whole_call_fails.

Theorem C08_timeout_error_is_genuine :
  forall scripts sched w, fmn (frun (finit scripts) sched) = FRaised (ETimeout w) -> exists j, In (j, UBlock true) (script scripts w).
Proof. intros scripts sched w H. exact (raised_was_raised scripts sched (ETimeout w) H). Qed.
Print Assumptions C08_timeout_error_is_genuine.

(* (4) apply: only the overrunning task fails *)
Theorem C08_apply_only_the_overrunning_task_fails :
  forall (l : list alabel) (j : job), In j (jobs (arun ainit l)) -> job_ok j.
Proof. exact apply_correct. Qed.
Print Assumptions C08_apply_only_the_overrunning_task_fails.
Theorem C08_apply_pool_survives : forall l : list alabel, exn (arun ainit l) = false.
Proof. exact apply_never_stops_the_pool. Qed.
Print Assumptions C08_apply_pool_survives.

Theorem C08_source_facts :
  started_sets_now = true /\ completed_sets_zero = true /\ run_func_clears_in_finally = true /\
  timeout_signals_kills_then_stores = true.
Proof. exact (conj started_spec (conj completed_spec (conj finally_spec timeout_order_spec))). Qed.
Print Assumptions C08_source_facts.

Example C08_example :
  short_calls 10 false 0 [TStart 5; TCheck 7; TDone 9; TCheck 500; TStart 600; TDone 601; TCheck 100000] /\
  checks 10 0 [TStart 5; TCheck 7; TCheck 14; TCheck 15; TCheck 16] = [false; false; true; true].
Proof. split; [exact short_calls_example|vm_compute; reflexivity]. Qed.
Close Scope Z_scope.
Example C08_two_blocked_workers :
  let s := frun (finit [[(JExit, UBlock true)]; [(JExit, UBlock true)]]) [LW 0; LW 1; LTo1 1; LTo2; LMain; LMain] in
  fmn s = FRaised (ETimeout 1).
Proof. vm_compute. reflexivity. Qed.

(* source fact (worker._run_init_func / _run_exit_func): each phase clears its own stamp, on both branches *)
Theorem C08_init_exit_phases_bracketed : init_exit_phases_bracketed = true.
Proof. exact phases_spec. Qed.
Print Assumptions C08_init_exit_phases_bracketed.

(* the init / exit timeout in force on kept-alive workers is the one of the most recent call: the handler reads the pool-side
   copy of the map parameters, the workers stamp their phases according to their own copy, and after EVERY history of calls,
   setters, apply tasks and shutdowns the two copies agree (history model; the statement that records new parameters on
   the pool side when they are shipped to live workers is read off imap_unordered) *)
From Mpv Require Import GenParams Hist HistProofs.
Theorem C08_timeouts_in_force_are_the_last_calls :
  new_params_shipped = true /\
  forall l k h, let s := hstate (hinit l k) h in alive s = true -> p_params s = Some (w_params s).
Proof. exact (conj new_params_shipped_spec pool_and_workers_agree). Qed.
Print Assumptions C08_timeouts_in_force_are_the_last_calls.

(* Props/C09.v -- apply/apply_async: correct value, single callback, failures isolated. *)
From Coq Require Import List Arith Lia Bool ZArith.
From Mpv Require Import NumOps GenAsync GenStruct Apply ApplyProofs.
Import ListNotations.
Close Scope Z_scope.

(* Schedules: any interleaving of submissions (any worker, any outcome of the user function: value,
   exception, overrun with a timeout; callbacks given or not), worker steps (per-worker FIFO),
   results-handler steps and timeout-handler steps.  AsyncResult._set is the kernel translated from
   async_result.py; a failing apply task is returned as a result (read off worker._run_safely). *)

(* (1) every job, at every moment: not ready => nothing invoked yet; ready => removed from the cache,
   success flag and value are those of ITS OWN function (value / the raised exception / TimeoutError),
   callback invoked exactly once with the value iff it succeeded, error_callback exactly once with
   the exception iff it failed -- never both, never twice *)
Theorem C09_value_and_single_callback :
  forall (l : list alabel) (j : job), In j (jobs (arun ainit l)) -> job_ok j.
Proof. exact apply_correct. Qed.
Print Assumptions C09_value_and_single_callback.

(* (2) an exception or timeout in an apply task never stops the pool *)
Theorem C09_failures_do_not_stop_the_pool : forall l : list alabel, exn (arun ainit l) = false.
Proof. exact apply_never_stops_the_pool. Qed.
Print Assumptions C09_failures_do_not_stop_the_pool.

(* (3) every result becomes ready: when nothing can move any more (what stop_and_join waits for)
   every submitted job is ready, provided no task blocks forever without a timeout *)
Theorem C09_ready_by_join :
  forall l : list alabel,
  (forall j, In j (jobs (arun ainit l)) -> j_oc j = OBlock -> j_to j = true) ->
  quiescent (arun ainit l) -> Forall (fun j => j_ready j = true) (jobs (arun ainit l)).
Proof. exact ready_by_join. Qed.
Print Assumptions C09_ready_by_join.

(* (4) AsyncResult._set as the source has it *)
Theorem C09_set_kernel :
  forall cb ecb ok v su va re ca c e,
  async_set cb ecb true ok v su va re ca c e =
  (tt, (Some ok, v, true, false, (if cb && ok then c ++ [v] else c), (if ecb && negb ok then e ++ [v] else e))).
Proof. exact async_set_spec. Qed.
Print Assumptions C09_set_kernel.

(* Props/C10.v -- keep_alive: same workers, but each call runs with its own parameters. *)
From Coq Require Import List Arith Lia Bool.
From Mpv Require Import GenStruct GenParams OrderHist Hist HistProofs.
Import ListNotations.
Close Scope Z_scope.

(* Histories: any list of map-family calls (ordered / unordered, any parameters, succeeding or
   failing), changes of pass_worker_id / shared_objects / use_worker_state, keep_alive toggles,
   stop_and_join and terminate.  What each pool operation does is read off pool.py / worker.py /
   params.py by the structural kernels in Gen/GenStruct.v, Gen/GenParams.v (Spec lemmas in
   Proofs/HistProofs.v). *)

(* (1) every completed call ran with its own function, ordering mode, lifespan, task timeout and
   with the extras the pool is configured for at that moment *)
Theorem C10_each_call_uses_its_own_parameters :
  forall (l : layout) (keep : bool) (h : list hop), Forall good_obs (hrun (hinit l keep) h).
Proof. exact call_uses_own_params. Qed.
Print Assumptions C10_each_call_uses_its_own_parameters.

(* (2) consecutive completed calls with keep_alive: the same worker instances serve both *)
Theorem C10_keep_alive_reuses_workers :
  forall s o1 m1 o2 m2, HI s -> p_keep_alive s = true ->
  match snd (hstep (fst (hstep s (HCall o1 m1 Ok))) (HCall o2 m2 Ok)) with
  | Some ob => o_reused ob = true /\ o_gen ob = gen (fst (hstep s (HCall o1 m1 Ok)))
  | None => False end.
Proof. intros; apply keepalive_reuses; assumption. Qed.
Print Assumptions C10_keep_alive_reuses_workers.

(* (3) without keep_alive every call gets fresh instances *)
Theorem C10_no_keep_alive_fresh_workers :
  forall s o1 m1 o2 m2, HI s -> p_keep_alive s = false ->
  match snd (hstep (fst (hstep s (HCall o1 m1 Ok))) (HCall o2 m2 Ok)) with
  | Some ob => o_reused ob = false /\ o_gen ob = S (gen (fst (hstep s (HCall o1 m1 Ok))))
  | None => False end.
Proof. intros; apply no_keepalive_fresh; assumption. Qed.
Print Assumptions C10_no_keep_alive_fresh_workers.

(* (4) a changed pass_worker_id / shared_objects / use_worker_state takes effect through fresh workers *)
Theorem C10_setter_takes_effect_through_fresh_workers :
  forall s l o m, HI s -> layout_eqb l (p_layout s) = false ->
  match snd (hstep (fst (hstep s (HSetLayout l))) (HCall o m Ok)) with
  | Some ob => o_reused ob = false /\ o_layout ob = l /\ o_gen ob = S (gen s)
  | None => False end.
Proof. intros; apply setter_forces_restart; assumption. Qed.
Print Assumptions C10_setter_takes_effect_through_fresh_workers.

(* (5) every reachable pool state satisfies the invariant the statements above assume *)
Theorem C10_invariant_reachable : forall l keep h, HI (hstate (hinit l keep) h).
Proof. intros. apply hstate_HI. apply hinit_HI. Qed.
Print Assumptions C10_invariant_reachable.

(* (6) equality of parameter sets compares every declared field *)
Theorem C10_params_eq_sound : forall a b, mp_eqb a b = true -> a = b.
Proof. exact mp_eqb_eq. Qed.
Print Assumptions C10_params_eq_sound.

(* Props/C11.v -- worker_init / worker_exit run exactly once per working worker instance. *)
From Coq Require Import List Arith Lia Bool.
From Mpv Require Import NumOps GenProto Core ProtoSpec CoreInit.
Import ListNotations.
Close Scope Z_scope.

(* event tags: 0 = worker_init, 1 = a task, 2 = worker_exit.  final_shape c l  says: l is empty, or
   (init if configured) ++ k >= 1 tasks ++ (exit if configured). *)

(* (1) ALL schedules / configurations (n_jobs, chunking, max_tasks_active, lifespan restarts,
   order_tasks), non-empty chunks (C14): when the call is done, the event sequence of every worker
   instance (worker w, instance number i) has that shape -- init exactly once before the first
   task, exit exactly once after the last, neither for an instance that ran no task *)
Theorem C11_instance_events :
  forall (c : cfg) (chunks : list (list nat)) (sched : list label) (w i : nat),
  match lifespan c with Some L => 1 <= L | None => True end ->
  Forall (fun ch => ch <> []) chunks ->
  main (run c (init c chunks) sched) = MDone ->
  final_shape c (proj w i (evlog (run c (init c chunks) sched))).
Proof. intros; apply instance_regex; assumption. Qed.
Print Assumptions C11_instance_events.

(* (2) already during the call, every instance that has been replaced has that shape *)
Theorem C11_replaced_instances :
  forall (c : cfg) (chunks : list (list nat)) (sched : list label) (w i : nat) (sl : slot),
  match lifespan c with Some L => 1 <= L | None => True end ->
  Forall (fun ch => ch <> []) chunks ->
  nth_error (slots (run c (init c chunks) sched)) w = Some sl -> i < inst sl ->
  final_shape c (proj w i (evlog (run c (init c chunks) sched))).
Proof. intros; eapply finished_instance_regex; eassumption. Qed.
Print Assumptions C11_replaced_instances.

(* (3) exactly one exit result has been received per worker_exit invocation *)
Theorem C11_exit_results :
  forall (c : cfg) (chunks : list (list nat)) (sched : list label),
  match lifespan c with Some L => 1 <= L | None => True end ->
  Forall (fun ch => ch <> []) chunks ->
  main (run c (init c chunks) sched) = MDone ->
  exit_items (run c (init c chunks) sched) = count_exit_ev (evlog (run c (init c chunks) sched)).
Proof. intros; apply exit_results_match; assumption. Qed.
Print Assumptions C11_exit_results.

Example C11_ex :
  let c := mkCfg 3 4 (Some 2) false true true in
  let s := run c (init c [[0;1];[2;3];[4];[5;6];[7;8];[9]]) (rr 3 80) in
  main s = MDone /\ proj 0 0 (evlog s) = [0;1;1;2] /\ proj 0 1 (evlog s) = [0;1;1;1;2] /\ proj 2 0 (evlog s) = [] /\
  exit_items s = 5.
Proof. vm_compute. repeat split. Qed.

(* (4) get_exit_results() belongs to the workers of the current generation: the result object of worker_exit is reset
   whenever the pool starts workers (read off pool._start_workers), so values of earlier generations never add up *)
From Mpv Require Import GenStruct GenParams OrderHist Hist HistProofs.
Theorem C11_exit_results_reset_with_the_workers : start_workers_resets = true.
Proof. exact start_workers_resets_spec. Qed.
Print Assumptions C11_exit_results_reset_with_the_workers.

(* source fact (worker._run_init_func / _run_exit_func): worker_init is guarded by a done-flag that is set on BOTH branches (with and without worker_init_timeout): at most once per instance *)
From Mpv Require Import GenAsync FailAux FailAuxProofs.
Theorem C11_init_exit_phases_bracketed : init_exit_phases_bracketed = true.
Proof. exact phases_spec. Qed.
Print Assumptions C11_init_exit_phases_bracketed.

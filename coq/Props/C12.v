(* Props/C12.v -- worker_lifespan bounds the work of every worker instance; routine restarts are
   never mistaken for a failure. *)
From Coq Require Import List Arith Lia Bool Permutation.
From Mpv Require Import NumOps GenProto GenStruct Core ProtoSpec CoreCons CoreResult CoreLife Death DeathProofs.
Import ListNotations.
Close Scope Z_scope.

(* (1) ALL schedules, any n_jobs / max_tasks_active / order_tasks / init / exit: with lifespan L >= 1
   and chunks of at most cmax tasks, every instance (worker w, instance number i) executes at most
   L + cmax - 1 tasks *)
Theorem C12_lifespan_bound :
  forall (c : cfg) (L cmax : nat) (chunks : list (list nat)) (sched : list label) (w i : nat),
  lifespan c = Some L -> 1 <= L -> Forall (fun ch => length ch <= cmax) chunks ->
  ntask w i (evlog (run c (init c chunks) sched)) <= L + cmax - 1.
Proof. intros; eapply lifespan_bound; eassumption. Qed.
Print Assumptions C12_lifespan_bound.

(* (2) no instance has a chunk in progress once it completed L tasks *)
Theorem C12_no_new_chunk_after_lifespan :
  forall (c : cfg) (L cmax : nat) (chunks : list (list nat)) (sched : list label) (w : nat) (sl : slot),
  lifespan c = Some L -> 1 <= L -> Forall (fun ch => length ch <= cmax) chunks ->
  nth_error (slots (run c (init c chunks) sched)) w = Some sl -> running (pc sl) = true -> nexec sl < L.
Proof. intros; eapply no_new_chunk_after_lifespan; eassumption. Qed.
Print Assumptions C12_no_new_chunk_after_lifespan.

(* (3) the successor: same slot and queue, fresh counters and state, next instance number *)
Theorem C12_restart_fresh :
  forall (c : cfg) (s s' : st) (w : nat) (sl : slot),
  step c s (LRestart w) = Some s' -> nth_error (slots s) w = Some sl ->
  exists sl2, nth_error (slots s') w = Some sl2 /\ pc sl2 = WBoot /\ nexec sl2 = 0 /\ init_done sl2 = false /\
              inst sl2 = S (inst sl) /\ q sl2 = q sl /\ restart sl2 = false /\ pc sl = WDead /\ restart sl = true.
Proof. intros c s s' w sl H1 H2. destruct (restart_fresh c s w s' sl H1 H2) as (x & A & B & C & D & E & F & G & H & I).
       exists x. repeat split; assumption. Qed.
Print Assumptions C12_restart_fresh.

(* (4) restarts never lose, duplicate or reorder results: C01/C02 quantify over lifespans *)
Theorem C12_restarts_preserve_results :
  forall (c : cfg) (chunks : list (list nat)) (sched : list label),
  stopped (main (run c (init c chunks) sched)) = true ->
  Permutation (yielded (run c (init c chunks) sched)) (concat chunks) /\
  Permutation (executed (run c (init c chunks) sched)) (concat chunks).
Proof. intros; split; [apply finished_yielded_perm|apply finished_executed_perm]; assumption. Qed.
Print Assumptions C12_restarts_preserve_results.

(* (5) a routine restart is never mistaken for a death: for every interleaving of the watch's
   individual reads with exits and restarts, no kill => no alarm.  The read order is the one
   pool._unexpected_death_handler currently has (Gen/GenStruct.death_reads). *)
Theorem C12_no_false_death : forall sched : list dlabel, ~ In DKill sched -> fired (drun dinit sched) = false.
Proof. exact no_false_death. Qed.
Print Assumptions C12_no_false_death.

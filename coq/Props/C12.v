(* Props/C12.v -- worker_lifespan bounds the work of every worker instance; routine restarts are
   never mistaken for a failure. *)
From Coq Require Import List Arith Lia Bool Permutation.
From Mpv Require Import NumOps GenProto GenStruct Core ProtoSpec CoreCons CoreResult CoreLife Death DeathProofs.
Import ListNotations.
Close Scope Z_scope.

(* (1) ALL schedules, any n_jobs / max_tasks_active / order_tasks / init / exit: with lifespan L >= 1
   and chunks of at most cmax tasks, every instance (worker w, instance number i) executes at most
   L + cmax - 1 tasks *)
Theorem C12_lifespan_bound :
  forall (c : cfg) (L cmax : nat) (chunks : list (list nat)) (sched : list label) (w i : nat),
  lifespan c = Some L -> 1 <= L -> Forall (fun ch => length ch <= cmax) chunks ->
  ntask w i (evlog (run c (init c chunks) sched)) <= L + cmax - 1.
Proof. intros; eapply lifespan_bound; eassumption. Qed.
Print Assumptions C12_lifespan_bound.

(* (2) no instance has a chunk in progress once it completed L tasks *)
Theorem C12_no_new_chunk_after_lifespan :
  forall (c : cfg) (L cmax : nat) (chunks : list (list nat)) (sched : list label) (w : nat) (sl : slot),
  lifespan c = Some L -> 1 <= L -> Forall (fun ch => length ch <= cmax) chunks ->
  nth_error (slots (run c (init c chunks) sched)) w = Some sl -> running (pc sl) = true -> nexec sl < L.
Proof. intros; eapply no_new_chunk_after_lifespan; eassumption. Qed.
Print Assumptions C12_no_new_chunk_after_lifespan.

(* (3) the successor: same slot and queue, fresh counters and state, next instance number *)
Theorem C12_restart_fresh :
  forall (c : cfg) (s s' : st) (w : nat) (sl : slot),
  step c s (LRestart w) = Some s' -> nth_error (slots s) w = Some sl ->
  exists sl2, nth_error (slots s') w = Some sl2 /\ pc sl2 = WBoot /\ nexec sl2 = 0 /\ init_done sl2 = false /\
              inst sl2 = S (inst sl) /\ q sl2 = q sl /\ restart sl2 = false /\ pc sl = WDead /\ restart sl = true.
Proof. intros c s s' w sl H1 H2. destruct (restart_fresh c s w s' sl H1 H2) as (x & A & B & C & D & E & F & G & H & I).
       exists x. repeat split; assumption. Qed.
Print Assumptions C12_restart_fresh.

(* (4) restarts never lose, duplicate or reorder results: C01/C02 quantify over lifespans *)
Theorem C12_restarts_preserve_results :
  forall (c : cfg) (chunks : list (list nat)) (sched : list label),
  stopped (main (run c (init c chunks) sched)) = true ->
  Permutation (yielded (run c (init c chunks) sched)) (concat chunks) /\
  Permutation (executed (run c (init c chunks) sched)) (concat chunks).
Proof. intros; split; [apply finished_yielded_perm|apply finished_executed_perm]; assumption. Qed.
Print Assumptions C12_restarts_preserve_results.

(* (5) a routine restart is never mistaken for a death: for every interleaving of the watch's
   individual reads with exits and restarts, no kill => no alarm.  The read order is the one
   pool._unexpected_death_handler currently has (Gen/GenStruct.death_reads). *)
Theorem C12_no_false_death : forall sched : list dlabel, ~ In DKill sched -> fired (drun dinit sched) = false.
Proof. exact no_false_death. Qed.
Print Assumptions C12_no_false_death.

(* (6) the replacement of a retired instance is built from the pool-side copy of the map parameters
   (pool._start_worker, read off the source); for EVERY history of map-family calls, setters, shutdowns and
   apply_async calls that copy equals what the running workers use -- so the successor has the same lifespan.
   (apply_async touches the copy only when it has to start the workers: read off the source.) *)
From Coq Require Import String.
From Mpv Require Import GenStruct GenParams OrderHist Hist HistProofs.
Theorem C12_replacements_keep_the_parameters :
  forall l k h, let s := hstate (hinit l k) h in alive s = true -> p_params s = Some (w_params s).
Proof. intros l k h s Ha. destruct (hstate_HI h (hinit l k) (hinit_HI l k)) as (_ & _ & _ & H). apply H. exact Ha. Qed.
Print Assumptions C12_replacements_keep_the_parameters.

Theorem C12_source_facts :
  apply_sets_params_only_when_starting = true /\
  has "  self._workers[worker_id] = self.Worker(worker_id, self.pool_params, self.map_params, self._worker_comms, self._worker_insights, TqdmManager.get_connection_details(), get_dashboard_connection_details(), time.time())"%string start_worker_body = true.
Proof. split; [exact apply_params_spec|vm_compute; reflexivity]. Qed.
Print Assumptions C12_source_facts.

(* source fact (worker._run_init_func / _run_exit_func): a retiring instance's worker_exit clears its own stamp (also under worker_exit_timeout): an end-of-lifespan restart is not mistaken for a timeout *)
From Mpv Require Import GenAsync FailAux FailAuxProofs.
Theorem C12_init_exit_phases_bracketed : init_exit_phases_bracketed = true.
Proof. exact phases_spec. Qed.
Print Assumptions C12_init_exit_phases_bracketed.

(* Props/C13.v -- worker identity, private state and argument order. *)
From Coq Require Import List Arith Lia Bool.
From Mpv Require Import NumOps GenProto GenArgs GenStruct Core ProtoSpec CoreIdent CoreLife.
Import ListNotations.
Close Scope Z_scope.

(* (1) the extras prepended to every call, as worker._set_additional_args builds them: worker id,
   then shared objects, then worker state, each present iff enabled -- all 8 subsets *)
Theorem C13_extras_order :
  forall a b c : bool,
  set_additional_args a b c = (if a then [EWid] else []) ++ (if b then [EShared] else []) ++ (if c then [EState] else []).
Proof. exact extras_order. Qed.
Print Assumptions C13_extras_order.

(* (2) the extras come before the task's own arguments for the task function, and are the only
   arguments of worker_init / worker_exit; the worker_state object is created empty with the
   instance and the same extras list is used for init, every task and exit (facts read off the
   source) *)
Theorem C13_call_sites : call_sites_ok = true.
Proof. exact call_sites_spec. Qed.
Print Assumptions C13_call_sites.

(* (3) how the task's own arguments are unpacked *)
Theorem C13_call_convention :
  forall is_dict kwargs_none is_iterable is_strbytes is_ndarray,
  convert_class is_dict kwargs_none is_iterable is_strbytes is_ndarray =
  if is_dict && kwargs_none then CKwargs
  else if is_iterable && negb is_strbytes && negb is_ndarray then CUnpack else CSingle.
Proof. exact call_convention. Qed.
Print Assumptions C13_call_convention.

(* (4) ALL schedules: worker ids are in [0, n_jobs) *)
Theorem C13_ids_in_range :
  forall (c : cfg) (chunks : list (list nat)) (sched : list label) (e : event),
  In e (evlog (run c (init c chunks) sched)) -> ev_w e < njobs c.
Proof. intros; eapply ids_in_range; eassumption. Qed.
Print Assumptions C13_ids_in_range.

(* (5) ALL schedules: an id is constant for the life of an instance (an instance IS a slot and an
   instance number) and never held by two instances at the same time: in the log of a worker id
   the instance numbers never decrease *)
Theorem C13_ids_never_shared :
  forall (c : cfg) (chunks : list (list nat)) (sched : list label) (w : nat),
  nondecr (insts w (evlog (run c (init c chunks) sched))).
Proof. intros; apply instances_do_not_interleave. Qed.
Print Assumptions C13_ids_never_shared.

(* (6) the successor of a restarted worker starts from a fresh instance (C12) *)
Theorem C13_successor_is_fresh :
  forall (c : cfg) (s s' : st) (w : nat) (sl : slot),
  step c s (LRestart w) = Some s' -> nth_error (slots s) w = Some sl ->
  exists sl2, nth_error (slots s') w = Some sl2 /\ inst sl2 = S (inst sl) /\ init_done sl2 = false /\ nexec sl2 = 0.
Proof.
  intros c s s' w sl H1 H2. destruct (restart_fresh c s w s' sl H1 H2) as (x & A & B & C & D & E & _).
  exists x. repeat split; assumption.
Qed.
Print Assumptions C13_successor_is_fresh.

(* (7) changing the extras through a setter while kept-alive workers are running: the next call gets fresh workers with
   the new layout (history model; each setter compares the new value with ITS OWN current setting and resets the
   communication objects when it differs: read off pool.py) *)
From Mpv Require Import GenParams OrderHist Hist HistProofs.
Theorem C13_setter_forces_restart :
  forall l k h, Forall good_obs (hrun (hinit l k) h).
Proof. exact call_uses_own_params. Qed.
Print Assumptions C13_setter_forces_restart.
Theorem C13_setters_reset : setters_reset_comms = true.
Proof. exact setters_reset_comms_spec. Qed.
Print Assumptions C13_setters_reset.

(* Props/C14.v -- Chunking is an order-preserving partition with the promised sizes.
   Only statements, closed by `exact`, with Print Assumptions.  The functions chunk_tasks /
   numpy_chunking are Model/Chunk.v over the kernels regenerated from /repo/mpire/utils.py. *)
From Coq Require Import ZArith List Bool Lia.
From Mpv Require Import NumOps GenChunk Chunk ChunkSpec ChunkPartition ChunkSizes.
Import ListNotations.
Open Scope Z_scope.

(* (1) For EVERY arithmetic N (Python int, exact rational, binary64, anything), every kind of
   iterable, every iterable_len >= 0: the chunks are non-empty and their concatenation is exactly
   the first min(len, iterable_len) elements; the only failures are the two documented
   parameter errors. *)
Theorem C14_partition :
  forall (num : Type) (N : numops num) (A : Type) is_nd has_len (xs : list A) ilen cs ns,
  (forall l, ilen = Some l -> 0 <= l) ->
  match chunk_tasks N is_nd has_len xs ilen cs ns with
  | Ok chunks => concat chunks = take (limit_of xs ilen) xs /\ Forall (fun c => c <> []) chunks
  | Err e => cs = None /\ (ns = None \/ (ilen = None /\ has_len = false)) /\ e = 1
  end.
Proof. intros; apply chunk_partition; assumption. Qed.
Print Assumptions C14_partition.

(* (2) integer chunk_size k *)
Theorem C14_int_sizes :
  forall (A : Type) is_nd has_len (xs : list A) ilen k ns chunks,
  1 <= k -> (forall l, ilen = Some l -> 0 <= l) ->
  chunk_tasks ZOps is_nd has_len xs ilen (Some k) ns = Ok chunks ->
  all_but_last (fun c => zlen c = k) chunks /\ Forall (fun c => 0 < zlen c <= k) chunks /\
  zlen chunks = (limit_of xs ilen + k - 1) / k.
Proof. intros; eapply chunk_int_sizes; eassumption. Qed.
Print Assumptions C14_int_sizes.

(* (3) real chunk_size r = p/q >= 1 in exact arithmetic *)
Theorem C14_real_sizes_exact :
  forall (A : Type) is_nd has_len (xs : list A) ilen p q ns chunks,
  0 < q -> q <= p -> (forall l, ilen = Some l -> 0 <= l) ->
  chunk_tasks (FracOps q) is_nd has_len xs ilen (Some p) ns = Ok chunks ->
  all_but_last (fun c => zlen c = p / q \/ zlen c = (p + q - 1) / q) chunks /\
  Forall (fun c => 0 < zlen c <= (p + q - 1) / q) chunks.
Proof. intros; eapply chunk_real_sizes; eassumption. Qed.
Print Assumptions C14_real_sizes_exact.

(* (4) n_splits = s over n known elements, exact arithmetic: min n s chunks, sizes differ by <= 1 *)
Theorem C14_splits_exact :
  forall (A : Type) is_nd (xs : list A) ilen s chunks,
  1 <= s -> (ilen = None \/ ilen = Some (zlen xs)) ->
  chunk_tasks (FracOps s) is_nd true xs ilen None (Some s) = Ok chunks ->
  let n := zlen xs in
  zlen chunks = Z.min n s /\
  Forall (fun c => c <> [] /\ (zlen c = n / s \/ zlen c = (n + s - 1) / s)) chunks.
Proof. intros; eapply chunk_splits_exact; eassumption. Qed.
Print Assumptions C14_splits_exact.

(* (5) numpy input: the announced count is the number of items actually produced, for every
   arithmetic; each item is one chunk; the pool is then told chunk_size = 1, n_splits = None. *)
Theorem C14_announced_equals_produced :
  forall (num : Type) (N : numops num) (A : Type) (xs : list A) ilen cs ns nj items announced cs' ns',
  numpy_chunking N xs ilen cs ns nj = Ok (items, announced, cs', ns') ->
  announced = zlen items /\ cs' = 1 /\ ns' = None /\
  exists xs' ns2, chunk_tasks N true true xs' (Some (zlen xs')) cs ns2 = Ok items /\
     xs' = match ilen with Some l => pyslice_to l xs | None => xs end.
Proof.
  intros num N A xs ilen cs ns nj items announced cs' ns' H.
  rewrite numpy_chunking_spec in H. cbv zeta in H.
  match type of H with context[chunk_tasks ?a ?b ?c ?d ?e ?f ?g] => destruct (chunk_tasks a b c d e f g) eqn:E end;
  [|discriminate]. inversion H; subst. repeat split; eauto.
Qed.
Print Assumptions C14_announced_equals_produced.

(* non-vacuity: concrete inputs meet the hypotheses and run to Ok *)
Example C14_ex_int : chunk_tasks ZOps false true [1;2;3;4;5;6;7] (Some 5) (Some 2) None = Ok [[1;2];[3;4];[5]].
Proof. vm_compute. reflexivity. Qed.
Example C14_ex_real : chunk_tasks (FracOps 2) false true [1;2;3;4;5;6;7] None (Some 5) None = Ok [[1;2;3];[4;5];[6;7]].
Proof. vm_compute. reflexivity. Qed.   (* chunk_size 2.5 *)
Example C14_ex_splits : chunk_tasks (FracOps 13) true true [1;2;3;4;5;6;7;8;9;10;11;12;13;14;15] None None (Some 13)
  = Ok [[1;2];[3];[4];[5];[6];[7];[8;9];[10];[11];[12];[13];[14];[15]].
Proof. vm_compute. reflexivity. Qed.

(* (6) the chunk size the pool hands to chunk_tasks (params.check_map_parameters, translated from the source): an
   explicit chunk_size is used as given -- also when n_splits is passed too --; otherwise n_tasks / n_splits; otherwise
   n_tasks / (64 * n_jobs), or 4 when the length is unknown *)
From Mpv Require Import GenParams.
Theorem C14_explicit_chunk_size_is_kept :
  forall (num : Type) (N : numops num) n_jobs n_tasks (cs : num) n_splits,
  derive_chunk_size N n_jobs n_tasks (Some cs) n_splits = Ok cs.
Proof. reflexivity. Qed.
Print Assumptions C14_explicit_chunk_size_is_kept.

Theorem C14_derived_chunk_size :
  forall (num : Type) (N : numops num) n_jobs nt ns,
  derive_chunk_size N n_jobs (Some nt) None (Some ns) = Ok (ndivZ N nt ns) /\
  derive_chunk_size N n_jobs (Some nt) None None = Ok (ndivZ N nt (n_jobs * 64)) /\
  derive_chunk_size N n_jobs None None None = Ok (nofZ N 4) /\
  derive_chunk_size N n_jobs None None (Some ns) = Ok (nofZ N 4).
Proof. intros. repeat split; reflexivity. Qed.
Print Assumptions C14_derived_chunk_size.

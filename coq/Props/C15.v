(* Props/C15.v -- bounded look-ahead: max_tasks_active limits consumption of the input. *)
From Coq Require Import List Arith Lia Bool ZArith.
From Mpv Require Import NumOps GenProto GenParams Core ProtoSpec CoreBound.
Import ListNotations.
Close Scope Z_scope.

(* (1) for ALL schedules (worker speeds, result arrival, restarts) and every configuration incl.
   max_tasks_active below the chunk size: elements drawn from the input minus results handed to
   the consumer never exceeds max_tasks_active + the largest chunk *)
Theorem C15_lookahead_bound :
  forall (c : cfg) (cmax : nat) (chunks : list (list nat)) (sched : list label),
  Forall (fun ch => length ch <= cmax) chunks ->
  ndrawn (run c (init c chunks) sched) - length (yielded (run c (init c chunks) sched)) <= maxact c + cmax.
Proof. intros; apply lookahead_bound; assumption. Qed.
Print Assumptions C15_lookahead_bound.

(* (2) the default bound is 2 x n_jobs x ceil(chunk size), for every arithmetic *)
Theorem C15_default_bound :
  forall (num : Type) (N : numops num) (n_jobs : Z) (cs : num),
  default_max_tasks_active N n_jobs cs = (2 * n_jobs * nceil N cs)%Z.
Proof. intros. unfold default_max_tasks_active. lia. Qed.
Print Assumptions C15_default_bound.

(* (3) the two waits of the dispatch loop, as the source has them: before drawing, only while more
   than max_tasks_active tasks are active; before dispatching, only while something is active and
   the chunk does not fit -- so a bound below the chunk size cannot stall the loop with nothing
   active (the progress half is C03) *)
Theorem C15_waits_need_active_tasks :
  forall a l m, (predraw a m = true -> 0 < a \/ m = 0 /\ False) /\ (blocked a l m = true -> 0 < a).
Proof.
  intros a l m. rewrite predraw_spec, blocked_spec. split.
  - intros H. apply Nat.ltb_lt in H. left. lia.
  - intros H. apply andb_true_iff in H. destruct H as [H _]. apply Nat.ltb_lt in H. exact H.
Qed.
Print Assumptions C15_waits_need_active_tasks.

Example C15_ex_small_bound :
  let c := mkCfg 2 2 None false false false in
  let s := run c (init c [[0;1;2;3;4];[5;6;7;8;9];[10;11;12;13;14]]) (rr 2 120) in
  main s = MDone /\ length (yielded s) = 15.
Proof. vm_compute. split; reflexivity. Qed.

(* the chunker never hands main an empty chunk and never produces anything beyond the first min(len, iterable_len) elements
   (shared with C14; the loop body is translated from utils.chunk_tasks on every run): main draws from the input only
   through it, one non-empty chunk per dispatch step, so the dispatch-loop bound above is a bound on input consumption *)
From Mpv Require Import GenChunk Chunk ChunkSpec ChunkPartition.
Theorem C15_chunks_nonempty_and_cut :
  forall (num : Type) (N : numops num) (A : Type) is_nd has_len (xs : list A) ilen cs ns,
  (forall l, ilen = Some l -> 0 <= l) ->
  match chunk_tasks N is_nd has_len xs ilen cs ns with
  | Ok chunks => concat chunks = take (limit_of xs ilen) xs /\ Forall (fun c => c <> []) chunks
  | Err e => cs = None /\ (ns = None \/ (ilen = None /\ has_len = false)) /\ e = 1
  end.
Proof. intros; apply chunk_partition; assumption. Qed.
Print Assumptions C15_chunks_nonempty_and_cut.

(* Props/C16.v -- order_tasks assigns chunk i to worker i mod n_jobs. *)
From Coq Require Import List Arith Lia Bool.
From Mpv Require Import NumOps GenProto GenStruct Core ProtoSpec CoreOrder OrderHist OrderHistProofs.
Import ListNotations.
Close Scope Z_scope.

(* (1) within a call, for ALL schedules, chunkings, lifespans (restarted instances read the same
   queue): the k-th chunk put on a queue is chunk k of the call and goes to worker k mod n_jobs *)
Theorem C16_dispatch_round_robin :
  forall (c : cfg) (chunks : list (list nat)) (sched : list label) (k w : nat) (ch : list nat),
  order c = true ->
  nth_error (dlog (run c (init c chunks) sched)) k = Some (w, ch) ->
  w = k mod njobs c /\ nth_error chunks k = Some ch.
Proof. intros; eapply order_tasks_dispatch; eassumption. Qed.
Print Assumptions C16_dispatch_round_robin.

(* (2) and it is executed there: whatever worker w runs belongs to a chunk i with w = i mod n_jobs *)
Theorem C16_executed_by_assigned_worker :
  forall (c : cfg) (chunks : list (list nat)) (sched : list label) (w t : nat),
  order c = true ->
  In (w, t) (exec_of (evlog (run c (init c chunks) sched))) ->
  exists i ch, nth_error chunks i = Some ch /\ In t ch /\ w = i mod njobs c.
Proof. intros; eapply order_tasks_assignment; eassumption. Qed.
Print Assumptions C16_executed_by_assigned_worker.

(* (3) across calls on one pool: for every history of set_order_tasks and map-family calls, each
   call numbers its chunks from 0 and uses the value last set (constructor or setter).  The
   resets and assignments are read off pool.py / comms.py (Gen/GenStruct.v). *)
Theorem C16_numbering_restarts_and_setting_effective :
  forall (ctor : bool) (h : list oop),
  Forall (fun ob => let '(i, used, want) := ob in i = 0 /\ used = want) (orun (oinit ctor) h).
Proof. exact order_per_call. Qed.
Print Assumptions C16_numbering_restarts_and_setting_effective.

Example C16_ex :
  let c := mkCfg 2 2 (Some 1) true false false in
  let s := run c (init c [[0;1;2];[3;4;5];[6]]) (rr 2 80) in
  main s = MDone /\ dlog s = [(0,[0;1;2]);(1,[3;4;5]);(0,[6])] /\ map fst (exec_of (evlog s)) = [0;0;0;1;1;1;0].
Proof. vm_compute. repeat split. Qed.

(* Props/C17.v -- SIGINT yields KeyboardInterrupt after clean shutdown, or correct completion. *)
From Coq Require Import List Arith Lia Bool String.
From Mpv Require Import GenObserve GenAsync GenStruct OrderHist Apply Fail FailProofs Signals SignalProofs Routes RouteProofs.
Import ListNotations.

(* (1) a signal is either delivered at once (no manager active), or deferred and delivered exactly once when the
   DelayedKeyboardInterrupt block is left, or ignored inside DisableKeyboardInterruptSignal (while a worker is
   being forked) -- and in every case the handler slot is restored *)
Theorem C17_delivered_at_once :
  forall fuel k id pend lvl, let s := exec (S fuel) (PSig k) (HUser id) pend lvl in raised s = true /\ delivered s = 1.
Proof. exact delivered_at_once. Qed.
Print Assumptions C17_delivered_at_once.

Theorem C17_deferred_signal_is_delivered :
  forall fuel id k, let s := exec (S (S (S fuel))) (PDelayed (PSig PEnd) k) (HUser id) [] 0 in
  raised s = true /\ delivered s = 1 /\ dropped s = 0 /\ hnd s = HUser id.
Proof. exact deferred_signal_is_delivered. Qed.
Print Assumptions C17_deferred_signal_is_delivered.

Theorem C17_handler_unchanged : forall fuel p h pend lvl, hnd (exec fuel p h pend lvl) = h.
Proof. exact handler_restored. Qed.
Print Assumptions C17_handler_unchanged.

(* (2) a KeyboardInterrupt that reaches the map call -- at any point -- goes through terminate() before it leaves
   the call: afterwards no worker and no helper thread is left (ledger; handlers read off imap_unordered) *)
Theorem C17_interrupted_call_is_clean :
  forall (hist : list pop) (l0 : ledger), clean (lstep (fold_left lstep hist l0) OCallInterrupted).
Proof. intros. apply clean_after_every_exit_path. auto. Qed.
Print Assumptions C17_interrupted_call_is_clean.

(* (3) the interrupt is handled like any other failure of the call: main's _handle_exception path of the Fail
   model cannot deadlock and a failing call never returns normally (shared with C04) *)
Theorem C17_no_partial_result :
  forall scripts sched, flog (frun (finit scripts) sched) <> [] -> fmn (frun (finit scripts) sched) <> FDone.
Proof. exact failure_is_not_swallowed. Qed.
Print Assumptions C17_no_partial_result.

Theorem C17_source_facts :
  workers_ignore_sigint = true /\ map_call_terminates_on_any_exception = true /\ terminate_clears_everything = true /\
  delayed_saves_and_restores = true /\ disable_saves_and_restores = true.
Proof. exact (conj workers_ignore_spec (conj map_terminates_spec (conj terminate_spec (conj delayed_spec disable_spec)))). Qed.
Print Assumptions C17_source_facts.

(* the try structure of imap_unordered (generated: every statement with the constructs around it, every try block
   with its handlers) under Python's propagation rule: a KeyboardInterrupt raised at ANY statement inside the outer
   try -- every point of the call at which a worker or helper thread of this call can exist -- or inside anything
   such a statement calls, runs a handler that shuts the pool down (terminate / _handle_exception, unconditionally)
   before the exception leaves the call; workers are started and joined only from such statements.  The positions
   outside (prologue, the outer handler itself, the finally clean-up) are listed in the evidence file. *)
Theorem C17_every_interrupt_point_shuts_down :
  forall p, In p imap_unordered_positions -> in_outer_try p = true -> shut_down_before_leaving p = true.
Proof. exact every_interrupt_point_shuts_down. Qed.
Print Assumptions C17_every_interrupt_point_shuts_down.

Theorem C17_workers_started_only_under_protection :
  forall p, In p imap_unordered_positions -> starts_workers p = true -> in_outer_try p = true.
Proof. exact workers_started_only_under_protection. Qed.
Print Assumptions C17_workers_started_only_under_protection.

Theorem C17_route_facts :
  every_protected_position_shuts_down = true /\ workers_only_touched_under_protection = true /\
  handle_exception_shuts_down = true.
Proof. exact (conj protected_spec (conj touched_spec handle_exception_spec)). Qed.
Print Assumptions C17_route_facts.

(* helper processes of the pool (tqdm manager, insights manager) are started with SIGINT masked, like the workers *)
Theorem C17_helper_processes_started_under_mask :
  progress_bar_thread_started_under_mask = true /\ insights_manager_started_under_mask = true.
Proof. exact (conj pb_mask_spec insights_mask_spec). Qed.
Print Assumptions C17_helper_processes_started_under_mask.

(* Props/C18.v -- worker insights account for every task. *)
From Coq Require Import List Arith Lia Bool String ZArith QArith Sorted.
From Mpv Require Import GenObserve NumOps GenProto Core ProtoSpec CoreCons CoreResult Observe ObserveProofs.
Import ListNotations.
Close Scope Q_scope.
Close Scope Z_scope.

(* (1) for EVERY schedule and configuration (lifespans and restarts included): one counter per worker
   id, and the counters sum to the number of tasks executed so far; the counter is incremented
   once per task, right after the user function (read off worker._run_func) *)
Theorem C18_counts_sum :
  forall c chunks sched, let s := run c (init c chunks) sched in
  List.length (insight_counts (njobs c) (evlog s)) = njobs c /\
  list_sum (insight_counts (njobs c) (evlog s)) = List.length (executed s).
Proof. exact insight_counts_sum. Qed.
Print Assumptions C18_counts_sum.

(* (2) ... and, when the call is done, to exactly the number of tasks of the call *)
Theorem C18_counts_total :
  forall c chunks sched, let s := run c (init c chunks) sched in
  stopped (main s) = true -> list_sum (insight_counts (njobs c) (evlog s)) = List.length (List.concat chunks).
Proof. exact insight_counts_total. Qed.
Print Assumptions C18_counts_total.

(* (3) at most five longest tasks, sorted by decreasing duration, each a real slot with a non-zero
   duration and a non-empty argument string (selection loop read off insights.get_insights) *)
Theorem C18_top5 :
  forall durs args, let t := top5 durs args in
  (List.length t <= 5)%nat /\ StronglySorted (fun a b => (b <= a)%Z) (map fst t) /\
  Forall (fun x => exists i, (i < List.length durs)%nat /\ fst x = nth i durs 0%Z /\ snd x = nth i args EmptyString /\
                             fst x <> 0%Z /\ snd x <> EmptyString) t.
Proof. exact top5_ok. Qed.
Print Assumptions C18_top5.

(* (4) the five ratios (exact arithmetic): each in [0,1]; they sum to T/(T+1e-8), i.e. the missing
   part is exactly 1e-8/(T+1e-8) *)
Theorem C18_ratios :
  forall a b c d e : Q, (0 <= a -> 0 <= b -> 0 <= c -> 0 <= d -> 0 <= e ->
  let T := a + b + c + d + e in
  (0 <= ratio a T <= 1) /\ (0 <= ratio b T <= 1) /\ (0 <= ratio c T <= 1) /\ (0 <= ratio d T <= 1) /\ (0 <= ratio e T <= 1) /\
  ratio a T + ratio b T + ratio c T + ratio d T + ratio e T == T / (T + eps) /\
  (1 - (ratio a T + ratio b T + ratio c T + ratio d T + ratio e T)) * (T + eps) == eps)%Q.
Proof. exact ratios_ok. Qed.
Print Assumptions C18_ratios.

Theorem C18_source_facts :
  counter_incremented_once_per_task = true /\ counters_reset_only_when_workers_start = true /\ top5_selection_as_modelled = true.
Proof. exact (conj counter_spec (conj reset_spec top5_spec)). Qed.
Print Assumptions C18_source_facts.

Example C18_example :
  top5 [3;0;7;7;1;9;2]%Z ["a";"b";"";"d";"e";"f";"g"]%string = [(9, "f"); (7, "d"); (3, "a"); (2, "g")]%Z%string.
Proof. vm_compute. reflexivity. Qed.

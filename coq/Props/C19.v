(* Props/C19.v -- the progress bar counts every work item once and ends at the total. *)
From Coq Require Import List Arith Lia Bool String ZArith.
From Mpv Require Import GenObserve Observe ObserveProofs.
Import ListNotations.
Close Scope Z_scope.

(* Schedules: any interleaving of task completions on any worker (each either flushing its local
   count to the shared per-worker counter or keeping it, as the 0.1 s batching decides), forced
   flushes (poison pill, end of lifespan) and handler rounds (bar += sum(counters) - bar).  The
   bodies of comms.task_completed_progress_bar, get_tasks_completed_progress_bar and the handler
   loop are read off the source. *)

(* (1) the displayed count never decreases (sized and unsized inputs) *)
Theorem C19_never_decreases :
  forall n_jobs n sized l1 l2, shown (prun (pinit n_jobs n sized) l1) <= shown (prun (pinit n_jobs n sized) (l1 ++ l2)).
Proof. exact bar_monotone. Qed.
Print Assumptions C19_never_decreases.

(* (2) it never exceeds the number of items really processed, hence never the total; the displayed total, once
   known, is the true number of items *)
Theorem C19_never_exceeds :
  forall n_jobs n sized l, let s := prun (pinit n_jobs n sized) l in
  shown s <= pexec s /\ pexec s <= n /\ total s = n /\ (forall t, tshown s = Some t -> t = n /\ shown s <= t).
Proof. exact bar_bounded. Qed.
Print Assumptions C19_never_exceeds.

(* (3) on completion it equals the total and the true number of items AND completion is signalled: when all n > 0
   items are processed, every worker has done its forced flush and the total is known or announced (in whichever
   order), the next handler round shows n of n and sets the signal the main process and the workers wait for --
   also when everything had been displayed before the total of an unsized input became known *)
Theorem C19_ends_at_total :
  forall n_jobs n sized l, let s := prun (pinit n_jobs n sized) l in
  0 < n -> pexec s = n -> Forall (fun x => x = 0) (loc s) -> (tshown s = Some n \/ upd s = true) ->
  forall s', pstep s PHandler = Some s' -> shown s' = n /\ tshown s' = Some n /\ complete s' = true.
Proof. exact bar_ends_at_total. Qed.
Print Assumptions C19_ends_at_total.

Theorem C19_forced_flush_leaves_nothing :
  forall s w s', pstep s (PForce w) = Some s' -> nth_error (loc s') w = Some 0.
Proof. exact force_flushes. Qed.
Print Assumptions C19_forced_flush_leaves_nothing.

Theorem C19_source_facts :
  batching_as_modelled = true /\ handler_updates_by_difference = true /\ workers_flush_before_leaving = true /\
  counters_zeroed_per_call = true.
Proof. exact (conj batching_spec (conj handler_spec (conj flush_spec zeroed_spec))). Qed.
Print Assumptions C19_source_facts.

Example C19_example :
  let s := prun (pinit 2 3 true) [PTask 0 false; PHandler; PTask 1 true; PHandler; PTask 0 false; PForce 0; PForce 1; PHandler] in
  (shown s, pexec s, loc s, complete s) = (3, 3, [0; 0], true).
Proof. vm_compute. reflexivity. Qed.

(* the unsized input whose items were all displayed before the total became known (the history that hung before the
   repair of the handler's shortcut): completion is signalled *)
Example C19_unsized_example :
  let s := prun (pinit 1 2 false) [PTask 0 true; PTask 0 true; PHandler; PSetTotal; PHandler] in
  (shown s, tshown s, complete s) = (2, Some 2, true).
Proof. vm_compute. reflexivity. Qed.

(* Spec/ChunkSpec.v -- characterising lemmas for the kernels generated from utils.py.
   The long proofs use only these; a source edit that changes a kernel breaks one of them
   first (proved by computation: both sides must be the same program). *)
From Coq Require Import ZArith List Bool Lia.
From Mpv Require Import NumOps GenChunk Chunk.
Import ListNotations.
Open Scope Z_scope.

Section ChunkSpec.
Context {num : Type} (N : numops num) {A : Type}.

(* what the loop does with a chunk once it has been taken *)
Definition body_tail (ilen : option Z) (cs cur : num) (ret : Z) (chunk it : list A)
  : list (list A) * ctl (@cstate num A) :=
  if zlen chunk =? 0 then ([], Stop) else
  let next := (nsub N (nadd N cur cs) (nofZ N (nceil N cur)), ret + zlen chunk, it) in
  match ilen with
  | Some l =>
      if l <? ret + zlen chunk then
        let chunk' := pyslice_to (l - ret) chunk in
        if 0 <? zlen chunk' then ([chunk'], Stop) else ([], Stop)
      else ([chunk], Continue next)
  | None => ([chunk], Continue next)
  end.

Lemma chunk_body_spec is_nd xs ilen cs cur ret it :
  chunk_tasks_body N is_nd xs ilen cs (cur, ret, it) =
  let k := Z.max 1 (nceil N cur) in
  if is_nd then body_tail ilen cs cur ret (pyslice ret (ret + k) xs) it
  else body_tail ilen cs cur ret (take k it) (drop k it).
Proof.
  unfold chunk_tasks_body, body_tail. cbv zeta.
  destruct is_nd, ilen as [l|]; cbn [app];
  repeat match goal with |- context[if ?c then _ else _] => destruct c end; reflexivity.
Qed.

(* chunk_tasks_init: which chunk size the loop starts from *)
Lemma chunk_init_spec has_len (xs : list A) ilen cs ns :
  chunk_tasks_init N has_len xs ilen cs ns =
  match cs, ns with
  | Some c, _ => Ok (c, c, 0, xs)
  | None, None => Err 1
  | None, Some s =>
      match ilen with
      | Some l => let c := ndivZ N l s in Ok (c, c, 0, xs)
      | None => if has_len then let c := ndivZ N (zlen xs) s in Ok (c, c, 0, xs) else Err 1
      end
  end.
Proof. unfold chunk_tasks_init. destruct cs, ns, ilen, has_len; reflexivity. Qed.

(* apply_numpy_chunking: announced count = number of produced items, chunk_size 1, n_splits None *)
Lemma numpy_chunking_spec (xs : list A) ilen cs ns nj :
  numpy_chunking N xs ilen cs ns nj =
  let xs' := match ilen with Some l => pyslice_to l xs | None => xs end in
  let ns' := py_or_optZ ns (match nj with Some j => Some (j * 4) | None => None end) in
  match chunk_tasks N true true xs' (Some (zlen xs')) cs ns' with
  | Ok chunks => Ok (chunks, zlen chunks, 1, None)
  | Err e => Err e
  end.
Proof.
  unfold numpy_chunking, apply_numpy_chunking, make_single_arguments. destruct ilen; cbv zeta;
  match goal with |- context[chunk_tasks ?a ?b ?c ?d ?e ?f ?g] => destruct (chunk_tasks a b c d e f g) end; reflexivity.
Qed.

End ChunkSpec.

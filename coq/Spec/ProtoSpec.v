(* Spec/ProtoSpec.v -- characterising lemmas of the protocol guards generated from pool.py /
   comms.py / worker.py / async_result.py, at the nat arguments the Core model uses them at.
   The long proofs use only these equations. *)
From Coq Require Import List Arith Lia Bool ZArith String.
From Mpv Require Import NumOps GenProto Core.
Import ListNotations.
Close Scope Z_scope.
Open Scope nat_scope.

(* main waits for a result iff something is active and the chunk does not fit under the bound *)
Lemma blocked_spec a l m : blocked a l m = (0 <? a) && (m <? a + l).
Proof.
  unfold blocked, dispatch_wait. cbn [negb andb].
  destruct (0 <? a) eqn:E1, (m <? a + l) eqn:E2;
  repeat match goal with
  | H : (_ <? _) = true |- _ => apply Nat.ltb_lt in H
  | H : (_ <? _) = false |- _ => apply Nat.ltb_ge in H end;
  repeat match goal with |- context[(?x <? ?y)%Z] => destruct (Z.ltb_spec x y) end; simpl; try reflexivity; lia.
Qed.

Lemma predraw_spec a m : predraw a m = (m <? a).
Proof.
  unfold predraw, pre_draw_wait. cbn [negb andb].
  destruct (Nat.ltb_spec m a), (Z.ltb_spec (Z.of_nat m) (Z.of_nat a)); try reflexivity; lia.
Qed.

Lemma map_to_of (l : list nat) : map Z.to_nat (map Z.of_nat l) = l.
Proof. induction l as [|x l IH]; simpl; [reflexivity|]. rewrite Nat2Z.id, IH. reflexivity. Qed.

(* worker selection: round robin by the chunk counter when order_tasks is set or nobody has
   delivered a result yet; otherwise the worker that delivered the oldest unconsumed result *)
Lemma choose_spec c ti lc : 0 < njobs c ->
  choose c ti lc =
  Some (if order c || match lc with [] => true | _ => false end
        then (ti mod njobs c, S ti, lc)
        else match lc with w :: r => (w, ti, r) | [] => (0, ti, []) end).
Proof.
  intros Hn. unfold choose, get_task_worker_id.
  assert (Hz : (zlen (map Z.of_nat lc) =? 0)%Z = match lc with [] => true | _ => false end).
  { destruct lc; [reflexivity|]. unfold zlen. simpl. reflexivity. }
  rewrite Hz. destruct (order c); cbn [orb negb].
  - rewrite map_to_of. rewrite <- Nat2Z.inj_mod, Nat2Z.id.
    replace (Z.to_nat (Z.of_nat ti + 1)) with (S ti) by lia. reflexivity.
  - destruct lc as [|w r]; cbn [negb map].
    + rewrite <- Nat2Z.inj_mod, Nat2Z.id.
      replace (Z.to_nat (Z.of_nat ti + 1)) with (S ti) by lia. reflexivity.
    + rewrite map_to_of, !Nat2Z.id. reflexivity.
Qed.

Lemma alive_guard_spec c n :
  alive_guard c n = match lifespan c with None => true | Some L => n <? L end.
Proof.
  unfold alive_guard, worker_loop_guard, zlife. destruct (lifespan c) as [L|]; simpl; [|reflexivity].
  destruct (Nat.ltb_spec n L), (Z.ltb_spec (Z.of_nat n) (Z.of_nat L)); try reflexivity; lia.
Qed.

Lemma wants_restart_spec c n :
  wants_restart c n = match lifespan c with None => false | Some L => L <=? n end.
Proof.
  unfold wants_restart, restart_condition, zlife. destruct (lifespan c) as [L|]; simpl; [|reflexivity].
  destruct (Nat.leb_spec L n), (Z.leb_spec (Z.of_nat L) (Z.of_nat n)); try reflexivity; lia.
Qed.

Lemma exit_pill_spec c n : exit_pill c n = has_exit c && (0 <? n).
Proof.
  unfold exit_pill, exit_on_pill. f_equal.
  destruct (Nat.ltb_spec 0 n), (Z.ltb_spec 0 (Z.of_nat n)); try reflexivity; lia.
Qed.

Lemma must_wait_spec r a : must_wait r a = negb (r =? a).
Proof.
  unfold must_wait, results_wait. f_equal.
  destruct (Nat.eqb_spec r a), (Z.eqb_spec (Z.of_nat r) (Z.of_nat a)); try reflexivity; lia.
Qed.

Lemma exhausted_spec nt nr : exhausted nt nr = (nr =? nt).
Proof.
  unfold exhausted, iterator_exhausted.
  destruct (Nat.eqb_spec nr nt), (Z.eqb_spec (Z.of_nat nr) (Z.of_nat nt)); try reflexivity; lia.
Qed.

Lemma run_init_guard_spec h d : run_init_guard h d = h && negb d.
Proof. reflexivity. Qed.

(* a new worker instance zeroes BOTH hand-shake counters (threading shares the added counter) *)
Lemma reset_results_spec :
  reset_results_received_resets =
  ["self._results_added[worker_id] = 0"; "self._results_received[worker_id] = 0"]%string.
Proof. reflexivity. Qed.

Global Opaque predraw blocked choose alive_guard wants_restart exit_pill must_wait exhausted.

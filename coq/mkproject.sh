#!/bin/sh
# regenerate _CoqProject (file list) and Makefile
cd "$(dirname "$0")"
{
cat <<'EOP'
-Q Lib Mpv
-Q Gen Mpv
-Q Spec Mpv
-Q Model Mpv
-Q Proofs Mpv
-Q Props Mpv
-arg -w -arg -notation-overridden,-deprecated-hint-without-locality,-deprecated-instance-without-locality
EOP
find Lib Gen Spec Model Proofs Props -name '*.v' 2>/dev/null | sort
} > _CoqProject
coq_makefile -f _CoqProject -o Makefile >/dev/null 2>&1

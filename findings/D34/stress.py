import sys, json, copy
sys.path.insert(0, '/verif')
from lib import runner
sc = json.load(open('/verif/replays/C04_4c7ccac28d.json'))['scenario']
sc['budget'] = 30
scens = []
for i in range(120):
    s = copy.deepcopy(sc); s['id'] = f'w{i}'; scens.append(s)
runner.budget_factor.value = 1.0
recs = runner.run_many(scens, 'c04load', jobs=60)
bad = [r for r in recs if r['status'] != 'done']
print(len(bad), 'of', len(recs), 'not done')
for r in bad[:3]:
    print(r['status'], r['dir'])

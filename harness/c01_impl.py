"""Runs the REAL WorkerPool.imap reorder loop on given arrival orders: imap_unordered is replaced by an iterator
over the given (index, value) pairs; argv[1]: JSON list of arrival index lists; argv[2]: outputs."""
import json
import sys
import types

from mpire import WorkerPool

cases = json.load(open(sys.argv[1]))
out = []
pool = WorkerPool(1)
for arr in cases:
    fake = types.SimpleNamespace(
        _worker_comms=types.SimpleNamespace(signal_keep_order=lambda: None, clear_keep_order=lambda: None),
        pool_params=pool.pool_params,
        imap_unordered=lambda *a, _arr=arr, **k: iter([(i, i * 7 + 1) for i in _arr]))
    got = list(WorkerPool.imap(fake, None, [None] * len(arr)))
    out.append(got)
json.dump(out, open(sys.argv[2], 'w'))

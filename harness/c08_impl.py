"""Runs the REAL comms.WorkerComms._has_worker_timed_out (and the stamp setters / clearers) on the cases
in argv[1] (JSON list of [started, now, timeout]) with the clock replaced by `now`; results to argv[2]."""
import json
import sys
import types

import mpire.comms as comms

cases = json.load(open(sys.argv[1]))
out = []
real_time = comms.time
for st, now, t in cases:
    comms.time = types.SimpleNamespace(time=lambda now=now: float(now), sleep=real_time.sleep)
    try:
        out.append(bool(comms.WorkerComms._has_worker_timed_out(float(st), float(t))))
    finally:
        comms.time = real_time
# the stamps: started = now, completed = 0 (one slot per worker and kind)
wc = comms.WorkerComms(__import__('multiprocessing').get_context('fork'), 2, False)
wc.init_comms()
comms.time = types.SimpleNamespace(time=lambda: 1234.0, sleep=real_time.sleep)
stamps = []
for kind in ('init', 'task', 'exit'):
    getattr(wc, f'signal_worker_{kind}_started')(1)
    a = list(wc._workers_time_task_started)
    getattr(wc, f'signal_worker_{kind}_completed')(1)
    b = list(wc._workers_time_task_started)
    stamps.append([kind, a, b])
comms.time = real_time
json.dump({'results': out, 'stamps': stamps}, open(sys.argv[2], 'w'))

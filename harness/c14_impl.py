"""Runs the REAL mpire.utils.chunk_tasks / apply_numpy_chunking on the cases in argv[1] (JSON) and
writes, per case, the chunk lengths (or the error class) plus the verdict of the direct property
oracle (partition / sizes / count, straight from the property text) to argv[2]."""
import json
import math
import struct
import sys
from fractions import Fraction

import numpy as np
from mpire.utils import chunk_tasks, apply_numpy_chunking


def f_of_bits(b):
    return struct.unpack('>d', struct.pack('>Q', b))[0]


def make_input(kind, n):
    if kind == 'list':
        return list(range(n))
    if kind == 'gen':
        return (i for i in range(n))
    if kind == 'nd':
        return np.arange(n)
    raise ValueError(kind)


def oracle(case, chunks):
    """direct check of the property text on the implementation's output; returns None or a message"""
    n, ilen = case['n'], case['ilen']
    lim = n if ilen is None else min(n, ilen)
    flat = [int(x) for c in chunks for x in c]
    if flat != list(range(lim)):
        return f"concatenation is not the first {lim} elements: {flat[:20]}..."
    if any(len(c) == 0 for c in chunks):
        return "empty chunk"
    lens = [len(c) for c in chunks]
    cs = case['cs']
    if cs is not None:
        if case['cs_is_float']:
            r = f_of_bits(cs)
            lo, hi = math.floor(r), math.ceil(r)
            if any(l not in (lo, hi) for l in lens[:-1]) or (lens and not (0 < lens[-1] <= hi)):
                return f"real chunk_size {r!r}: sizes {lens[:12]} not in {{{lo},{hi}}}"
        else:
            if any(l != cs for l in lens[:-1]) or (lens and not (0 < lens[-1] <= cs)):
                return f"int chunk_size {cs}: sizes {lens[:12]}"
            if len(lens) != -(-lim // cs):
                return f"int chunk_size {cs}: {len(lens)} chunks, expected {-(-lim // cs)}"
    elif case['ns'] is not None and (ilen is None or ilen == n) and case['kind'] != 'gen_nolen':
        s = case['ns']
        if len(lens) != min(n, s):
            return f"n_splits={s} over n={n}: {len(lens)} chunks, expected {min(n, s)}"
        if lens and max(lens) - min(lens) > 1:
            return f"n_splits={s} over n={n}: sizes differ by more than one: {lens[:12]}"
    return None


def run_case(case):
    kind = case['kind']
    cs = case['cs']
    if cs is not None and case['cs_is_float']:
        cs = f_of_bits(cs)
    if case.get('numpy_path'):
        arr = np.arange(case['n'])
        try:
            it, announced, cs2, ns2 = apply_numpy_chunking(arr, case['ilen'], cs, case['ns'], case.get('nj'))
            items = list(it)
        except ValueError:
            return {'lens': [-1], 'oracle': None}
        lens = [len(t[0]) for t in items]
        msg = None
        if announced != len(items):
            msg = f"announced {announced} chunks, produced {len(items)}"
        elif any(len(t) != 1 for t in items) or cs2 != 1 or ns2 is not None:
            msg = "items are not single-argument tuples / chunk_size, n_splits not (1, None)"
        else:
            lim = case['n'] if case['ilen'] is None else min(case['n'], case['ilen'])
            flat = [int(x) for t in items for x in t[0]]
            if flat != list(range(lim)):
                msg = "numpy chunks do not concatenate to the input prefix"
            # n_splits = s (given, or n_jobs * 4 when neither is given) over the lim elements that are used: exactly min(lim, s)
            # chunks whose sizes differ by at most one
            s = case['ns'] if case['ns'] is not None else (case['nj'] * 4 if (cs is None and case.get('nj')) else None)
            if msg is None and cs is None and s is not None:
                if len(lens) != min(lim, s):
                    msg = f"numpy input, n_splits={s} over {lim} elements (n={case['n']}, iterable_len={case['ilen']}): {len(lens)} chunks, expected {min(lim, s)}"
                elif lens and max(lens) - min(lens) > 1:
                    msg = f"numpy input, n_splits={s} over {lim} elements: sizes differ by more than one: {lens[:12]}"
        return {'lens': [announced] + lens, 'oracle': msg}
    inp = make_input('gen' if kind == 'gen_nolen' else kind, case['n'])
    try:
        chunks = list(chunk_tasks(inp, case['ilen'], cs, case['ns']))
    except ValueError as e:
        if 'truth value' in str(e):
            return {'lens': [-3], 'oracle': f"ValueError from numpy truth value: {e}"}
        return {'lens': [-1], 'oracle': None}
    except TypeError:
        return {'lens': [-2], 'oracle': None}
    return {'lens': [len(c) for c in chunks], 'oracle': oracle(case, chunks)}


if __name__ == '__main__':
    cases = json.load(open(sys.argv[1]))
    out = [run_case(c) for c in cases]
    json.dump(out, open(sys.argv[2], 'w'))

"""Runs the REAL insights.WorkerInsights.get_insights on synthetic counter state (argv[1]: JSON list of cases
{durs, args, times: five lists}) with format_seconds replaced by the identity; results to argv[2]."""
import json
import multiprocessing as mp
import sys

import mpire.insights as insights
from mpire.insights import WorkerInsights

insights.format_seconds = lambda s, with_milliseconds=True: s
cases = json.load(open(sys.argv[1]))
out = []
for c in cases:
    n_jobs = len(c['times'][0])
    wi = WorkerInsights(mp.get_context('fork'), n_jobs, False)
    wi.insights_enabled = True
    wi.max_task_duration = [float(x) for x in c['durs']]
    wi.max_task_args = list(c['args'])
    (wi.worker_start_up_time, wi.worker_init_time, wi.worker_waiting_time, wi.worker_working_time, wi.worker_exit_time) = \
        [[float(x) for x in t] for t in c['times']]
    wi.worker_n_completed_tasks = list(c['counts'])
    r = wi.get_insights()
    out.append({'top_d': r['top_5_max_task_durations'], 'top_a': r['top_5_max_task_args'], 'counts': r['n_completed_tasks'],
                'ratios': [r[f'{p}_ratio'] for p in ('start_up', 'init', 'waiting', 'working', 'exit')]})
wi = WorkerInsights(mp.get_context('fork'), 2, False)
json.dump({'results': out, 'disabled': wi.get_insights()}, open(sys.argv[2], 'w'))

"""Runs the REAL comms.WorkerComms.task_completed_progress_bar on the cases in argv[1] with the clock replaced
(`due` = more than the update interval has passed); results (new local count, new shared slot) to argv[2]."""
import json
import multiprocessing as mp
import sys
import types

import mpire.comms as comms

cases = json.load(open(sys.argv[1]))
wc = comms.WorkerComms(mp.get_context('fork'), 2, False)
wc.init_comms()
wc.init_progress_bar() if hasattr(wc, 'init_progress_bar') else None
real_time = comms.time
out = []
for c in cases:
    if wc._tasks_completed_array is None:
        wc._tasks_completed_array = mp.get_context('fork').Array('L', 2, lock=True)
    wc._tasks_completed_array[1] = c['arr']
    last = 1000.0
    now = last + (wc.progress_bar_update_interval * 2 if c['due'] else wc.progress_bar_update_interval / 2)
    comms.time = types.SimpleNamespace(time=lambda now=now: now, sleep=real_time.sleep)
    try:
        _, loc = wc.task_completed_progress_bar(1, last, c['loc'], c['force'])
    finally:
        comms.time = real_time
    out.append([loc, wc._tasks_completed_array[1]])
json.dump({'results': out}, open(sys.argv[2], 'w'))

"""driver.py <scenario.json> <result.json> -- runs ONE scenario on the real WorkerPool.

Started by harness/runner.py in its own session with stdout/stderr in files; a watchdog
(faulthandler) dumps every thread's stack and exits when the scenario exceeds its budget, which
is how a hang is told from a slow run.  Never compares times, pids or addresses itself: it only
records; the oracles live in the checks.
"""
import faulthandler
import json
import os
import signal
import sys
import threading
import time
import traceback


def build_input(call):
    n = call['n']
    elem = call.get('elem', 'scalar')

    base = call.get('base', 0)

    def mk(i):
        i = i + base
        if elem == 'scalar':
            return i
        if elem == 'tuple':
            return (i, i + 1)
        if elem == 'tuple1':
            return (i,)
        if elem == 'dict':
            return {'i': i, 'j': i * 2}
        if elem == 'str':
            return 's%d' % i
        if elem == 'bytes':
            return b'b%d' % i
        if elem == 'list':
            return [i, 7]
        if elem == 'bigtuple':          # a task argument much larger than a pipe buffer
            return (i, 'x' * int(call.get('arg_bytes', 300000)))
        if elem == 'none':
            return None
        raise ValueError(elem)
    kind = call.get('input', 'list')
    extra = call.get('extra_len', 0)         # generator longer than iterable_len
    if kind == 'list':
        return [mk(i) for i in range(n)]
    if kind == 'range':
        return range(base, base + n)
    if kind == 'gen':
        return (mk(i) for i in range(n + extra))
    if kind == 'gen_slow':
        def gs():
            for i in range(n):
                time.sleep(call.get('gen_delay', 0.15))
                yield mk(i)
            time.sleep(call.get('gen_tail', 0.4))
        return gs()
    if kind == 'gen_raising':
        def g():
            for i in range(n):
                if i == call['raise_at']:
                    raise RuntimeError('input iterable broke')
                yield mk(i)
        return g()
    if kind == 'ndarray':
        import numpy as np
        if call.get('ndim', 1) == 2:
            return np.arange(n * 3).reshape(n, 3) + base
        return np.arange(n) + base
    raise ValueError(kind)


def canon_exc(e):
    from userfuncs import canon
    d = {}
    for k, v in sorted(getattr(e, '__dict__', {}).items()):
        try:
            d[k] = canon(v)
        except Exception:
            d[k] = repr(v)
    cause = e.__cause__
    return {'type': type(e).__name__, 'module': type(e).__module__, 'args': repr(e.args), 'dict': repr(d), 'dict_keys': sorted(d),
            'cause_type': type(cause).__name__ if cause is not None else None,
            'cause_text': (str(cause)[:4000] if cause is not None else None)}


def _fd_links():
    out = {}
    for n in os.listdir('/proc/self/fd'):
        try:
            out[n] = os.readlink('/proc/self/fd/' + n)
        except OSError:
            pass
    return out


def leak_snapshot():
    me = os.getpid()
    kids = []
    for p in os.listdir('/proc'):
        if p.isdigit():
            try:
                st = open(f'/proc/{p}/stat').read()
                rp = st.rfind(')')
                fields = st[rp + 2:].split()
                ppid = int(fields[1])
                state = fields[0]
                if ppid == me:
                    cmd = open(f'/proc/{p}/cmdline').read().replace('\0', ' ')
                    kids.append({'pid': int(p), 'state': state, 'cmd': cmd[:120]})
            except (OSError, IndexError, ValueError):
                pass
    try:
        from tqdm import tqdm as _tq
        tl = id(getattr(_tq, '_lock', None)) if getattr(_tq, '_lock', None) is not None else None
    except ImportError:
        tl = None
    return {'children': kids, 'threads': sorted(t.name for t in threading.enumerate()), 'tqdm_lock': tl,
            'n_fds': len(os.listdir('/proc/self/fd')), 'fds': _fd_links(),
            'sigint': repr(signal.getsignal(signal.SIGINT))}


class LineInjector:
    """Delivers SIGINT to this process at a chosen point of the MAIN thread's execution of the library, or records
    which points exist ('record').  Only points at which CPython (3.12) can really run a signal handler are used:
      call|file:func:firstline   entry of a Python function (the RESUME check)
      cret|file:line:name        right after a C function called from that line returned (the check after a call)
      xcall|file:line:name       entry of a Python function of another module (threading, multiprocessing, ...) called from that line
    (an exception raised by a settrace LINE callback is not a faithful stand-in: it can bypass the frame's own
    try blocks; backward-jump check points are therefore only covered by the wall-clock deliveries)
    A handler never runs in the middle of other instructions, so e.g. the exit of a `with lock:` block is atomic."""

    def __init__(self, spec):
        self.spec = spec
        self.hits = {}
        self._loops = {}
        self.fired = False
        self.suffixes = tuple('mpire/' + f for f in spec.get('files', ['pool.py', 'comms.py', 'async_result.py', 'signal.py',
                                                                      'progress_bar.py', 'tqdm_utils.py']))
        self.main = threading.main_thread()

    def _rel(self, code):
        fn = code.co_filename
        return fn[fn.rfind('mpire/') + 6:]

    def _point(self, key):
        self.hits[key] = self.hits.get(key, 0) + 1
        sp = self.spec
        if sp.get('mode') == 'line' and not self.fired and 'at_re' in sp:
            import re
            if re.fullmatch(sp['at_re'], key):
                self.nre = getattr(self, 'nre', 0) + 1
                if self.nre != sp.get('hit', 1):
                    return
            else:
                return
        elif not (sp.get('mode') == 'line' and not self.fired and key == sp.get('at') and self.hits[key] == sp.get('hit', 1)):
            return
        if True:
            self.fired = True
            if sp.get('group'):
                os.killpg(os.getpgid(0), signal.SIGINT)
            else:
                os.kill(os.getpid(), signal.SIGINT)

    def _loop_lines(self, code):
        ll = self._loops.get(code)
        if ll is None:
            import dis
            ins = list(dis.get_instructions(code))
            line_of, line = {}, None
            for i in ins:
                if i.starts_line is not None:
                    line = i.starts_line
                line_of[i.offset] = line
            ll = {line_of.get(i.argval) for i in ins if i.opname == 'JUMP_BACKWARD'}
            self._loops[code] = ll
        return ll

    def _profile(self, frame, event, arg):
        if threading.current_thread() is not self.main:
            return
        code = frame.f_code
        if not code.co_filename.endswith(self.suffixes):
            # a function of another module (threading, multiprocessing, tqdm, ...) entered directly from a line of the library
            back = frame.f_back
            if event == 'call' and back is not None and back.f_code.co_filename.endswith(self.suffixes):
                self._point(f"xcall|{self._rel(back.f_code)}:{back.f_lineno}:{code.co_name}")
            return
        if event == 'call':
            self._point(f"call|{self._rel(code)}:{code.co_name}:{code.co_firstlineno}")
        elif event == 'c_return':
            self._point(f"cret|{self._rel(code)}:{frame.f_lineno}:{getattr(arg, '__name__', '?')}")

    def _local(self, frame, event, arg):
        if event == 'line' and frame.f_lineno in self._loop_lines(frame.f_code):
            self._point(f"loop|{self._rel(frame.f_code)}:{frame.f_lineno}")
        return self._local

    def _global(self, frame, event, arg):
        if frame.f_code.co_filename.endswith(self.suffixes):
            return self._local
        return None

    def __enter__(self):
        sys.setprofile(self._profile)
        return self

    def __exit__(self, *a):
        sys.setprofile(None)


def _custom_sigint_handler(signum, frame):
    raise KeyboardInterrupt()


def layout_bits(pool):
    pp = pool.pool_params
    return ''.join('1' if b else '0' for b in (pp.pass_worker_id, pp.shared_objects is not None, pp.use_worker_state))


def run_call(pool, call, res):
    import userfuncs
    kind = call['kind']
    params = dict(call.get('params', {}))
    dyn = call.get('dynamic_extras')          # pick the function variant matching the pool's CURRENT settings
    bits = layout_bits(pool) if dyn else None
    if call.get('init'):
        params['worker_init'] = getattr(userfuncs, 'init_' + bits) if dyn else userfuncs.init
    if call.get('exit'):
        params['worker_exit'] = getattr(userfuncs, 'exit_' + bits) if dyn else userfuncs.exit_
    if call.get('init_raises'):
        params['worker_init'] = userfuncs.PhaseFail('init', call['init_raises'][0], call['init_raises'][1], bits)
    if call.get('exit_raises'):
        params['worker_exit'] = userfuncs.PhaseFail('exit', call['exit_raises'][0], call['exit_raises'][1], bits)
    func = getattr(userfuncs, call.get('func', 'task') + ('_' + bits if dyn else ''))
    if kind == 'apply_batch' and dyn:
        func = getattr(userfuncs, 'task_' + bits)
    out = {'kind': kind}
    partial = []
    t0 = time.time()
    inj = None
    sig = call.get('sigint')
    try:
        if sig and sig.get('mode') in ('line', 'record'):
            inj = LineInjector(sig)
            inj.__enter__()
        elif sig and sig.get('mode') == 'time':
            def later():
                time.sleep(sig['delay'])
                if out.get('call_over'):          # the call already returned: nothing to interrupt
                    return
                out['sigint_sent_at'] = time.time() - t0
                if sig.get('group'):
                    os.killpg(os.getpgid(0), signal.SIGINT)
                else:
                    os.kill(os.getpid(), signal.SIGINT)
            threading.Thread(target=later, daemon=True).start()
        if kind in ('map', 'map_unordered', 'imap', 'imap_unordered'):
            data = build_input(call)
            if call.get('nested_misuse'):
                # start a lazy call, take one result, then call another map on the same pool while it is running
                outer = pool.imap_unordered(func, data, **params)
                first = next(outer)
                try:
                    pool.map_unordered(func, [1, 2, 3])
                finally:
                    outer.close()
                raise AssertionError('nested map did not raise')
            consume = call.get('consume')        # for lazy variants: how many items to take, then close
            if kind in ('imap', 'imap_unordered'):
                gen = getattr(pool, kind)(func, data, **params)
                got = partial
                if consume is None:
                    inside = call.get('apply_inside')      # apply tasks submitted while this lazy call is in flight
                    for x in gen:
                        got.append(x)
                        if call.get('consumer_sleep'):
                            time.sleep(call['consumer_sleep'])
                        if inside and len(got) == inside['after']:
                            asy = [pool.apply_async(userfuncs.task, tuple(j['args'])) for j in inside['jobs']]
                            vals = []
                            for a in asy:
                                try:
                                    v = a.get(timeout=inside.get('get_timeout', 20))
                                    vals.append(['ok', v if (isinstance(v, list) and v and v[0] in ('R', 'Q')) else userfuncs.canon(v)])
                                except BaseException as e:       # noqa
                                    vals.append(['exc', type(e).__name__, repr(e.args)[:300]])
                            out['apply_inside'] = vals
                else:
                    for _ in range(consume):
                        got.append(next(gen))
                    gen.close()
                    out['closed_early'] = True
                value = got
            else:
                value = getattr(pool, kind)(func, data, **params)
            try:
                import numpy as np
                if isinstance(value, np.ndarray):
                    value = ['nd', value.tolist()]
                else:
                    value = [userfuncs.canon(v) if not (isinstance(v, list) and v and v[0] in ('R', 'Q')) else v for v in value]
            except ImportError:
                pass
            out['value'] = value
        elif kind == 'apply_batch':
            jobs = call['jobs']          # list of {args, kwargs, timeout?, get: bool}
            log = []
            asyncs = []
            for j in jobs:
                def cb(v, _j=j):
                    log.append(['cb', _j['id'], v if (isinstance(v, list) and v and v[0] in ('R', 'Q')) else userfuncs.canon(v)])

                def ecb(e, _j=j):
                    log.append(['ecb', _j['id'], type(e).__name__, repr(e.args)])
                    if _j.get('ecb_sleep'):
                        time.sleep(_j['ecb_sleep'])
                kw = {k: params[k] for k in ('worker_init', 'worker_exit', 'worker_init_timeout', 'worker_exit_timeout') if k in params}
                if j.get('timeout') is not None:
                    kw['task_timeout'] = j['timeout']
                has_cb, has_ecb = j.get('cbs', [True, True])
                asyncs.append(pool.apply_async(func, tuple(j.get('args', ())), j.get('kwargs'), callback=cb if has_cb else None,
                                               error_callback=ecb if has_ecb else None, **kw))
            if call.get('fire_and_forget'):
                # the tasks are still in flight when the next call starts; they are collected by that call's stop_and_join
                out['value'] = None
                out['outcome'] = 'ok'
                out['call_over'] = True
                out['wall'] = time.time() - t0
                res['calls'].append(out)
                return out
            if call.get('join_first'):
                pool.stop_and_join()
            vals = []
            for j, a in zip(jobs, asyncs):
                try:
                    v = a.get(timeout=call.get('get_timeout', 60))
                    vals.append(['ok', v if (isinstance(v, list) and v and v[0] in ('R', 'Q')) else userfuncs.canon(v)])
                except BaseException as e:       # noqa
                    vals.append(['exc', type(e).__name__, repr(e.args)])
            if not call.get('join_first') and not call.get('no_join'):
                pool.stop_and_join()
            out['value'] = vals
            out['ready'] = [a.ready() for a in asyncs]
            out['callbacks'] = log
        elif kind == 'apply_burst':
            # many quick apply tasks without a timeout (the job cache grows and shrinks all the time), then one task that
            # overruns a timeout by far
            gates = [pool.apply_async(userfuncs.gate, (call.get('gate', 1.0),)) for _ in range(pool.pool_params.n_jobs)]
            rs = [pool.apply_async(userfuncs.quick, (i,)) for i in range(call['burst'])]
            for g in gates:
                g.get(timeout=60)
            bad = sum(1 for i, r in enumerate(rs) if r.get(timeout=120) != i)
            del rs
            time.sleep(2 * call['timeout'])
            t1 = time.time()
            r = pool.apply_async(userfuncs.gate, (60,), task_timeout=call['timeout'])
            r.wait(call.get('max_wait', 10))
            out['burst'] = {'wrong': bad, 'ready': r.ready(), 'elapsed': time.time() - t1}
            if r.ready():
                try:
                    r.get()
                    out['burst']['result'] = 'returned'
                except BaseException as e:      # noqa
                    out['burst']['result'] = type(e).__name__
            pool.terminate()
        elif kind == 'lookahead':
            # counting wrappers around the input generator and the consumer loop
            n = call['n']
            drawn = [0]

            def counting():
                for i in range(n + call.get('extra', 0)):          # extra: the input is LONGER than the iterable_len given
                    drawn[0] += 1
                    yield i
            p2 = dict(params)
            if call.get('known_len', True):
                p2['iterable_len'] = n
            gen = getattr(pool, call.get('variant', 'imap_unordered'))(func, counting(), **p2)
            delivered = 0
            worst = 0
            idle_draws = 0
            pattern = call.get('consumer', [0.0])
            got = []
            while True:
                before = drawn[0]
                try:
                    x = next(gen)
                except StopIteration:
                    break
                delivered += 1
                got.append(x)
                # ordered imap buffers out-of-order results: only the unordered variant is measured for the bound
                worst = max(worst, drawn[0] - delivered)
                after = drawn[0]
                d = pattern[delivered % len(pattern)]
                if d:
                    time.sleep(d)
                if drawn[0] != after:
                    idle_draws += 1          # the input advanced while the consumer was not asking
            worst = max(worst, drawn[0] - delivered)          # ... and nothing more is drawn once everything was delivered
            out['value'] = got
            out['lookahead'] = {'worst': worst, 'idle_draws': idle_draws, 'drawn': drawn[0], 'delivered': delivered}
        elif kind == 'setter':
            getattr(pool, call['name'])(*call.get('args', []))
            out['value'] = None
        elif kind == 'stop_and_join':
            pool.stop_and_join()
            if call.get('snapshot_after'):
                time.sleep(0.1)
                out['after_call'] = leak_snapshot()
        elif kind == 'terminate':
            pool.terminate()
            if call.get('snapshot_after'):
                time.sleep(0.1)
                out['after_call'] = leak_snapshot()
        elif kind == 'sleep':
            time.sleep(call['s'])
        elif kind == 'touch':
            open(call['path'], 'w').close()
        elif kind == 'kill_idle_worker':
            # SIGKILL worker w of an idle (kept-alive / apply) pool
            idx = call['worker'] % len(pool._workers)
            w = pool._workers[idx]
            # the start-up window of a worker (before it announced itself) is outside the property: wait until the victim
            # is up and idle
            t_end = time.time() + 15
            while time.time() < t_end and not pool._worker_comms.is_worker_alive(idx):
                time.sleep(0.02)
            time.sleep(0.15)
            out['killed_pid'] = w.pid
            os.kill(w.pid, signal.SIGKILL)
            time.sleep(call.get('settle', 0.5))
        else:
            raise ValueError('unknown call kind ' + kind)
        out['call_over'] = True
        out['outcome'] = 'ok'
    except BaseException as e:      # noqa: the outcome of the call IS the datum
        out['call_over'] = True
        if inj is not None:
            inj.__exit__()
        if sig:
            out['at_raise'] = leak_snapshot()          # what is still alive at the moment the exception reaches the caller
        out['outcome'] = 'exc'
        out['exc'] = canon_exc(e)
        out['partial'] = [v if (isinstance(v, list) and v and v[0] in ('R', 'Q')) else userfuncs.canon(v) for v in partial]
        out['tb'] = traceback.format_exc()[-3000:]
    out['wall'] = time.time() - t0
    if inj is not None:
        inj.__exit__()
        out['fired'] = inj.fired
        if sig.get('mode') == 'record':
            out['lines'] = inj.hits
    if call.get('want_exit_results'):
        try:
            out['exit_results'] = [userfuncs.canon(v)[1][:3] if isinstance(v, list) else repr(v) for v in pool.get_exit_results()]
        except Exception as e:
            out['exit_results_error'] = repr(e)
    if call.get('want_insights'):
        try:
            out['insights'] = pool.get_insights()
        except Exception as e:
            out['insights_error'] = repr(e)
    res['calls'].append(out)
    return out


def main():
    scen = json.load(open(sys.argv[1]))
    result_path = sys.argv[2]
    signal.signal(signal.SIGINT, signal.default_int_handler)
    budget = scen.get('budget', 60)
    stackfile = open(result_path + '.stacks', 'w')
    faulthandler.dump_traceback_later(budget, exit=True, file=stackfile)

    def child_dump():
        # shortly before the watchdog fires: ask every child for its stacks, record which children exist
        time.sleep(max(budget - 2, 1))
        snap = leak_snapshot()
        for c in snap['children']:
            try:
                c['wchan'] = open(f"/proc/{c['pid']}/wchan").read()
                os.kill(c['pid'], signal.SIGUSR2)
            except OSError:
                pass
        with open(result_path + '.children', 'w') as fh:
            json.dump(snap, fh)
    threading.Thread(target=child_dump, daemon=True).start()
    res = {'id': scen.get('id'), 'calls': [], 'status': 'started'}

    def flush():
        with open(result_path + '.tmp', 'w') as fh:
            json.dump(res, fh, default=repr)
        os.replace(result_path + '.tmp', result_path)
    flush()
    from mpire import WorkerPool
    import userfuncs     # noqa
    warm = scen.get('warmup')
    if warm:
        methods = warm if isinstance(warm, list) else [scen['pool'].get('start_method', 'fork')]
        for m in methods:
            with WorkerPool(2, start_method=m, enable_insights=bool(scen.get('warm_insights'))) as p:
                p.map(userfuncs.task, range(4), progress_bar=bool(scen.get('warm_progress_bar')))
            p = None
        import gc
        gc.collect()
        time.sleep(0.2)
        disp = scen.get('sigint_disposition')
        if disp == 'SIG_DFL':
            signal.signal(signal.SIGINT, signal.SIG_DFL)
        elif disp == 'SIG_IGN':
            signal.signal(signal.SIGINT, signal.SIG_IGN)
        elif disp == 'custom':
            signal.signal(signal.SIGINT, _custom_sigint_handler)
        res['baseline'] = leak_snapshot()
    if scen.get('shapes'):
        # which exception shapes can be transported by which pickler (decided without mpire)
        import pickle
        try:
            import dill
        except ImportError:
            dill = None
        tr = {}
        for name in scen['shapes']:
            e = userfuncs.make_exception(name, 0)
            row = {}
            for pname, pk in (('pickle', pickle), ('dill', dill)):
                if pk is None:
                    continue
                try:
                    pk.dumps(type(e)); pk.dumps(e.args); pk.dumps(e.__dict__)
                    row[pname] = True
                except Exception:
                    row[pname] = False
            row['args'] = repr(e.args)
            row['type'] = type(e).__name__
            row['repr'] = repr(e)
            row['dict_keys'] = sorted(e.__dict__)
            tr[name] = row
        res['transport'] = tr
    if 'cycles' in scen:
        # C05: several pools one after the other in THIS process, each left in a different way
        import gc
        res['cycles'] = []
        for ci, cyc in enumerate(scen['cycles']):
            rec = {'cause': cyc.get('cause'), 'calls': []}
            sub = {'calls': rec['calls']}
            try:
                pool = WorkerPool(**cyc['pool'])
                with pool:
                    for call in cyc['calls']:
                        run_call(pool, call, sub)
                    rec['inside'] = leak_snapshot()
            except BaseException as e:      # noqa
                rec['pool_exc'] = canon_exc(e)
            time.sleep(cyc.get('settle', 0.15))
            rec['after_exit'] = leak_snapshot()
            pool = None
            gc.collect()
            # the store behind get_insights() is shut down when the pool object is released: give it a moment
            t_end = time.time() + 2.0
            while time.time() < t_end:
                time.sleep(0.1)
                snap = leak_snapshot()
                if not [c for c in snap['children'] if c['state'] != 'Z' and 'resource_tracker import main' not in c['cmd']
                        and 'forkserver import main' not in c['cmd']]:
                    break
            rec['after_release'] = leak_snapshot()
            res['cycles'].append(rec)
            flush()
        res['status'] = 'done'
        flush()
        faulthandler.cancel_dump_traceback_later()
        return
    pool_kw = dict(scen['pool'])
    try:
        pool = WorkerPool(**pool_kw)
        with pool:
            for call in scen['calls']:
                run_call(pool, call, res)
                flush()
            if scen.get('snapshot_inside'):
                res['inside'] = leak_snapshot()
    except BaseException as e:      # noqa
        res['pool_exc'] = canon_exc(e)
        res['pool_tb'] = traceback.format_exc()[-3000:]
    if scen.get('want_leaks'):
        time.sleep(scen.get('settle', 0.2))
        res['after_exit'] = leak_snapshot()
        pool = None
        import gc
        gc.collect()
        time.sleep(0.05)
        res['after_release'] = leak_snapshot()
    res['status'] = 'done'
    flush()
    faulthandler.cancel_dump_traceback_later()


if __name__ == '__main__':
    main()

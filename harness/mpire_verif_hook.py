"""Instrumentation installed into mpire when MPIRE_VERIF=1 (see the guarded hook at the end of
mpire/__init__.py).  Everything here is outside the repository.

* every worker instance gets a unique token; user functions read it with current_instance()
* per-actor event files  $MPIRE_VERIF_DIR/<pid>.<tid>.jsonl  (one O_APPEND write per event, no
  global order is recorded or assumed)
* optional plan ($MPIRE_VERIF_PLAN, JSON list of rules): at the n-th call of a wrapped method by
  a matching actor: sleep, SIGKILL the calling process, or wait until a marker file exists.
"""
import functools
import json
import os
import signal
import threading
import time

_DIR = os.environ.get('MPIRE_VERIF_DIR')
_PLAN = json.loads(os.environ.get('MPIRE_VERIF_PLAN', '[]') or '[]')
_TRACE = os.environ.get('MPIRE_VERIF_TRACE', '1') == '1'
_local = threading.local()
_fds = {}
_counts = {}
_counts_lock = threading.Lock()
_installed = False


def _fd():
    key = (os.getpid(), threading.get_ident())
    fd = _fds.get(key)
    if fd is None:
        fd = os.open(os.path.join(_DIR, f"{key[0]}.{key[1]}.jsonl"), os.O_WRONLY | os.O_CREAT | os.O_APPEND, 0o644)
        _fds[key] = fd
    return fd


def log_event(kind, **fields):
    if not _DIR:
        return
    rec = dict(k=kind, pid=os.getpid(), tid=threading.get_ident(), t=time.monotonic(), inst=current_instance(), **fields)
    try:
        os.write(_fd(), (json.dumps(rec, default=repr) + "\n").encode())
    except OSError:
        pass


def register_stack_dump():
    """SIGUSR2 -> all thread stacks of THIS process into $MPIRE_VERIF_DIR/stacks.<pid> (diagnostics for hangs)"""
    if not _DIR:
        return
    try:
        import faulthandler
        fh = open(os.path.join(_DIR, f"stacks.{os.getpid()}"), 'w')
        faulthandler.register(signal.SIGUSR2, file=fh, all_threads=True, chain=False)
        _fds[('stacks', os.getpid())] = fh
    except (OSError, ValueError, AttributeError, RuntimeError):
        pass


def current_instance():
    return getattr(_local, 'token', None)


def current_worker_id():
    return getattr(_local, 'worker_id', None)


def _apply_plan(actor, method, worker_id):
    if not _PLAN:
        return
    for i, rule in enumerate(_PLAN):
        if rule.get('method') != method:
            continue
        if rule.get('actor') not in (None, actor):
            continue
        if rule.get('worker_id') is not None and rule.get('worker_id') != worker_id:
            continue
        if rule.get('if_file') and not os.path.exists(rule['if_file']):
            continue
        key = (i, os.getpid() if rule.get('per_process') else 0)
        with _counts_lock:
            _counts[key] = _counts.get(key, 0) + 1
            n = _counts[key]
        nth = rule.get('nth')
        if nth is not None and n != nth:
            continue
        act = rule.get('action', '')
        log_event('plan', rule=i, method=method, action=act)
        if act.startswith('sleep:'):
            time.sleep(float(act.split(':', 1)[1]))
        elif act == 'kill':
            os.kill(os.getpid(), signal.SIGKILL)
        elif act == 'qkill':         # let the feeder threads quiesce first
            time.sleep(0.3)
            os.kill(os.getpid(), signal.SIGKILL)
        elif act.startswith('wait_file:'):
            path = act.split(':', 1)[1]
            t0 = time.time()
            while not os.path.exists(path) and time.time() - t0 < float(rule.get('max_wait', 10)):
                time.sleep(0.005)
        elif act.startswith('touch:'):
            open(act.split(':', 1)[1], 'w').close()


def _actor():
    if current_instance() is not None:
        return 'worker'
    name = threading.current_thread().name
    if threading.current_thread() is threading.main_thread():
        return 'main'
    return 'thread:' + name


def _wrap(cls, name, describe=None, post=None):
    orig = getattr(cls, name)

    @functools.wraps(orig)
    def wrapper(self, *a, **kw):
        actor = _actor()
        wid = a[0] if a and isinstance(a[0], int) and name not in ('add_task', 'signal_exception_thrown') else None
        _apply_plan(actor, name, current_worker_id() if actor == 'worker' else wid)
        if _TRACE and describe is not None:
            try:
                d = describe(self, a, kw)
            except Exception as e:      # never let instrumentation change behaviour
                d = {'describe_error': repr(e)}
        else:
            d = None
        res = orig(self, *a, **kw)
        if _TRACE and (d is not None or post is not None):
            extra = {}
            if post is not None:
                try:
                    extra = post(self, a, kw, res)
                except Exception as e:
                    extra = {'post_error': repr(e)}
            log_event('call', m=name, actor=actor, **(d or {}), **extra)
        return res
    setattr(cls, name, wrapper)


def _task_kind(res):
    from mpire import comms
    if res is None:
        return {'got': 'none'}
    if isinstance(res, str):
        return {'got': {comms.POISON_PILL: 'pill', comms.NON_LETHAL_POISON_PILL: 'nlpill',
                        comms.NEW_MAP_PARAMS_PILL: 'params', comms.APPLY_PILL: 'apply'}.get(res, 'str')}
    if isinstance(res, tuple) and len(res) == 2 and isinstance(res[0], int):
        try:
            return {'got': 'chunk', 'job': res[0], 'len': len(res[1])}
        except TypeError:
            return {'got': 'chunk', 'job': res[0]}
    return {'got': type(res).__name__}


def install():
    global _installed
    if _installed:
        return
    _installed = True
    from mpire import comms as comms_mod, worker as worker_mod
    WC = comms_mod.WorkerComms
    AW = worker_mod.AbstractWorker

    orig_run = AW.run

    @functools.wraps(orig_run)
    def run(self):
        _local.token = f"{self.worker_id}:{os.getpid()}:{threading.get_ident()}:{time.monotonic_ns()}"
        _local.worker_id = self.worker_id
        if threading.current_thread() is threading.main_thread():
            register_stack_dump()
        log_event('instance_start', worker_id=self.worker_id)
        try:
            return orig_run(self)
        finally:
            log_event('instance_end', worker_id=self.worker_id)
            _local.token = None
    AW.run = run

    wid0 = lambda self, a, kw: {'w': a[0] if a else kw.get('worker_id')}
    _wrap(WC, 'get_task', wid0, lambda self, a, kw, res: _task_kind(res))
    _wrap(WC, 'task_done', wid0)
    _wrap(WC, 'add_results', lambda self, a, kw: {'w': a[0], 'n': len(a[1]),
                                                    'jobs': sorted({r[0] for r in a[1] if r[0] is not None}),
                                                    'ok': all(bool(r[1]) for r in a[1])})
    _wrap(WC, 'signal_worker_alive', wid0)
    _wrap(WC, 'signal_worker_dead', wid0)
    _wrap(WC, 'signal_worker_restart', wid0)
    _wrap(WC, 'reset_results_received', wid0)
    _wrap(WC, 'wait_for_all_results_received', wid0)
    _wrap(WC, 'add_task', lambda self, a, kw: {
        'job': a[0], 'wid_arg': (a[2] if len(a) > 2 else kw.get('worker_id')),
        'what': ('chunk' if a[0] is not None and not isinstance(a[1], str) and not (isinstance(a[1], tuple) and len(a[1]) == 2 and callable(a[1][0])) else
                 (_task_kind(a[1])['got'] if isinstance(a[1], str) else type(a[1]).__name__)),
        'len': (len(a[1]) if a[0] is not None and hasattr(a[1], '__len__') else None),
        'task_idx': self._task_idx, 'last': list(self._last_completed_task_worker_id), 'order': self.order_tasks})
    _wrap(WC, '_get_task_worker_id', None, lambda self, a, kw, res: {'chosen': res, 'arg': (a[0] if a else None)})
    _wrap(WC, 'signal_exception_thrown', lambda self, a, kw: {'job': a[0]})
    _wrap(WC, 'insert_poison_pill', lambda self, a, kw: {})
    _wrap(WC, 'insert_non_lethal_poison_pill', lambda self, a, kw: {})
    _wrap(WC, 'add_new_map_params', lambda self, a, kw: {})
    _wrap(WC, 'reset_worker_restart', wid0)
    _wrap(WC, 'init_comms', lambda self, a, kw: {})
    _wrap(WC, 'reset_progress', lambda self, a, kw: {})
    # what the progress bar displays: every update of the bar object, whatever its style
    try:
        from mpire import tqdm_utils
        for cls in {tqdm_utils.TqdmMpire} | {c for c in vars(tqdm_utils).values()
                                              if isinstance(c, type) and issubclass(c, tqdm_utils.TqdmMpire)}:
            for meth in ('update', 'update_total', 'final_refresh'):
                if meth in vars(cls):
                    def mk(orig, meth):
                        @functools.wraps(orig)
                        def w(self, *a, **kw):
                            r = orig(self, *a, **kw)
                            if _TRACE:
                                log_event('bar', m=meth, n=getattr(self, 'n', None), total=getattr(self, 'total', None),
                                          bar=id(self), arg=(a[0] if a and isinstance(a[0], int) else None))
                            return r
                        return w
                    setattr(cls, meth, mk(vars(cls)[meth], meth))
        from mpire import progress_bar as pb_mod
        orig_h = pb_mod.ProgressBarHandler._progress_bar_handler

        @functools.wraps(orig_h)
        def handler(self, *a, **kw):
            log_event('bar_start')
            return orig_h(self, *a, **kw)
        pb_mod.ProgressBarHandler._progress_bar_handler = handler
    except Exception as e:       # instrumentation must never break the library
        log_event('hook_error', what=repr(e))
    if any(r.get('method') == 'is_worker_alive' for r in _PLAN):
        _wrap(WC, 'is_worker_alive', None)

"""User functions for the scenarios (importable, hence picklable under fork/forkserver/spawn).

A function logs what it was called with (through the hook's per-actor event file) and returns a
canonical description of its task arguments, so that the result of a call identifies exactly how
the function was invoked.  The extras the pool prepends (worker id, shared objects, worker
state) are described by $VERIF_EXTRAS, e.g. "wid,shared,state" (inherited by worker processes).
Behaviour (raise / sleep / block / die at a given task) comes from $VERIF_BEHAVIOUR (JSON).
"""
import json
import os
import signal
import time

try:
    import mpire_verif_hook as hook
except ImportError:          # hook off: functions still work, nothing is logged
    hook = None

EXTRAS = [e for e in os.environ.get('VERIF_EXTRAS', '').split(',') if e]
BEHAVIOUR = json.loads(os.environ.get('VERIF_BEHAVIOUR', '{}') or '{}')


class CustomError(Exception):
    def __init__(self, a, b):
        super().__init__(a, b)
        self.a, self.b = a, b


class CtorError(Exception):
    """the constructor does not accept the instance's own .args (a classic: cannot be rebuilt by calling the class)"""
    def __init__(self, a, b):
        super().__init__(f"{a}-{b}")
        self.a = a


class AttrError(ValueError):
    pass


class CustomBase(BaseException):
    pass


class SlowArg:
    def __init__(self, key):
        self.key = key

    def __reduce__(self):
        time.sleep(0.3)
        return (SlowArg, (self.key,))

    def __repr__(self):
        return f'SlowArg({self.key})'


def _log(kind, **kw):
    if hook is not None:
        hook.log_event(kind, **kw)


def canon(v):
    try:
        import numpy as np
        if isinstance(v, np.ndarray):
            return ['nd', v.tolist()]
        if isinstance(v, np.generic):
            return v.item()
    except ImportError:
        pass
    if isinstance(v, (list, tuple)):
        return [type(v).__name__, [canon(x) for x in v]]
    if isinstance(v, dict):
        return ['dict', sorted((str(k), canon(x)) for k, x in v.items())]
    if isinstance(v, bytes):
        return ['bytes', v.decode('latin1')]
    return v


def split_extras(args, layout=None):
    ex = {}
    args = list(args)
    for name in (EXTRAS if layout is None else layout):
        ex[name] = args.pop(0)
    return ex, tuple(args)


def _describe_extras(ex):
    d = {}
    if 'wid' in ex:
        d['wid'] = ex['wid']
    if 'shared' in ex:
        d['shared'] = canon(ex['shared'])
    if 'state' in ex:
        st = ex['state']
        d['state_id'] = id(st)
        d['state_token'] = st.get('token')
        d['state_calls'] = st.get('calls', 0)
    return d


def _misbehave(phase, key):
    """key: task index (first positional scalar) or None for init/exit"""
    for b in BEHAVIOUR.get(phase, []):
        if b.get('at') is not None and b.get('at') != key:
            continue
        if b.get('worker') is not None and hook is not None and b['worker'] != hook.current_worker_id():
            continue
        if b.get('if_file') and not os.path.exists(b['if_file']):
            continue
        act = b['do']
        if act == 'touch':
            open(b['path'], 'w').close()
        elif act == 'sleep':
            time.sleep(b['s'])
        elif act == 'block':
            _log('blocking', phase=phase, key=key, s=b.get('s', 3600))
            time.sleep(b.get('s', 3600))
        elif act == 'die':
            _log('dying', phase=phase, key=key)
            time.sleep(b.get('quiesce', 0.3))        # let the queue feeder threads finish what they are sending
            os.kill(os.getpid(), signal.SIGKILL)
        elif act == 'raise':
            _log('raised', phase=phase, exc=b.get('exc', 'ValueError'), key=key)
            raise make_exception(b.get('exc', 'ValueError'), key)
        elif act == 'busy':
            t0 = time.time()
            while time.time() - t0 < b['s']:
                pass


def make_exception(name, key):
    if name == 'ValueError':
        return ValueError('boom', key)
    if name == 'CustomError':
        return CustomError('custom', key)
    if name == 'CtorArgs':
        return CtorError('ctor', key)
    if name == 'AttrError':
        e = AttrError('with attrs')
        e.extra = {'key': key}
        e.code = 42
        return e
    if name == 'SystemExit':
        return SystemExit(3)
    if name == 'KeyboardInterrupt':
        return KeyboardInterrupt()
    if name == 'Unpicklable':
        import threading
        e = ValueError('holds a lock')
        e.lock = threading.Lock()
        return e
    if name == 'LambdaAttr':
        e = ValueError('holds a lambda')
        e.fn = lambda: 1
        return e
    if name == 'Cancelled':
        import asyncio
        return asyncio.CancelledError('cancelled', key)
    if name == 'BaseExc':
        return CustomBase('base', key)
    if name == 'LocalClass':          # a class only dill can pickle (by value)
        def mk():
            class LocalError(Exception):
                pass
            return LocalError
        return mk()('local', key)
    if name == 'SlowPickle':          # an argument that takes a while to pickle: the exception object arrives late
        return ValueError(SlowArg(key))
    if name == 'NestedArgs':
        return ValueError({'k': [key, (1, 2)]}, 'x' * 50, key)
    raise RuntimeError('unknown exception spec ' + name)


def _touch_state(ex):
    if 'state' in ex:
        st = ex['state']
        if 'token' not in st:
            st['token'] = hook.current_instance() if hook is not None else None
        st['calls'] = st.get('calls', 0) + 1


def task(*args, _layout=None, _fn='task', **kwargs):
    ex, targs = split_extras(args, _layout)
    key = targs[0] if targs and isinstance(targs[0], int) else (kwargs.get('i') if kwargs else None)
    _log('task', fn=_fn, args=canon(targs), kwargs=canon(kwargs), **_describe_extras(ex))
    _touch_state(ex)
    _misbehave('task', key)
    d = float(os.environ.get('VERIF_TASK_SLEEP', '0') or 0)
    if d:
        time.sleep(d)
    if 'shared' in ex:
        return ['R', canon(targs), canon(kwargs), ['S', canon(ex['shared'])]]
    return ['R', canon(targs), canon(kwargs)]


def task2(*args, _layout=None, **kwargs):
    r = task(*args, _layout=_layout, _fn='task2', **kwargs)
    r[0] = 'Q'
    return r


def task_big(*args, **kwargs):
    r = task(*args, **kwargs)
    return [r, 'x' * int(os.environ.get('VERIF_PAYLOAD', '200000'))]


def task_np(*args):
    ex, targs = split_extras(args)
    (chunk,) = targs
    _log('task', np_len=int(len(chunk)), first=(chunk.flat[0].item() if chunk.size else None), **_describe_extras(ex))
    _touch_state(ex)
    _misbehave('task', int(chunk.flat[0]) if chunk.size else None)
    return chunk * 2


class PhaseFail:
    """picklable callable: worker_init / worker_exit that raises a given exception (distinct per call)"""

    def __init__(self, phase, exc, tag, bits=None):
        self.phase, self.exc, self.tag, self.bits = phase, exc, tag, bits

    def __call__(self, *args):
        layout = None if self.bits is None else [n for n, b in zip(('wid', 'shared', 'state'), self.bits) if b == '1']
        ex, targs = split_extras(args, layout)
        _log(self.phase, args=canon(targs), **_describe_extras(ex))
        _log('raised', phase=self.phase, exc=self.exc, key=self.tag)
        raise make_exception(self.exc, self.tag)


def init(*args, _layout=None):
    ex, targs = split_extras(args, _layout)
    _log('init', args=canon(targs), **_describe_extras(ex))
    _touch_state(ex)
    _misbehave('init', None)


def exit_(*args, _layout=None):
    ex, targs = split_extras(args, _layout)
    _log('exit', args=canon(targs), **_describe_extras(ex))
    _misbehave('exit', None)
    val = ['E', hook.current_instance() if hook is not None else None, ex['state'].get('calls') if 'state' in ex else None]
    pay = int(os.environ.get('VERIF_EXIT_PAYLOAD', '0') or 0)
    if pay:
        val.append('y' * pay)
    _log('exit_value', value=val[:3])
    return val


# one module-level (hence picklable) variant per extras layout, for histories in which the pool
# settings change between calls: task_101 = worker id and worker state are prepended, etc.
def _variant(base, bits):
    layout = [n for n, b in zip(('wid', 'shared', 'state'), bits) if b == '1']

    def f(*a, **k):
        return base(*a, _layout=layout, **k)
    f.__name__ = f.__qualname__ = f"{base.__name__.rstrip('_')}_{bits}"
    return f


for _b in ('000', '001', '010', '011', '100', '101', '110', '111'):
    for _base in (task, task2, init, exit_):
        _f = _variant(_base, _b)
        globals()[_f.__name__] = _f


def quick(x):
    return x


def gate(seconds):
    time.sleep(seconds)
    return -1

"""shared plumbing for the checks: paths, build of the Coq development, evaluation of model
definitions inside Coq (cases.v + vm_compute), evidence and known-findings handling."""
import fcntl
import hashlib
import json
import os
import shutil
import re
import subprocess
import sys
import time

VERIF = os.path.dirname(os.path.dirname(os.path.abspath(__file__)))
REPO = os.environ.get('VERIF_REPO', '/repo')
COQ = os.path.join(VERIF, 'coq')
PY = '/venv/bin/python'
WORK = os.path.join(VERIF, '_work')          # scratch (ignored by git), never /tmp
os.makedirs(WORK, exist_ok=True)
sys.path.insert(0, os.path.join(VERIF, 'tools'))

QARGS = ['-Q', 'Lib', 'Mpv', '-Q', 'Gen', 'Mpv', '-Q', 'Spec', 'Mpv', '-Q', 'Model', 'Mpv',
         '-Q', 'Proofs', 'Mpv', '-Q', 'Props', 'Mpv', '-w', '-notation-overridden,-deprecated-hint-without-locality']

TRUSTED_BASE_COMMON = [
    "Coq 8.16.1 kernel (coqc), vm_compute; no native_compute",
    "tools/py2v.py + tools/kernels.py: Python-ast -> Gallina translator on its enumerated subset (fail closed), "
    "validated on every run by the kernel differential against the real Python functions",
    "Lib/NumOps.v: rendering of Python int arithmetic, slicing, Optional values",
    "hand-written models in coq/Model (skeleton, modelled rather than verified) tied to the code by generated "
    "kernels, structural Spec lemmas and the correspondence runs of this check",
    "CPython 3.12.1 and the standard multiprocessing/threading primitives behave as documented",
]


class Lock:
    def __init__(self, name):
        self.path = os.path.join(WORK, name + '.lock')

    def __enter__(self):
        self.fh = open(self.path, 'w')
        fcntl.flock(self.fh, fcntl.LOCK_EX)
        return self

    def __exit__(self, *a):
        fcntl.flock(self.fh, fcntl.LOCK_UN)
        self.fh.close()


def sh(cmd, cwd=None, timeout=None, env=None):
    p = subprocess.run(cmd, cwd=cwd, timeout=timeout, env=env, stdout=subprocess.PIPE, stderr=subprocess.STDOUT,
                       text=True)
    return p.returncode, p.stdout


def regenerate(groups=None):
    """regenerate coq/Gen from REPO; returns {group: None|error}"""
    import kernels
    return kernels.generate(REPO, os.path.join(COQ, 'Gen'), only=groups)


def build_props(prop_id, groups=None, timeout=900):
    """Regenerate the kernels, rebuild the .vo closure of Props/<id>.v and re-check the property
    file itself.  Returns dict(ok, gen, log, theorems, assumptions, failed_obligation)."""
    t0 = time.time()
    out = {'ok': False, 'gen': {}, 'log': '', 'theorems': [], 'assumptions': {}, 'failed_obligation': None}
    with Lock('coqbuild'):
        # ALL kernel groups are regenerated on every check (0.2 s): a check can never build against a stale kernel.
        # A group whose generation fails is removed, so that the build below fails exactly when this property's
        # theorems depend on it
        gen = regenerate(None)
        out['gen'] = gen
        bad = {g: e for g, e in gen.items() if e}
        for g in bad:
            for ext in ('.v', '.vo', '.glob', '.vos', '.vok'):
                try:
                    os.remove(os.path.join(COQ, 'Gen', g + ext))
                except OSError:
                    pass
        rc, log = sh(['sh', 'mkproject.sh'], cwd=COQ)
        vo = f'Props/{prop_id}.vo'
        for ext in ('.vo', '.glob', '.vos', '.vok'):
            try:
                os.remove(os.path.join(COQ, f'Props/{prop_id}{ext}'))
            except OSError:
                pass
        rc, log = sh(['timeout', str(timeout), 'make', '-j8', vo], cwd=COQ)
        out['log'] = log[-6000:]
        if rc != 0:
            m = re.search(r'File "\./([^"]+)", line (\d+)', log)
            where = f"{m.group(1)}:{m.group(2)}" if m else "?"
            err = log.strip().splitlines()[-12:]
            if out['failed_obligation'] is None:
                out['failed_obligation'] = f"coqc failed at {where}: " + " | ".join(l.strip() for l in err if l.strip())[:600]
                if bad:
                    out['failed_obligation'] = ("generation failed: " + "; ".join(f"Gen/{g}.v: {e}" for g, e in sorted(bad.items()))[:500] +
                                                " || " + out['failed_obligation'])
            out['wall_s'] = time.time() - t0
            return out
    # hygiene: nothing in the development may be assumed, admitted or exempted from the kernel's checks
    forbidden = re.compile(r'\bAdmitted\b|\badmit\b|^\s*(Axiom|Axioms|Parameter|Parameters|Conjecture|Hypothesis|Variable)\b(?![^.]*Section)|'
                           r'Admit Obligations|Unset Guard Checking|Unset Positivity Checking|Unset Universe Checking|bypass_check|'
                           r'type-in-type|impredicative-set', re.M)
    for d in ('Lib', 'Gen', 'Spec', 'Model', 'Proofs', 'Props'):
        for f in sorted(os.listdir(os.path.join(COQ, d))):
            if not f.endswith('.v'):
                continue
            txt = open(os.path.join(COQ, d, f)).read()
            txt = re.sub(r'\(\*.*?\*\)', '', txt, flags=re.S)       # comments may talk about axioms
            in_section = 0
            for line in txt.splitlines():
                if re.match(r'\s*Section\b', line):
                    in_section += 1
                elif re.match(r'\s*End\b', line) and in_section:
                    in_section -= 1
                m = forbidden.search(line)
                if m and not (in_section and re.match(r'\s*(Variable|Variables|Hypothesis|Hypotheses)\b', line)):
                    out['failed_obligation'] = f"forbidden construct in coq/{d}/{f}: {line.strip()[:120]}"
    if out['failed_obligation'] is None:
        out['hygiene'] = 'no Admitted / admit / Axiom / Parameter / Conjecture / unchecked-kernel switch in Lib, Gen, Spec, Model, Proofs, Props'
    # parse theorem names and their Print Assumptions output from the property file's compile log
    src = open(os.path.join(COQ, f'Props/{prop_id}.v')).read()
    thms = re.findall(r'^(?:Theorem|Lemma|Definition)\s+(C\d\d\w+)', src, re.M)
    out['theorems'] = thms
    prints = re.findall(r'^Print Assumptions\s+(\w+)\.', src, re.M)
    # the log interleaves; split on the two possible heads
    chunks = re.split(r'(?=Closed under the global context|Axioms:)', log)
    chunks = [c for c in chunks if c.startswith('Closed under') or c.startswith('Axioms:')]
    for name, c in zip(prints, chunks):
        if c.startswith('Closed under'):
            out['assumptions'][name] = []
        else:
            axs = re.findall(r'^(\S+)\s*:', c, re.M)
            out['assumptions'][name] = [a for a in axs if a != 'Axioms']
    out['ok'] = out['failed_obligation'] is None and len(chunks) == len(prints)
    if out['failed_obligation'] is None and len(chunks) != len(prints):
        out['failed_obligation'] = f"Print Assumptions output incomplete for Props/{prop_id}.v"
    out['wall_s'] = time.time() - t0
    return out


ALLOWED_AXIOMS = {
    # standard-library axioms that may appear (named in the trusted base when they do)
    'ClassicalDedekindReals.sig_forall_dec', 'ClassicalDedekindReals.sig_not_dec',
    'FunctionalExtensionality.functional_extensionality_dep', 'Classical_Prop.classic',
    'functional_extensionality_dep', 'sig_forall_dec', 'sig_not_dec', 'classic',
}


def coq_eval(name, preamble, bodies, timeout=600, jobs=8):
    """Evaluate Gallina terms inside Coq.  bodies: list of strings, each a Gallina term of type
    `list Z` (or anything printable on one logical line); they are split over `jobs` files that
    are compiled in parallel.  Returns the list of printed values (strings, whitespace-normalised)."""
    # one scratch directory per (name, process): quick and thorough commands of one property may run at the same time
    for other in os.listdir(WORK):
        stem, _, pid = other.rpartition('.')
        if (stem.startswith('cases_') and pid.isdigit() and not os.path.exists('/proc/' + pid)) or other == 'cases_' + name:
            shutil.rmtree(os.path.join(WORK, other), ignore_errors=True)
    d = os.path.join(WORK, f'cases_{name}.{os.getpid()}')
    os.makedirs(d, exist_ok=True)
    for f in os.listdir(d):
        os.remove(os.path.join(d, f))
    n = len(bodies)
    if n == 0:
        return []
    # at most 400 cases per file (large literals make coqc slow and memory hungry), at most `jobs` coqc at a time;
    # a file that runs out of time is tried once more on its own with a fourfold limit (a busy machine is not a finding)
    per = max(1, min(400, (n + jobs - 1) // jobs))
    files = []
    for j in range(0, n, per):
        path = os.path.join(d, f'cases_{j // per}.v')
        with open(path, 'w') as fh:
            fh.write(preamble + "\n")
            for i, b in enumerate(bodies[j:j + per]):
                fh.write(f"Definition case_{j + i} := {b}.\n")
                fh.write(f'Eval vm_compute in (777000777%Z, {j + i}%Z, case_{j + i}).\n')
        files.append(path)

    def one(path, limit):
        p = subprocess.run(['timeout', str(limit), 'coqc'] + QARGS + [path], cwd=COQ, stdout=subprocess.PIPE,
                           stderr=subprocess.STDOUT, text=True)
        return p.returncode, p.stdout
    import concurrent.futures
    results = {}
    errors = []
    with concurrent.futures.ThreadPoolExecutor(max_workers=jobs) as ex:
        outs = list(ex.map(lambda f: one(f, timeout), files))
    for f, (rc, out) in zip(files, outs):
        if rc == 124:
            rc, out = one(f, timeout * 4)
        if rc != 0:
            errors.append(f"{f}: rc={rc}: {out[-800:]}")
        flat = re.sub(r'\s+', ' ', out)
        for m in re.finditer(r'= \(777000777, (\d+), (.*?)\) : ', flat):
            results[int(m.group(1))] = m.group(2).strip()
    if errors:
        raise RuntimeError("coq evaluation failed: " + " || ".join(errors))
    missing = [i for i in range(n) if i not in results]
    if missing:
        raise RuntimeError(f"coq evaluation: {len(missing)} results missing (first {missing[:5]})")
    return [results[i] for i in range(n)]


def zlist(s):
    """parse a printed `list Z` like `[1; 2; -3]` (possibly with %Z)"""
    s = s.strip()
    if s in ('[]', 'nil'):
        return []
    assert s[0] == '[' and s[-1] == ']', s
    return [int(x.replace('%Z', '').replace('(', '').replace(')', '')) for x in s[1:-1].split(';') if x.strip()]


# ------------------------------------------------------------------ known findings / evidence
def known_findings():
    p = os.path.join(VERIF, 'known_findings.json')
    return json.load(open(p)) if os.path.exists(p) else []


def write_evidence(prop_id, tier, seed, coverage, assumptions, wall_s, violations, level='proof'):
    os.makedirs(os.path.join(VERIF, 'evidence'), exist_ok=True)
    ev = {'property_id': prop_id, 'tier': tier, 'seed': seed, 'level': level, 'coverage': coverage,
          'assumptions': assumptions, 'wall_s': round(wall_s, 2), 'violations': violations}
    with open(os.path.join(VERIF, 'evidence', f'{prop_id}.json'), 'w') as fh:
        json.dump(ev, fh, indent=1, default=str)
    return ev


def write_replay(prop_id, payload):
    d = os.path.join(VERIF, 'replays')
    os.makedirs(d, exist_ok=True)
    h = hashlib.sha1(json.dumps(payload, sort_keys=True, default=str).encode()).hexdigest()[:10]
    p = os.path.join(d, f'{prop_id}_{h}.json')
    with open(p, 'w') as fh:
        json.dump(payload, fh, indent=1, default=str)
    return p

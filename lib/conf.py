"""actor-local trace conformance: real per-actor logs vs the Core model's own step function
(Model/Conf.v, evaluated by vm_compute).  No cross-actor ordering is reconstructed."""
from lib import scen as S
from lib.common import coq_eval, zlist

PRE = ("From Coq Require Import ZArith List Bool.\nFrom Mpv Require Import Conf.\nImport ListNotations.\n"
       "Open Scope Z_scope.")


def instance_cases(rec):
    """[(descr, coq term, observed codes)] for every worker instance of a single-call, non-keep-alive scenario"""
    sc = rec['scenario']
    call = sc['calls'][0]
    p = call.get('params', {})
    life = p.get('worker_lifespan') or 0
    hi = 'true' if call.get('init') else 'false'
    he = 'true' if call.get('exit') else 'false'
    out = []
    for tok, evs in S.instances(rec).items():
        msgs, obs = [], []
        ok = True
        for e in evs:
            k = e.get('k')
            if k == 'call':
                m = e.get('m')
                if m == 'get_task':
                    g = e.get('got')
                    if g == 'chunk':
                        msgs.append(e.get('len', 0))
                    elif g == 'pill':
                        msgs.append(0)
                    else:
                        ok = False          # exception / keep-alive / apply paths: not a Core scenario
                elif m == 'add_results':
                    if e.get('jobs') == [-3]:
                        obs.append(50)
                    else:
                        obs.append(100 + e.get('n', 0))
                elif m == 'signal_worker_restart':
                    obs.append(7)
                elif m == 'signal_worker_dead':
                    obs.append(9)
            elif k == 'init':
                obs.append(1)
            elif k == 'task':
                obs.append(2)
            elif k == 'exit':
                obs.append(3)
        if not ok:
            continue
        term = f"worker_instance ({life})%Z {hi} {he} [{'; '.join(str(m) for m in msgs)}]%Z"
        out.append((dict(instance=tok, lifespan=life, has_init=hi, has_exit=he, msgs=msgs), term, obs))
    return out


def selection_cases(rec):
    """main's add_task events: (inputs observed before the call) -> chosen worker"""
    sc = rec['scenario']
    nj = sc['pool']['n_jobs']
    out = []
    for name, evs in rec['events'].items():
        prev = None
        for e in evs:
            if e.get('k') != 'call':
                continue
            if e.get('m') == '_get_task_worker_id':
                prev = e
            elif e.get('m') == 'add_task' and e.get('what') == 'chunk' and e.get('wid_arg') is None and prev is not None \
                    and prev.get('arg') is None:
                order = 'true' if e.get('order') else 'false'
                term = (f"[selection {order} ({nj})%Z ({e['task_idx']})%Z "
                        f"[{'; '.join(str(x) for x in e['last'])}]%Z]")
                out.append((dict(order=e.get('order'), n_jobs=nj, task_idx=e['task_idx'], last=e['last']), term,
                            [prev.get('chosen')]))
                prev = None
    return out


def evaluate(cases, tag):
    """returns list of mismatches [(descr, model, observed)]"""
    if not cases:
        return []
    vals = coq_eval(tag, PRE, [t for _, t, _ in cases], jobs=8)
    bad = []
    for (d, _, obs), v in zip(cases, vals):
        got = zlist(v)
        if got != obs:
            bad.append((d, got, obs))
    return bad

"""runs scenarios on the real pool through harness/driver.py: own session, output to files, watchdog,
whole-session SIGKILL afterwards; parses the per-actor event files.  No pipes are ever attached to
a process that can leak daemon children."""
import concurrent.futures
import fcntl
import json
import os
import shutil
import signal
import subprocess
import random
import time

from lib.common import REPO, VERIF, WORK, PY

HARNESS = os.path.join(VERIF, 'harness')


def extras_env(pool):
    ex = []
    if pool.get('pass_worker_id'):
        ex.append('wid')
    if pool.get('shared_objects') is not None:
        ex.append('shared')
    if pool.get('use_worker_state'):
        ex.append('state')
    return ','.join(ex)


class _Slot:
    """machine-wide bound on concurrently running driver processes (all checks together): several checks started in
    parallel share VERIF_SLOTS slots instead of oversubscribing the cores - the latency oracles stay meaningful"""
    def __enter__(self):
        d = os.path.join(WORK, 'slots')
        os.makedirs(d, exist_ok=True)
        n = int(os.environ.get('VERIF_SLOTS', '20'))
        order = list(range(n))
        random.shuffle(order)
        while True:
            for i in order:
                fh = open(os.path.join(d, 'slot%d' % i), 'w')
                try:
                    fcntl.flock(fh, fcntl.LOCK_EX | fcntl.LOCK_NB)
                    self.fh = fh
                    return self
                except OSError:
                    fh.close()
            time.sleep(0.05)

    def __exit__(self, *a):
        try:
            fcntl.flock(self.fh, fcntl.LOCK_UN)
        finally:
            self.fh.close()


def hang_class(stacks):
    """a recognisable state in the stack dumps of a run that did not finish: a queue feeder thread (main's or a worker's)
    blocked ACQUIRING the shared write lock of a multiprocessing queue - the lock is held by a process that no longer
    exists (known finding D34)"""
    import linecache
    import re as _re
    for m in _re.finditer(r'File "([^"]*queues\.py)", line (\d+) in _feed', stacks or ''):
        if linecache.getline(m.group(1), int(m.group(2))).strip() == 'wacquire()':
            return 'results_writelock'
    return None


class _BudgetFactor:
    """how much slower than on an idle machine a trivial fork pool cycle is at the moment (>= 1, capped); measured once per
    check process and again for every confirmation run of a suspected hang, which also gets three times the budget"""
    IDLE = 0.15

    def __init__(self):
        self.value = None
        self.extra = 1.0
        self.busy = False

    def measure(self):
        self.busy = True
        try:
            cal = calibrate(('fork',))
            self.value = max(1.0, min(8.0, cal.get('fork', self.IDLE) / self.IDLE))
        finally:
            self.busy = False

    def get(self):
        if self.busy:
            return 1.0
        if self.value is None:
            self.measure()
        return self.value * self.extra


budget_factor = _BudgetFactor()


def run_one(scen, rundir, hook=True):
    with _Slot():
        return _run_one(scen, rundir, hook)


def _run_one(scen, rundir, hook=True):
    os.makedirs(rundir, exist_ok=True)
    evdir = os.path.join(rundir, 'events')
    os.makedirs(evdir, exist_ok=True)
    spath = os.path.join(rundir, 'scenario.json')
    rpath = os.path.join(rundir, 'result.json')
    scen_as_generated = scen
    if not str(scen.get('id', '')).startswith('cal_'):
        # watchdog budgets are stated for an idle machine: stretch them by how slow a trivial pool life cycle is right now
        # (a busy machine is not a hang); the oracles see the scenario as generated
        scen = dict(scen, budget=int(scen.get('budget', 60) * budget_factor.get()), budget_stated=scen.get('budget', 60))
    json.dump(scen, open(spath, 'w'))
    env = dict(os.environ)
    env.update(PYTHONPATH=f"{REPO}:{HARNESS}", PYTHONHASHSEED='0', MPIRE_VERIF_DIR=evdir,
               VERIF_EXTRAS=scen.get('extras', extras_env(scen['pool'])),
               VERIF_BEHAVIOUR=json.dumps(scen.get('behaviour', {})),
               MPIRE_VERIF_PLAN=json.dumps(scen.get('plan', [])),
               PYTHONWARNINGS='ignore', PYTHONUNBUFFERED='1')
    for k, v in scen.get('env', {}).items():
        env[k] = str(v)
    if hook:
        env.update(MPIRE_VERIF='1', MPIRE_VERIF_HOOK='mpire_verif_hook')
    else:
        env.pop('MPIRE_VERIF', None)
        env.pop('MPIRE_VERIF_DIR', None)          # no event files either: the user functions log nothing
    budget = scen.get('budget', 60)
    t0 = time.time()
    with open(os.path.join(rundir, 'stdout'), 'w') as so, open(os.path.join(rundir, 'stderr'), 'w') as se:
        p = subprocess.Popen([PY, os.path.join(HARNESS, 'driver.py'), spath, rpath], env=env, stdout=so, stderr=se,
                             stdin=subprocess.DEVNULL, start_new_session=True, cwd=rundir)
        status = None
        try:
            rc = p.wait(timeout=budget + 15)
        except subprocess.TimeoutExpired:
            rc = None
            status = 'parent_timeout'
        try:
            os.killpg(p.pid, signal.SIGKILL)
        except OSError:
            pass
        try:
            p.wait(timeout=5)
        except subprocess.TimeoutExpired:
            pass
    wall = time.time() - t0
    rec = {'scenario': scen_as_generated, 'rc': rc, 'wall': wall, 'dir': rundir, 'budget_used': budget}
    try:
        rec['result'] = json.load(open(rpath))
    except (OSError, ValueError):
        rec['result'] = None
    stacks = ''
    try:
        stacks = open(rpath + '.stacks').read()
    except OSError:
        pass
    if status is None and stacks.strip():
        # the watchdog fired: add what the children were doing
        try:
            stacks += '\n--- children: ' + open(rpath + '.children').read()[:1500]
        except OSError:
            pass
        for n in sorted(os.listdir(evdir)):
            if n.startswith('stacks.'):
                try:
                    txt = open(os.path.join(evdir, n)).read()
                    if txt.strip():
                        stacks += f'\n--- {n}:\n' + txt[-2500:]
                except OSError:
                    pass
    cls = hang_class(stacks)
    rec['hang_class'] = cls
    rec['stacks'] = stacks[-9000:] + (f'\n[hang-class: {cls}]' if cls else '')
    try:
        rec['stderr'] = open(os.path.join(rundir, 'stderr')).read()[-3000:]
    except OSError:
        rec['stderr'] = ''
    if status is None:
        if rec['result'] is not None and rec['result'].get('status') == 'done':
            status = 'done'
        elif stacks.strip():
            status = 'hang'            # the watchdog fired: budget exceeded, stacks dumped
        else:
            status = 'crash'
    rec['status'] = status
    rec['events'] = load_events(evdir)
    return rec


def load_events(evdir):
    """{actor file -> [events in the actor's own order]}; no cross-actor order is implied"""
    out = {}
    try:
        names = sorted(os.listdir(evdir))
    except OSError:
        return out
    for n in names:
        if n.startswith('stacks.'):
            continue
        evs = []
        try:
            for line in open(os.path.join(evdir, n)):
                try:
                    evs.append(json.loads(line))
                except ValueError:
                    pass
        except OSError:
            pass
        out[n] = evs
    return out


def run_many(scens, tag, jobs=10, hook=True, keep=False):
    if tag.endswith('_re') or tag == 'replay':
        # confirmation of a suspected hang / oracle failure: fresh load measurement, three times the budget
        budget_factor.measure()
        budget_factor.extra = 3.0
        try:
            return _run_many(scens, tag, jobs, hook, keep)
        finally:
            budget_factor.extra = 1.0
    return _run_many(scens, tag, jobs, hook, keep)


def _run_many(scens, tag, jobs=10, hook=True, keep=False):
    if budget_factor.value is None and not tag.startswith('calibrate_'):
        budget_factor.measure()          # here, single-threaded, not from the worker threads below
    # one scratch directory per (tag, process): the quick and the thorough command of one property may run at the same time
    runs = os.path.join(WORK, 'runs')
    os.makedirs(runs, exist_ok=True)
    for name in os.listdir(runs):          # leftovers of processes that are gone
        stem, _, pid = name.rpartition('.')
        if (pid.isdigit() and stem and not os.path.exists('/proc/' + pid)) or name == tag:
            shutil.rmtree(os.path.join(runs, name), ignore_errors=True)
    base = os.path.join(runs, f'{tag}.{os.getpid()}')
    shutil.rmtree(base, ignore_errors=True)
    os.makedirs(base, exist_ok=True)
    recs = [None] * len(scens)
    with concurrent.futures.ThreadPoolExecutor(max_workers=jobs) as ex:
        futs = {ex.submit(run_one, s, os.path.join(base, str(i)), hook): i for i, s in enumerate(scens)}
        for f in concurrent.futures.as_completed(futs):
            recs[futs[f]] = f.result()
    if not keep:
        for r in recs:
            if r['status'] == 'done':
                shutil.rmtree(r['dir'], ignore_errors=True)
    return recs


def all_events(rec, kind=None):
    for evs in rec['events'].values():
        for e in evs:
            if kind is None or e.get('k') == kind:
                yield e


def calibrate(start_methods=('fork', 'threading', 'forkserver', 'spawn')):
    """how long a trivial pool life cycle takes on this machine right now, per start method (seconds); time limits of
    the latency oracles are scaled with it so that a loaded machine does not turn into alarms"""
    scens = [{'id': 'cal_' + sm, 'pool': {'n_jobs': 2, 'start_method': sm}, 'budget': 120,
              'calls': [{'kind': 'map', 'n': 4, 'input': 'list', 'elem': 'scalar', 'params': {}, 'base': 0}]} for sm in start_methods]
    recs = run_many(scens, 'calibrate_%d' % os.getpid(), jobs=len(scens))
    shutil.rmtree(os.path.join(WORK, 'runs', 'calibrate_%d.%d' % (os.getpid(), os.getpid())), ignore_errors=True)
    out = {}
    for sm, r in zip(start_methods, recs):
        try:
            out[sm] = float(r['result']['calls'][0]['wall'])
        except (TypeError, KeyError, IndexError):
            out[sm] = 30.0
    return out


def scaled(base, calib, sm, factor=6.0):
    return base + factor * calib.get(sm, 1.0)

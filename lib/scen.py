"""scenario generators and oracles shared by the pool-level checks"""
import collections
import json
import random

START_METHODS = ['fork', 'threading', 'forkserver', 'spawn']


def ref_call(elem_kind, i, shared=None):
    """what userfuncs.task returns for element i of kind elem_kind under the documented call
    convention (dict -> kwargs, iterable other than str/bytes/ndarray -> unpacked, else single)"""
    def c(v):
        if isinstance(v, (list, tuple)):
            return [type(v).__name__, [c(x) for x in v]]
        if isinstance(v, dict):
            return ['dict', sorted([str(k), c(x)] for k, x in v.items())]
        if isinstance(v, bytes):
            return ['bytes', v.decode('latin1')]
        return v
    if elem_kind == 'scalar':
        a, k = (i,), {}
    elif elem_kind == 'tuple':
        a, k = (i, i + 1), {}
    elif elem_kind == 'tuple1':
        a, k = (i,), {}
    elif elem_kind == 'dict':
        a, k = (), {'i': i, 'j': i * 2}
    elif elem_kind == 'str':
        a, k = ('s%d' % i,), {}
    elif elem_kind == 'bytes':
        a, k = (b'b%d' % i,), {}
    elif elem_kind == 'list':
        a, k = (i, 7), {}
    elif elem_kind == 'none':
        a, k = (None,), {}
    else:
        raise ValueError(elem_kind)
    if shared is not None:
        return ['R', c(a), c(k), ['S', c(shared)]]
    return ['R', c(a), c(k)]


def effective_n(call):
    n = call['n']
    il = call.get('params', {}).get('iterable_len')
    return n if il is None else min(n, il)


def expected_value(call):
    n = effective_n(call)
    base = call.get('base', 0)
    if call.get('input') == 'ndarray':
        if call.get('ndim', 1) == 2:
            return ['nd', [[(r * 3 + j + base) * 2 for j in range(3)] for r in range(n)]]
        return ['nd', [(i + base) * 2 for i in range(n)]]
    vals = [ref_call(call.get('elem', 'scalar'), i + base, call.get('_shared')) for i in range(n)]
    if call.get('func') == 'task2':
        for v in vals:
            v[0] = 'Q'
    return vals


def flatten_nd(value):
    """unordered numpy results: list of ['nd', rows] chunks -> flat list of rows"""
    if isinstance(value, list) and value and value[0] == 'nd':
        return list(value[1])
    rows = []
    for v in value:
        if isinstance(v, list) and v and v[0] == 'nd':
            rows.extend(v[1])
        else:
            rows.append(v)
    return rows


def key(v):
    return json.dumps(v, sort_keys=True)


def check_value(call, out):
    """C01 oracle on one finished call; returns None or a message"""
    if out.get('outcome') != 'ok':
        return f"call raised {out.get('exc', {}).get('type')}: {out.get('exc', {}).get('args')}"
    exp = expected_value(call)
    val = out['value']
    ordered = call['kind'] in ('map', 'imap')
    if call.get('input') == 'ndarray':
        got_rows = flatten_nd(val)
        exp_rows = exp[1]
        if ordered:
            if got_rows != exp_rows:
                return f"ordered numpy result differs: got {str(got_rows)[:120]} expected {str(exp_rows)[:120]}"
        elif collections.Counter(map(key, got_rows)) != collections.Counter(map(key, exp_rows)):
            return f"unordered numpy result multiset differs: got {str(got_rows)[:120]}"
        return None
    if ordered:
        if val != exp:
            for i, (a, b) in enumerate(zip(val, exp)):
                if a != b:
                    return f"result[{i}] = {a} expected {b} (len {len(val)} vs {len(exp)})"
            return f"result has {len(val)} elements, expected {len(exp)}"
    elif collections.Counter(map(key, val)) != collections.Counter(map(key, exp)):
        return f"unordered result multiset differs: {len(val)} values, expected {len(exp)}; first {str(val[:3])[:150]}"
    return None


def task_events(rec):
    return [e for evs in rec['events'].values() for e in evs if e.get('k') == 'task']


def check_exactly_once(call, rec, success):
    """C02 oracle from the user function's own log"""
    if call.get('input') == 'ndarray':
        return None
    evs = task_events(rec)
    got = collections.Counter(key(['R', e['args'], e['kwargs']]) for e in evs)
    exp = collections.Counter(key(v[:3]) for v in expected_value(call))
    if success:
        if got != exp:
            extra = list((got - exp).elements())[:3]
            missing = list((exp - got).elements())[:3]
            return f"executed multiset differs from inputs: repeated/unknown {extra} missing {missing}"
    else:
        over = got - exp
        if over:
            return f"a task was entered more than once in a failed call: {list(over.elements())[:3]}"
    return None


def instances(rec):
    """{instance token: [events of that instance in its own order]} for worker actors"""
    inst = collections.OrderedDict()
    for name, evs in rec['events'].items():
        for e in evs:
            tok = e.get('inst')
            if tok is not None:
                inst.setdefault(tok, []).append(e)
    return inst


def gen_map_scenarios(rng, count, tier, kinds=('map', 'map_unordered', 'imap', 'imap_unordered'), start_methods=None,
                      lifespans=(None, None, 1, 2, 3, 7), allow_numpy=True, force=None):
    scens = []
    sms = start_methods or (['fork', 'fork', 'threading', 'forkserver', 'spawn'] if tier == 'quick' else START_METHODS)
    for k in range(count):
        n_jobs = rng.choice([1, 2, 2, 3, 4])
        sm = sms[k % len(sms)]
        n = rng.choice([0, 1, 2, 3, 5, 8, 13, 21, 40]) if rng.random() < 0.9 else rng.randrange(60, 200)
        inp = rng.choice(['list', 'list', 'range', 'gen', 'gen', 'ndarray'] if allow_numpy else ['list', 'range', 'gen'])
        elem = 'scalar' if inp in ('range', 'ndarray') else rng.choice(['scalar', 'tuple', 'dict', 'str', 'bytes', 'tuple1', 'list'])
        params = {}
        mode = rng.choice(['none', 'chunk_int', 'chunk_int', 'chunk_float', 'splits', 'splits'])
        if mode == 'chunk_int':
            params['chunk_size'] = rng.choice([1, 1, 2, 3, 5, 7, n + 1])
        elif mode == 'chunk_float':
            params['chunk_size'] = rng.choice([1.5, 2.25, 3.7, 1.0])
        elif mode == 'splits':
            params['n_splits'] = rng.choice([1, 2, 3, 5, 13, n + 2])
        il = None
        extra = 0
        if inp == 'gen':
            r = rng.random()
            if r < 0.5:
                il = n
            elif r < 0.7:
                il = max(0, n - rng.choice([1, 2]))        # generator longer than iterable_len: cut
            # else: unknown length
        elif rng.random() < 0.2 and inp != 'range':
            il = rng.choice([n, max(0, n - 2)])
        if il is not None:
            params['iterable_len'] = il
        r = rng.random()
        if r < 0.35:
            params['max_tasks_active'] = rng.choice([1, 2, 3, 50])
        ls = rng.choice(lifespans)
        if ls is not None:
            params['worker_lifespan'] = ls
        pool = {'n_jobs': n_jobs, 'start_method': sm}
        if rng.random() < 0.3:
            pool['order_tasks'] = True
        if rng.random() < 0.25:
            pool['pass_worker_id'] = True
        if rng.random() < 0.2:
            pool['shared_objects'] = [1, 'two']
            shared = pool['shared_objects']
        else:
            shared = None
        if rng.random() < 0.25:
            pool['use_worker_state'] = True
        call = {'kind': rng.choice(kinds), 'n': n, 'input': inp, 'elem': elem, 'params': params,
                'init': rng.random() < 0.4, 'exit': rng.random() < 0.4, 'want_exit_results': True}
        if shared is not None:
            call['_shared'] = shared
        if inp == 'ndarray':
            call['func'] = 'task_np'
            call['ndim'] = rng.choice([1, 2])
        if force:
            force(pool, call, rng)
        scens.append({'id': f's{k}', 'pool': pool, 'calls': [call], 'budget': 45 if sm in ('fork', 'threading') else 70})
    return scens


def distribution(scens):
    d = collections.Counter()
    for s in scens:
        c = s['calls'][0]
        d['start:' + s['pool'].get('start_method', 'fork')] += 1
        d['kind:' + c['kind']] += 1
        d['input:' + c.get('input', 'list')] += 1
        d['elem:' + c.get('elem', 'scalar')] += 1
        p = c.get('params', {})
        d['lifespan:' + str(p.get('worker_lifespan'))] += 1
        d['chunking:' + ('chunk_size' if 'chunk_size' in p else 'n_splits' if 'n_splits' in p else 'default')] += 1
        d['max_active:' + str(p.get('max_tasks_active'))] += 1
        d['n_jobs:' + str(s['pool']['n_jobs'])] += 1
    return dict(d)


def annotate_history(scen):
    """walk the calls of a scenario whose pool settings change through setters: give every map call
    the shared objects in force (for the reference result) and make the driver pick the function
    variant that matches the pool's current extras"""
    shared = scen['pool'].get('shared_objects')
    for c in scen['calls']:
        if c.get('kind') == 'setter' and c.get('name') == 'set_shared_objects':
            shared = c['args'][0] if c.get('args') else None
        if 'n' in c:
            c['dynamic_extras'] = True
            if shared is not None:
                c['_shared'] = shared
            else:
                c.pop('_shared', None)
    scen['extras'] = ''          # the static layout is not used
    return scen


def gen_history(rng, k, tier, sms, failures=False, mixed=True):
    """a pool and a history of map-family calls, setters and (optionally) failing calls"""
    nj = rng.choice([1, 2, 3, 4])
    pool = {'n_jobs': nj, 'start_method': sms[k % len(sms)], 'keep_alive': rng.random() < 0.7}
    if rng.random() < 0.3:
        pool['pass_worker_id'] = True
    if rng.random() < 0.3:
        pool['shared_objects'] = rng.choice([['s', 0], ['s', 0], [], 0])
    if rng.random() < 0.4:
        pool['use_worker_state'] = True
    has_init, has_exit = rng.random() < 0.5, rng.random() < 0.5
    calls = []
    behaviour = {'task': []}
    ncalls = rng.choice([2, 3, 4])
    j = 0
    shared_v = 1
    if mixed and not failures and rng.random() < 0.25:
        # the workers are started by apply_async (they stay alive whatever keep_alive says); setters and map calls follow
        calls.append({'kind': 'apply_batch', 'jobs': [{'id': i, 'args': [700 + i], 'cbs': [False, False]} for i in range(rng.choice([1, 3]))],
                      'get_timeout': 30, 'no_join': True, 'dynamic_extras': True})
    while j < ncalls:
        r = rng.random()
        if calls and r < 0.3:
            which = rng.choice(['pass_on_worker_id', 'set_shared_objects', 'set_use_worker_state', 'set_keep_alive'])
            if which == 'set_shared_objects':
                arg = rng.choice([None, ['s', shared_v], ['s', shared_v], {}, 0])
                shared_v += 1
            else:
                arg = rng.random() < 0.5
            calls.append({'kind': 'setter', 'name': which, 'args': [arg]})
            continue
        n = rng.choice([1, 2, 5, 9, 14])
        params = {}
        m = rng.choice(['cs', 'cs', 'def'])
        if m == 'cs':
            params['chunk_size'] = rng.choice([1, 2, 3])
        if rng.random() < 0.35:
            params['worker_lifespan'] = rng.choice([1, 2, 5])
        call = {'kind': rng.choice(['map', 'map_unordered', 'imap', 'imap_unordered']), 'n': n, 'input': rng.choice(['list', 'gen']),
                'elem': rng.choice(['scalar', 'scalar', 'tuple', 'dict']), 'params': params, 'base': 1000 * (j + 1),
                'init': has_init, 'exit': has_exit, 'func': rng.choice(['task', 'task', 'task2'])}
        if call['input'] == 'gen':
            params['iterable_len'] = n
        # generous init / exit timeouts (never exceeded): the timeout-guarded variants of the init / exit paths are separate code
        if rng.random() < 0.4:
            params['worker_init_timeout'] = 30
        if rng.random() < 0.4:
            params['worker_exit_timeout'] = 30
        if failures and rng.random() < 0.45:
            mode = rng.choice(['raise', 'raise', 'timeout', 'die', 'closed_early', 'nested', 'init_raise', 'init_raise', 'exit_raise'])
            call['fail'] = mode
            key = call['base'] + rng.randrange(n)
            if call['elem'] != 'scalar' and mode in ('raise', 'timeout', 'die'):
                call['elem'] = 'scalar'
            if mode == 'raise':
                behaviour['task'].append({'at': key, 'do': 'raise', 'exc': rng.choice(['ValueError', 'CustomError', 'AttrError'])})
                call['expect_exc'] = True
            elif mode == 'timeout':
                behaviour['task'].append({'at': key, 'do': 'block', 's': 30})
                params['task_timeout'] = 0.4
                call['expect_exc'] = True
            elif mode == 'die':
                behaviour['task'].append({'at': key, 'do': 'die'})
                call['expect_exc'] = True
                if pool['start_method'] == 'threading':
                    pool['start_method'] = 'fork'
            elif mode == 'closed_early':
                call['kind'] = rng.choice(['imap', 'imap_unordered'])
                call['consume'] = min(1, n)
                call['abandoned'] = True
            elif mode == 'nested':
                call['nested_misuse'] = True
                call['expect_exc'] = True
            elif mode in ('init_raise', 'exit_raise'):
                # the init / exit function of THIS call raises (a distinct exception per call); n >= 1 so that it runs
                phase = 'init' if mode == 'init_raise' else 'exit'
                call[phase] = True
                call[phase + '_raises'] = [rng.choice(['ValueError', 'CustomError', 'AttrError']), call['base']]
                call['expect_exc'] = True
                pool['keep_alive'] = False          # fresh workers for every call: init runs, exit runs at the end of the call
        calls.append(call)
        j += 1
        if mixed and not call.get('fail') and rng.random() < 0.3 and j < 6:
            # tasks submitted through apply_async in between: they leave the workers alive, whatever keep_alive says
            nb = rng.choice([2, 5])
            calls.append({'kind': 'apply_batch', 'jobs': [{'id': i, 'args': [1000 * (j + 1) + 700 + i], 'cbs': [False, False]} for i in range(nb)],
                          'get_timeout': 30, 'no_join': True, 'dynamic_extras': True})
        if mixed and not call.get('fail') and rng.random() < 0.3 and j < 6:
            # ... and the very same call as an earlier one again (other calls in between): A, B, A
            import copy
            prev = [c for c in calls if 'n' in c and not c.get('fail')]
            again = copy.deepcopy(rng.choice(prev))
            again['base'] = 1000 * (j + 1)
            if again.get('input') == 'gen':
                again['params']['iterable_len'] = again['n']
            calls.append(again)
            j += 1
    calls.append({'kind': 'stop_and_join', 'want_exit_results': True})
    if any(c.get('fail') in ('init_raise', 'exit_raise') for c in calls):
        # these histories need fresh workers for every call (worker_init runs at the start, worker_exit at the end of the call):
        # no setter may switch keep_alive back on (the oracle would expect an error from a function that is not run)
        for c in calls:
            if c.get('kind') == 'setter' and c.get('name') == 'set_keep_alive':
                c['args'] = [False]
    sc = {'id': f'h{k}', 'pool': pool, 'calls': calls, 'budget': 75, 'behaviour': behaviour}
    return annotate_history(sc)


def check_apply_batch(call, out):
    """an apply batch inside a history: every job returns the reference value of its own argument"""
    if out.get('outcome') != 'ok':
        return f"apply batch raised {out.get('exc', {}).get('type')}: {out.get('exc', {}).get('args', '')[:120]}"
    for j, v in zip(call['jobs'], out.get('value', [])):
        if v[0] != 'ok' or not (isinstance(v[1], list) and v[1][:2] == ['R', ['tuple', [j['args'][0]]]]):
            return f"apply job {j['args'][0]} returned {str(v)[:120]}"
    return None


def check_own_function(call, rec):
    """C02 on a history: every task of this call was executed exactly once, by the call's own function"""
    if call.get('input') == 'ndarray':
        return None
    want_fn = call.get('func', 'task')
    lo = call.get('base', 0)
    evs = [e for e in task_events(rec) if isinstance(e.get('args'), list) and e['args'][1] and isinstance(e['args'][1][0], int)
           and lo <= e['args'][1][0] < lo + 500] if call.get('elem', 'scalar') in ('scalar', 'tuple', 'tuple1', 'list') else None
    if evs is None:
        return None
    got = collections.Counter(e['args'][1][0] for e in evs)
    exp = collections.Counter(range(lo, lo + effective_n(call)))
    if got != exp:
        return (f"call base={lo}: its function was entered for {sum(got.values())} tasks, {effective_n(call)} expected; never entered for "
                f"{sorted((exp - got).elements())[:4]}, more than once for {sorted((got - exp).elements())[:4]}")
    wrong = [e for e in evs if e.get('fn', 'task') != want_fn]
    if wrong:
        return f"call base={lo} ({want_fn}): {len(wrong)} of its tasks were executed by {wrong[0].get('fn')}"
    return None

#!/usr/bin/env python3
"""run.py -- single entry point of the verification machinery.

  run.py setup                      build the whole Coq development from /repo's current tree
  run.py check <ID> [--tier quick|thorough]
  run.py replay <path>

check: exit 0 if the property held on everything explored (KNOWN-FINDING lines for listed open
findings), exit 1 with `VIOLATION property=<id> replay=<path>` otherwise; rewrites
evidence/<id>.json on every run.
"""
import argparse
import importlib
import json
import os
import sys
import time

VERIF = os.path.dirname(os.path.abspath(__file__))
sys.path.insert(0, VERIF)
from lib import common  # noqa: E402


def finding_matches(f, prop, v):
    return f.get('property') == prop and f.get('status') == 'open' and f.get('signature') and \
        f['signature'] == v.get('signature')


def _cleanup_scratch():
    """scratch directories are per process (so that several commands can run at once); remove this process's own"""
    import shutil
    suffix = '.%d' % os.getpid()
    for base in (common.WORK, os.path.join(common.WORK, 'runs')):
        try:
            names = os.listdir(base)
        except OSError:
            continue
        for n in names:
            if n.endswith(suffix):
                shutil.rmtree(os.path.join(base, n), ignore_errors=True)


def do_check(prop, tier, seed):
    try:
        return _do_check(prop, tier, seed)
    finally:
        _cleanup_scratch()


def _do_check(prop, tier, seed):
    mod = importlib.import_module('checks.' + prop.lower())
    ctx = dict(tier=tier, seed=seed, prop=prop)
    t0 = time.time()
    res = mod.run(ctx)
    proof = res.get('proof') or {}
    findings = common.known_findings()
    exit_code = 0
    n_viol = 0
    lines = []
    found_input = False
    for v in res.get('violations', []):
        if '[hang-class: results_writelock]' in str((v.get('replay') or {}).get('stacks', '')):
            # the run did not finish AND its stack dump shows the recognisable state of finding D34
            v = dict(v, signature=f"{prop}:hang:results_writelock")
        known = [f for f in findings if finding_matches(f, prop, v)]
        if known:
            line = f"KNOWN-FINDING: property={prop} {known[0]['what']}"
            if line not in lines:
                lines.append(line)
            continue
        path = common.write_replay(prop, dict(property=prop, **v['replay']))
        tail = '' if v.get('found_input', True) else ' no-failing-input-found'
        lines.append(f"VIOLATION property={prop} replay={path}{tail}")
        found_input = found_input or v.get('found_input', True)
        n_viol += 1
        exit_code = 1
    broken = res.get('broken_obligation')
    if broken and not found_input:
        # the property is no longer shown to hold; the falsifier found no concrete failing input
        path = common.write_replay(prop, dict(property=prop, kind='broken_obligation', obligation=broken,
                                              searched=res.get('coverage', {}).get('evaluations', 0)))
        lines.append(f"VIOLATION property={prop} replay={path} no-failing-input-found")
        n_viol += 1
        exit_code = 1
    thms = proof.get('theorems', [])
    assum = proof.get('assumptions', {})
    axioms = sorted({a for l in assum.values() for a in l})
    cov = dict(res.get('coverage', {}))
    cov.update(dict(
        obligations=max(1, len(thms)),
        discharged=(len(thms) if proof.get('ok') else 0),
        checker_cmd=f"cd /verif/coq && make Props/{prop}.vo   (coqc 8.16.1, full .vo build; Gen/*.v regenerated from /repo first)",
        trusted_base=common.TRUSTED_BASE_COMMON + res.get('trusted_base', []) +
        ([f"axioms reported by Print Assumptions: {', '.join(axioms)}"] if axioms else
         ["Print Assumptions: every property theorem is closed under the global context"]),
        theorems=thms, print_assumptions=assum, generation=proof.get('gen', {}), hygiene=proof.get('hygiene'),
        broken_obligation=broken, proof_build_s=proof.get('wall_s')))
    if 'evaluations' not in cov:
        cov['evaluations'] = 1
        cov['distinct_nontrivial'] = 0
    if not proof.get('ok'):
        # a proof-level claim needs discharged == obligations; say so explicitly when it is not the case
        # (the schema's proof keys are left out: this run is NOT a proof of the property)
        cov['explanation'] = 'proof obligations NOT all discharged on this tree: ' + str(broken)
        cov['obligations_total'] = cov.pop('obligations')
        cov['obligations_discharged'] = cov.pop('discharged')
        cov['distinct_nontrivial'] = max(2, cov.get('distinct_nontrivial', 0))
    common.write_evidence(prop, tier, seed, cov, res.get('assumptions', []) + [
        "the model is tied to the source by regenerated kernels + Spec lemmas + correspondence runs; see trusted_base"],
        time.time() - t0, n_viol)
    for l in lines:
        print(l)
    print(f"[{prop}] tier={tier} seed={seed} theorems={len(thms)} discharged={cov.get('discharged', 0)} "
          f"evaluations={cov.get('evaluations')} violations={n_viol} wall={time.time() - t0:.1f}s")
    return exit_code


def do_setup():
    with common.Lock('coqbuild'):
        st = common.regenerate()
        rc, log = common.sh(['sh', 'mkproject.sh'], cwd=common.COQ)
        rc, log = common.sh(['timeout', '3000', 'make', '-j12'], cwd=common.COQ)
    print(log[-3000:])
    print("generation:", st)
    return rc


def do_replay(path):
    payload = json.load(open(path))
    prop = payload['property']
    if payload.get('kind') == 'broken_obligation':
        print("no concrete failing input was found; the obligation that no longer checks:")
        print(payload['obligation'])
        return 1
    mod = importlib.import_module('checks.' + prop.lower())
    return mod.replay(payload)


def main():
    ap = argparse.ArgumentParser()
    sub = ap.add_subparsers(dest='cmd', required=True)
    sub.add_parser('setup')
    c = sub.add_parser('check')
    c.add_argument('prop')
    c.add_argument('--tier', default=os.environ.get('VERIF_TIER', 'quick'))
    r = sub.add_parser('replay')
    r.add_argument('path')
    a = ap.parse_args()
    if a.cmd == 'setup':
        sys.exit(do_setup())
    if a.cmd == 'check':
        seed = int(os.environ.get('VERIF_SEED', '20260930'))
        sys.exit(do_check(a.prop.upper(), a.tier, seed))
    if a.cmd == 'replay':
        sys.exit(do_replay(a.path))


if __name__ == '__main__':
    main()

#!/usr/bin/env python3
"""Enumerates EVERY signal delivery point of several configurations (all hits: first and last) and prints the
signature of each failing one -- used to keep known_findings.json complete for the open C17 findings."""
import collections, json, random, sys
sys.path.insert(0, '/verif')
from checks import c17
from lib import runner
rng = random.Random(int(sys.argv[1]) if len(sys.argv) > 1 else 5)
bases = []
for sm in ['fork', 'forkserver', 'threading', 'spawn']:
    for pb in (False, True):
        for ka in (False, True):
            b = c17.base_scen(rng, len(bases), sm)
            b['calls'][0]['params']['progress_bar'] = pb
            b['pool']['keep_alive'] = ka
            b['calls'][0]['kind'] = rng.choice(['map', 'imap', 'imap_unordered', 'map_unordered'])
            bases.append(b)
c17.CAL.update(runner.calibrate())
rec_runs = runner.run_many([c17.with_sigint(b, {'mode': 'record'}, 'r') for b in bases], 'c17_rec', jobs=8)
scens = []
for b, r in zip(bases, rec_runs):
    lines = r['result']['calls'][0].get('lines', {}) if r['result'] and r['result']['calls'] else {}
    for key in sorted(lines):
        for hit in {1, lines[key]}:
            scens.append(c17.with_sigint(b, {'mode': 'line', 'at': key, 'hit': hit}, f'@{key}#{hit}'))
print(len(scens), 'scenarios', flush=True)
recs = runner.run_many(scens, 'c17enum', jobs=12)
bad, hangs = c17.analyse(recs)
sigs = collections.Counter()
for r, m, c in bad:
    sigs[f"C17:{c}:{r['scenario']['sig']['at']}"] += 1
for r in hangs:
    sigs[f"C17:hang:{r['scenario']['sig']['at']}"] += 1
for k, v in sorted(sigs.items()):
    print(v, k)
json.dump(sorted(sigs), open('/verif/_work/c17_signatures.json', 'w'), indent=1)

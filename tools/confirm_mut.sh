#!/bin/sh
# confirm_mut.sh <ID> [tag] : in the scratch worktree /tmp/mut/<ID> (change applied): run the pinned suite and the demo
# with the change, then the demo without it; write /tmp/mut/<ID>/OUT/confirm.json
ID=$1
W=/tmp/mut/$ID
cd $W || exit 2
git diff -- mpire > OUT/patch.diff
export PYTHONPATH=$W
unset MPIRE_VERIF
( /venv/bin/python -m pytest -q -p no:cacheprovider --timeout=900 tests > OUT/suite_confirm.log 2>&1 ); S=$?
SUITE_LINE=$(tail -1 OUT/suite_confirm.log)
W1=0; for i in 1 2 3; do timeout 180 /venv/bin/python OUT/demo.py > OUT/demo_with_$i.log 2>&1; [ $? -ne 0 ] && W1=$((W1+1)); done
git stash -q
W0=0; for i in 1 2 3; do timeout 180 /venv/bin/python OUT/demo.py > OUT/demo_without_$i.log 2>&1; [ $? -ne 0 ] && W0=$((W0+1)); done
git stash pop -q
printf '{"suite_exit": %s, "suite_line": "%s", "demo_fails_with_change": "%s/3", "demo_fails_without_change": "%s/3"}\n' "$S" "$SUITE_LINE" "$W1" "$W0" > OUT/confirm.json
cat OUT/confirm.json

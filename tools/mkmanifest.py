#!/usr/bin/env python3
"""writes MANIFEST.json from the table below (kept in one place so it stays valid)"""
import json, os
V = os.path.dirname(os.path.dirname(os.path.abspath(__file__)))
NOTE = ("Trusted: Coq 8.16.1 kernel + vm_compute; the py2v translator (validated each run by kernel differentials "
        "against the real functions); hand-written model skeletons (tied by generated kernels, structural Spec lemmas and "
        "correspondence runs); CPython/multiprocessing primitives. See DESIGN.md section 7 and the evidence file.")
CHECKS = {
 'C14': dict(text="Theorems over a model whose loop body is regenerated from utils.py on every run: partition for every "
             "arithmetic, exact sizes for int and exact-rational chunk sizes, min(n,s) chunks for n_splits, announced==produced "
             "for numpy. Tie: translator + bit-exact differential (Flocq binary64) against the real chunk_tasks on ~2300 "
             "(quick) cases, plus a direct property oracle on the implementation. The binary64 half of the size claims is "
             "covered by the bit-exact sweep and oracle only (partial).", ref="5/C14",
             technique="Coq proof (induction over the chunk recurrence) + source-to-Gallina translation + differential"),
}
CHECKS['C01'] = dict(text="Theorems over the Core model (all interleavings of main / results handler / restart handler / workers, "
  "guards regenerated from the source): a completed call delivers a permutation of the inputs, independent of every "
  "configuration parameter and schedule; chunks cover exactly the input prefix (C14); sorting index-tagged results gives "
  "input order. Tie: generated guards + Spec lemmas, every real worker instance's log replayed through Core.step, every "
  "add_task through the generated selection kernel, and an end-to-end differential against the sequential reference "
  "over structured scenarios (4 start methods, all element kinds, generators, ndarrays). Also proved: the imap reorder buffer "
  "(loop read off pool.imap) yields input order for EVERY arrival order (differential against the real loop), and, over the history "
  "model (apply_async included), every completed call runs with its own function. Partial: the argument-unpacking convention is "
  "a kernel + end-to-end runs; transport assumed value preserving.",
  ref="5/C01", technique="Coq proof (conservation invariant over all schedules) + trace conformance + differential")
CHECKS['C02'] = dict(text="Theorems over the Core model for all schedules and configurations: at every moment the execution log is a "
  "sub-multiset of the inputs (never more than once, also in calls cut short), and on completion it is a permutation of "
  "the inputs (exactly once), across lifespan restarts. Tie as for C01 plus the user function's own append-only "
  "invocation log (which records WHICH function was entered) compared as a multiset with the inputs on every run, also over "
  "histories on one pool (other functions, repeated calls, apply batches); history-model theorems: tasks run the call's own function, "
  "replacement instances get the same parameters.", ref="5/C02",
  technique="Coq proof (token conservation invariant) + trace conformance + invocation-log oracle")
CHECKS['C16'] = dict(text="Theorems: (Core, all schedules) with order_tasks the k-th add_task carries chunk k and goes to worker "
  "k mod n_jobs, and every task is executed by that worker, across lifespan restarts; (history model whose resets and "
  "assignments are read off pool.py/comms.py) every call numbers its chunks from 0 and uses the value last set by the "
  "constructor or the setter. Tie: selection kernel and reset/setter bodies regenerated from source, every observed "
  "add_task replayed through the kernel, end-to-end worker-id-per-task oracle over call histories on 4 start methods.",
  ref="5/C16", technique="Coq proof (routing invariant over all schedules + induction over call histories) + kernel replay + oracle")
CHECKS['C12'] = dict(text="Theorems (Core, all schedules): with lifespan L and chunks of at most cmax tasks every worker instance "
  "executes at most L+cmax-1 tasks and never has a chunk in progress once it completed L; the successor starts fresh in the "
  "same slot; results are a permutation of the inputs across restarts. Death-watch race model with one atomic step per "
  "read, read order generated from pool._unexpected_death_handler: no kill => the watch never fires, for every interleaving "
  "with exits and restarts (the pre-fix order is refuted by a concrete schedule). Tie: generated guards and read order, "
  "instance logs replayed through Core.step, per-(instance,call) task counts from the user function's log over single calls "
  "and keep-alive histories with changing lifespans, optional delays inside the watch.", ref="5/C12",
  technique="Coq proof (per-instance counting invariant; race model over generated read order) + trace conformance + oracle")
CHECKS['C11'] = dict(text="Theorems (Core, all schedules and configurations, non-empty chunks): when a call is done the event sequence "
  "of every worker instance is empty or init? task+ exit? (init/exit present iff configured; an instance that ran no task runs "
  "neither), replaced instances satisfy it at any moment, and exactly one exit result is received per worker_exit invocation. "
  "Tie: generated guards (lazy-init guard, exit-on-pill condition, loop guard), instance logs replayed through Core.step, and the "
  "user functions' own per-instance logs plus Counter(get_exit_results()) over single calls and keep-alive histories (idle kept-"
  "alive workers, changed parameters, big exit payloads).", ref="5/C11",
  technique="Coq proof (per-instance event-shape invariant over all schedules) + trace conformance + event-log oracle")
CHECKS['C10'] = dict(text="Theorems over a history model of the pool object whose every effect is switched by a fact read off "
  "pool.py/worker.py/params.py (structural kernels): for every history of calls, setters, keep_alive toggles and shutdowns each "
  "completed call runs with its own function, ordering mode, lifespan, timeout and the pool's current extras; workers are reused "
  "iff alive and unchanged; setters and missing keep_alive give fresh workers; __eq__ compares all fields. Tie: kernels + Spec "
  "lemmas; end-to-end histories on the real pool: results incl. shared objects in force, reuse/freshness from main's own log, "
  "worker_state private and preserved.", ref="5/C10",
  technique="Coq proof (induction over call histories, effects generated from source) + history oracle")
CHECKS['C06'] = dict(text="Also for an APPLY phase that fails through worker_init / worker_exit (HApplyFails step): the next call or apply_async cleans up first, every later history behaves as on a fresh pool (C06_post_apply_failure_fresh). Theorems over the history model (effects read off the source): right after ANY failed or cut-short call, for "
  "every history before and after, the pool is indistinguishable from a fresh pool with the same settings (no live workers, "
  "ordering flag cleared), so all later calls run with their own parameters and ordering mode. Tie: structural kernels of "
  "_handle_exception / terminate / map / imap / imap_unordered handlers + Spec lemmas; end-to-end histories in which calls fail "
  "by exception, timeout, SIGKILLed worker, nested-map misuse or are closed early, followed by calls whose results, ordering "
  "mode and fresh workers are checked. SIGINT as a failure cause is exercised under C17.", ref="5/C06",
  technique="Coq proof (bisimulation with a fresh pool over all histories, effects generated from source) + failure-history oracle")
CHECKS['C03'] = dict(text="Theorems (Core, every configuration: n_jobs>=1, non-empty chunks, any max_tasks_active incl. below the chunk "
  "size, lifespan>=1, order_tasks, init/exit): (1) deadlock-freedom -- every reachable state of every schedule is finished or "
  "has an enabled actor; (2) no livelock -- every enabled step strictly decreases a natural-number measure, so no schedule "
  "performs more than M(init) steps; (3) a fair round-robin schedule finishes the call within M(init)+1 rounds. Rests on a "
  "protocol invariant (hand-shake counters, joinable-queue counters, pill placement, tokens in flight) proved for every step. "
  "Tie: all guards regenerated from the source (dispatch waits, loop guard, restart condition, results hand-shake and its reset, "
  "iterator exhaustion), instance logs replayed through Core.step, watchdogged runs over stress configurations (hang = watchdog "
  "expires twice, with all thread stacks in the replay). The failure path is covered by the Fail model (C03_failing_call_terminates: "
  "a fair schedule ends with main returned or raised; waits of the dispatch loop and terminate's drain loop read off the source) "
  "and by failing calls with large queued arguments. Partial: apply, progress-bar hand-shake (C19), pipe capacity and fork are "
  "outside these models; they are exercised by the runs only.", ref="5/C03",
  technique="Coq proof (protocol invariant + progress + strictly decreasing measure, all schedules) + trace conformance + watchdog")
CHECKS['C13'] = dict(text="Theorems: the extras list worker._set_additional_args builds is worker id, shared objects, worker state in "
  "that order for all 8 subsets (kernel translated from the source); call-site facts read off the source (extras before task "
  "arguments; same list for init/task/exit; worker_state created empty with the instance); the unpacking convention kernel; "
  "(Core, all schedules) worker ids below n_jobs, and in the log of any worker id instance numbers never decrease -- an id is "
  "never held by two instances at once; successors start fresh. Tie: kernels, plus an end-to-end oracle on the user functions' own "
  "logs over all 8 subsets x setter/constructor x lifespans x map/apply x 4 start methods (ids, shared values, state privacy "
  "and persistence, non-overlap in time). Partial: Python object identity of worker_state is observed, not modelled.",
  ref="5/C13", technique="Coq proof (instance-order invariant over all schedules; kernel equalities) + argument-log oracle")
CHECKS['C09'] = dict(text="Theorems over the Apply model (every interleaving of submissions, per-worker FIFO execution, results-handler and "
  "timeout-handler steps; AsyncResult._set is the kernel translated from async_result.py): a ready job carries the value / exception "
  "/ TimeoutError of its own function, exactly one of callback / error_callback was invoked exactly once with it, nothing is "
  "invoked before; a failing or overrunning apply task never stops the pool; when nothing can move any more every job is ready. "
  "Tie: _set kernel + facts read off _run_safely; end-to-end submission batches (success / 3 exception shapes / timeouts, fetched "
  "before or after stop_and_join, extras). Partial: _set is one atomic step per object; the window in which results handler and "
  "timeout handler both fetch the object from the cache is not modelled (see DESIGN, adjacent finding D19).", ref="5/C09",
  technique="Coq proof (per-job invariant over all interleavings, _set translated from source) + submission-batch oracle")
CHECKS['C15'] = dict(text="Theorems (Core, all schedules, every max_tasks_active >= 1 incl. below the chunk size, any consumer pace): "
  "the input iterator is advanced only while the number of tasks handed out and not yet returned is at most the bound, so "
  "drawn-minus-delivered never exceeds max_tasks_active + the largest chunk (lookahead_bound), and main draws nothing while it is "
  "not being asked (generator protocol: dispatch happens inside next()). Tie: the pre-draw wait and dispatch guards regenerated "
  "from pool.py, instance logs replayed through Core.step, and counting wrappers around the input generator and the consumer "
  "loop on the real pool (fast / slow / bursty consumers, known and unknown length, 4 start methods).", ref="5/C15",
  technique="Coq proof (look-ahead invariant over all schedules, guards generated from source) + counting-wrapper oracle")
CHECKS['C04'] = dict(text="Theorems over the Fail model (every interleaving of workers whose user functions -- init / task / exit -- return, raise, "
  "block or kill their process, the results handler, the death watch, the timeout handler and main; the order of shared-object "
  "accesses in worker._raise, the death watch, the timeout handler and _handle_exception is read off the source): what main raises "
  "really occurred in this call; once a user function failed the call cannot return normally; no deadlock on the failure path; every "
  "schedule is bounded and a fair one ends with main raising an occurred failure; transport keeps class/args/attributes or yields "
  "CannotPickleExceptionError with the repr, traceback as cause. Tie: structural kernels + Spec lemmas; end-to-end: 11 exception "
  "shapes x positions x init/exit x use_dill x 4 start methods, the raised error matched against the user functions' own log of what "
  "they raised, transportability decided without mpire. Partial: the exception object itself (pickling) is abstracted to three "
  "picklability flags; latency is measured, not proved.", ref="5/C04",
  technique="Coq proof (genuineness + delivery invariants, progress, decreasing measure over all interleavings) + exception-shape oracle")
CHECKS['C07'] = dict(text="Theorems: (Fail model, all interleavings) a user function that kills its process in init / any task / exit leads, in "
  "every fair schedule, to main raising an occurred failure; never a normal return; no reachable state is stuck; a death is only "
  "reported for a worker that died; (Apply model extended with worker death, all interleavings) exactly the task the dead worker was "
  "running fails with its error callback once, every other job gets its own value, the pool is not stopped and once nothing can move "
  "every job is ready. The order 'store the error, then set the event' and 'apply: fail the job, restart the worker' are read off "
  "pool._unexpected_death_handler. Tie: structural kernels + Spec lemmas; end-to-end crash injection at every crash point class "
  "(init of first / later instance, task first / last / any, between tasks, exit, idle keep-alive, apply task) x victim x "
  "configuration, with feeder quiescence. Partial: process liveness and the OS are abstracted to the FKilled state; instants where "
  "the victim holds a cross-process lock are out of scope as the property says.", ref="5/C07",
  technique="Coq proof (failure-path invariants + progress over all interleavings; apply per-job invariant) + crash-point injection")
CHECKS['C08'] = dict(text="History model: the pool-side copy of the map parameters (read by the timeout handler) and the workers' copy agree after every history, so the init/exit timeout in force is the last call's. Theorems: the decision kernel comms._has_worker_timed_out is TRANSLATED from the source: fires iff the stamp is "
  "non-zero and now - stamp >= t; on ANY timeline of one worker slot on which each call completes in less than t -- arbitrary idle "
  "gaps, any number of calls / restarts / reuses, checks at any time -- no check fires (stamps set to now / cleared to 0 in a finally "
  "clause: facts read off worker.py and comms.py); (Fail model) an overrunning init / task / exit makes main raise a TimeoutError of a "
  "worker that really overran, in every fair schedule, however many workers block and for however long; (Apply model) only the "
  "overrunning task fails. Tie: kernel evaluated in Coq against the REAL function with the clock replaced; stamp setters run for real; "
  "end-to-end quiet histories (idle gaps > t, restarts, keep-alive, apply) and overrun scenarios (init|task|exit|apply x 1..n_jobs "
  "blocked x 10t..3600 s) with latency measured. Partial: wall-clock latency (handler period 0.1 s, signal delivery) is measured, not "
  "proved.", ref="5/C08",
  technique="Coq proof (translated kernel + timeline induction; failure-path model) + kernel differential + latency oracle")
CHECKS['C18'] = dict(text="Theorems: (Core, all schedules and configurations, restarts included) the per-worker completed-task counters -- "
  "incremented once per task right after the user function, read off worker._run_func -- have one entry per worker id and sum to the "
  "number of tasks executed so far, and to the number of tasks of the call when it is done; the top-5 selection of get_insights "
  "(argsort, last five reversed, break at 0, skip unsynced args: read off the source) returns at most five real (duration, args) slots in "
  "decreasing order with non-zero durations and non-empty argument strings; the five ratios (exact rationals) lie in [0,1] and sum to "
  "T/(T+1e-8). Tie: structural kernels + Spec lemmas; the REAL get_insights on random counter states against the Coq model (vm_compute) "
  "and an exact-fraction reference; end-to-end sums against the user function's own invocation log over keep-alive / non-keep-alive "
  "sequences, lifespans, numpy input, 4 start methods, {} when disabled. Partial: binary64 rounding of the ratios and the per-instance "
  "heapq bookkeeping (TimeIt) are covered by the differential and the oracle only; counters reset exactly when workers start is a "
  "source fact plus oracle.", ref="5/C18",
  technique="Coq proof (counting over all schedules; sorting / selection lemmas; rational arithmetic) + kernel differential + invocation-log oracle")
CHECKS['C19'] = dict(text="Theorems over the Progress model (every interleaving of task completions on any worker -- flushing or batching as the "
  "0.1 s interval decides --, forced flushes at poison pill / end of lifespan, and handler rounds bar += sum(counters) - bar; bodies read "
  "off comms.task_completed_progress_bar, get_tasks_completed_progress_bar and the handler loop): the displayed count never decreases, "
  "never exceeds the number of items really processed nor the total, and once all items are processed and every worker has flushed the "
  "next handler round shows exactly the total; a forced flush leaves nothing behind. Tie: structural kernels + Spec lemmas; the REAL "
  "task_completed_progress_bar with the clock replaced against the Coq kernel; end to end every update of the real bar object (all "
  "styles) recorded through the guarded hook over n incl. 0, sized / unsized / numpy inputs, lifespans, consecutive calls with and "
  "without keep_alive, 4 start methods. Partial: tqdm's rendering and the update_total path for unknown lengths are observed, not "
  "modelled; the tqdm lock restoration is checked under C05.", ref="5/C19",
  technique="Coq proof (counter invariant over all interleavings) + kernel differential + bar-update oracle")
CHECKS['C05'] = dict(text="Theorems: (shutdown ledger whose effects are read off pool.terminate / _stop_handler_threads / __exit__ / the "
  "exception handlers of imap_unordered) after terminate(), the end of the with-block, stop_and_join() without keep_alive, or any "
  "failing / interrupted map call -- after ANY history of pool operations -- no worker and no helper thread is left, hence repeating "
  "such cycles accumulates nothing; (handler-slot model of mpire/signal.py, bodies read off the source) every program of nested "
  "DelayedKeyboardInterrupt / DisableKeyboardInterruptSignal blocks, signal arrivals and exceptions leaves the SIGINT handler as it "
  "found it. Tie: structural kernels + Spec lemmas; end to end on the UNINSTRUMENTED library: processes running 3-4 pool life cycles "
  "twice, each pool left through a different exit cause (13 causes) x start methods x insights / progress bar / lifespan: children, "
  "helper threads, SIGINT handler, tqdm lock after every cycle; descriptors compared between the two passes. Partial: the ledger is a "
  "coarse abstraction (counts, not identities); processes, threads and descriptors themselves are observed, not modelled.", ref="5/C05",
  technique="Coq proof (ledger invariant over all operation histories; handler-slot restoration by induction over programs) + life-cycle leak oracle")
CHECKS['C17'] = dict(text="Theorems: (handler-slot model) a SIGINT is delivered at once, or deferred by DelayedKeyboardInterrupt and delivered "
  "exactly once when the block is left, or ignored while a worker is being forked -- the handler slot is restored in every case; "
  "(ledger) a KeyboardInterrupt that reaches a map call at any point goes through terminate() before it leaves the call, after which no "
  "worker and no helper thread is left; (routes) the try structure of imap_unordered is generated (every statement with the constructs "
  "around it, every try block with its handlers) and under Python's propagation rule EVERY statement from which a worker can be alive "
  "routes a KeyboardInterrupt through an unconditional terminate()/_handle_exception() before it leaves the call; workers are "
  "started/joined only from such statements; (Fail model) an interrupted call never returns a partial result. Tie: structural kernels "
  "(signal.py bodies, the three exception handlers of imap_unordered, worker SIG_IGN) + Spec lemmas; end to end: a recording run "
  "enumerates every point of the library at which CPython can run a signal handler in the main thread during a call (function entries, "
  "returns of C calls); SIGINT is delivered exactly there (setprofile injection, deterministic, replayable) and at random instants, to "
  "the process or its group: KeyboardInterrupt with nothing alive, or a complete correct result; no hang, no other exception, handler "
  "unchanged. Partial: delivery at backward jumps is only covered by the random instants; kept-alive pools are judged after leaving "
  "the pool (their workers outlive a call by design).", ref="5/C17",
  technique="Coq proof (handler-slot and ledger models, failure-path model) + exhaustive signal-point injection")
PENDING = {}
props = [json.loads(l) for l in open(os.path.join(V, 'properties.jsonl'))]
m = dict(version=1,
         setup_cmd="cd /verif && ./run.py setup",
         hooks=dict(guard="MPIRE_VERIF", enable="MPIRE_VERIF=1 MPIRE_VERIF_HOOK=mpire_verif_hook PYTHONPATH=/repo:/verif/harness (pure Python: no build step)",
                    baseline_off_cmd="cd /repo && env -u MPIRE_VERIF -u MPIRE_VERIF_HOOK /venv/bin/python -m pytest -ra -q -p no:cacheprovider --timeout=900 --continue-on-collection-errors",
                    source_commits=["f8feca1"], add_only=True),
         engines=[dict(name="coq-model", path="/verif/coq", serves_properties=sorted(CHECKS),
                       kind_free_text="Coq 8.16 development: kernels regenerated from the Python source, hand-written state-machine models, theorems; correspondence harness in /verif/harness")],
         checks=[], not_applicable=[],
         notes="Fix commits in /repo are listed in known_findings.json (status fixed). Every check regenerates coq/Gen from /repo's working tree.")
for p in props:
    i = p['id']
    if i in CHECKS:
        c = CHECKS[i]
        m['checks'].append(dict(property_id=i, quick_cmd=f"./run.py check {i} --tier quick",
                                thorough_cmd=f"./run.py check {i} --tier thorough",
                                evidence_file=f"/verif/evidence/{i}.json", replay_cmd_template="./run.py replay {path}",
                                engine="coq-model",
                                level_claimed=dict(category="proof", text=c['text'], design_ref=c['ref']),
                                level_note=NOTE, technique=c['technique']))
    else:
        m['not_applicable'].append(dict(property_id=i, reason=PENDING.get(i, "check not built yet in this round (model planned in DESIGN.md section 5); not claimed")))
json.dump(m, open(os.path.join(V, 'MANIFEST.json'), 'w'), indent=1)
print(len(m['checks']), 'checks')

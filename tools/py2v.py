#!/usr/bin/env python3
"""py2v -- fail-closed translator from a small, explicitly enumerated Python subset to Gallina.

Used by tools/kernels.py: each *kernel* names a function (or a statement range inside one) in
/repo/mpire/*.py, the Gallina signature it is to get, and the typing environment of the free
names.  Anything outside the enumerated subset raises TranslationError: generation then fails
and the checks that depend on the kernel report the obligation as broken (never a silent skip).

Subset
  expressions : int/bool/None literals, names, `self.attr`, + - * (int), / (true division, via
                numops), // % (int), comparisons (chains of length 1), and/or/not, `x is None`,
                `x is not None` (binds the unwrapped value to the right of `and` / in the
                matching branch of an `if`), conditional expressions, len/max/min/int,
                math.ceil, tuple construction, slices l[a:b] / l[:b] / l[a:], truthiness of
                lists, plus a per-kernel table mapping the *source text* of an opaque
                sub-expression to an input of the kernel.
  statements  : assignment / augmented assignment to locals and to declared `self.attr` state,
                tuple assignment, if/elif/else, return, raise, pass, `yield` (generator
                bodies), break/continue (loop bodies), plus per-kernel statement patterns
                (e.g. `x = tuple(itertools.islice(it, k))`).
A use of an Optional value where a number is required is translated to an explicit match whose
None branch is the Python TypeError (error result), never to a default value.
"""
import ast


class TranslationError(Exception):
    pass


class NeedUnwrap(Exception):
    def __init__(self, name):
        self.name = name


def src(node):
    return ast.unparse(node)


OPT = {'optZ': 'Z', 'optnum': 'num', 'optbool': 'bool'}


class Env:
    """name -> (gallina term, type).  Keys are Python names or dotted 'self.attr'."""

    def __init__(self, d=None):
        self.d = dict(d or {})

    def copy(self):
        return Env(self.d)

    def get(self, key):
        if key not in self.d:
            raise TranslationError(f"free name {key!r} is not declared for this kernel")
        return self.d[key]

    def set(self, key, term, ty):
        self.d[key] = (term, ty)


class Translator:
    def __init__(self, exprmap=None, stmtpats=None, numops='N'):
        self.exprmap = exprmap or {}     # source text -> (gallina term, type)
        self.stmtpats = stmtpats or []   # list of callables(stmt, env, tr) -> (prefix lines, env) | None
        self.N = numops

    # ------------------------------------------------------------------ expressions
    def coerce(self, t, ty, want):
        if ty == want:
            return t
        if ty == 'Z' and want == 'num':
            return f"(nofZ {self.N} {t})"
        raise TranslationError(f"cannot use a {ty} where a {want} is required: {t}")

    def value(self, node, env, want=None):
        """translate node as a non-optional value; raises NeedUnwrap for an Optional name."""
        t, ty = self.expr(node, env)
        if ty in OPT:
            if is_dotted(node):
                raise NeedUnwrap(src(node))
            raise TranslationError(f"Optional expression used as a value: {src(node)}")
        if want is not None:
            t = self.coerce(t, ty, want)
            ty = want
        return t, ty

    def truth(self, node, env):
        """translate node in boolean position (Python truthiness for the supported types)."""
        if src(node) in self.exprmap:
            t, ty = self.exprmap[src(node)]
            if ty == 'bool':
                return t
        if isinstance(node, ast.BoolOp):
            return self.boolop(node, env)
        if isinstance(node, ast.UnaryOp) and isinstance(node.op, ast.Not):
            return f"(negb {self.truth(node.operand, env)})"
        t, ty = self.expr(node, env)
        if ty == 'bool':
            return t
        if ty.startswith('list'):
            return f"(negb (zlen {t} =? 0))"
        if ty == 'Z':
            return f"(negb ({t} =? 0))"
        if ty in OPT and OPT[ty] != 'bool':
            # `if x:` on Optional[int]: None and 0 are both false
            if OPT[ty] == 'Z':
                return f"(match {t} with Some v_ => negb (v_ =? 0) | None => false end)"
        raise TranslationError(f"truthiness of a {ty} is not in the subset: {src(node)}")

    def is_none_test(self, node):
        """(name key, is_not) if node is `x is None` / `x is not None` for a name or self.attr."""
        if isinstance(node, ast.Compare) and len(node.ops) == 1 and isinstance(node.ops[0], (ast.Is, ast.IsNot)) \
                and isinstance(node.comparators[0], ast.Constant) and node.comparators[0].value is None:
            left = node.left
            if is_dotted(left):
                return src(left), isinstance(node.ops[0], ast.IsNot)
            raise TranslationError(f"`is None` on a non-name: {src(node)}")
        return None

    def boolop(self, node, env):
        is_and = isinstance(node.op, ast.And)
        return self.boolchain(node.values, env, is_and)

    def boolchain(self, values, env, is_and):
        if len(values) == 1:
            return self.truth(values[0], env)
        head, rest = values[0], values[1:]
        nt = self.is_none_test(head)
        if nt is not None:
            key, is_not = nt
            term, ty = env.get(key)
            if ty not in OPT:
                raise TranslationError(f"`is None` on non-Optional {key}")
            binds = (is_and and is_not) or ((not is_and) and (not is_not))
            if binds:
                env2 = env.copy()
                v = fresh(key)
                env2.set(key, v, OPT[ty])
                r = self.boolchain(rest, env2, is_and)
                if is_and:
                    return f"(match {term} with Some {v} => {r} | None => false end)"
                return f"(match {term} with Some {v} => {r} | None => true end)"
        h = self.truth(head, env)
        r = self.boolchain(rest, env, is_and)
        return f"({h} && {r})" if is_and else f"({h} || {r})"

    def expr(self, node, env):
        key = src(node)
        if key in self.exprmap:
            return self.exprmap[key]
        if isinstance(node, ast.Constant):
            v = node.value
            if v is True:
                return "true", 'bool'
            if v is False:
                return "false", 'bool'
            if v is None:
                return "None", 'none'
            if isinstance(v, int):
                return (f"{v}" if v >= 0 else f"({v})"), 'Z'
            raise TranslationError(f"literal not in subset: {v!r}")
        if isinstance(node, ast.Name):
            return env.get(node.id)
        if isinstance(node, ast.Attribute):
            if not is_dotted(node):
                raise TranslationError(f"attribute of a non-name: {src(node)}")
            return env.get(src(node))
        if isinstance(node, ast.BoolOp):
            return self.boolop(node, env), 'bool'
        if isinstance(node, ast.UnaryOp):
            if isinstance(node.op, ast.Not):
                return f"(negb {self.truth(node.operand, env)})", 'bool'
            if isinstance(node.op, ast.USub):
                t, ty = self.value(node.operand, env, 'Z')
                return f"(- {t})", 'Z'
            raise TranslationError(f"unary operator not in subset: {src(node)}")
        if isinstance(node, ast.IfExp):
            nt = self.is_none_test(node.test)
            if nt is not None and env.get(nt[0])[1] in OPT:
                key, is_not = nt
                term, ty = env.get(key)
                env2 = env.copy()
                v = fresh(key)
                env2.set(key, v, OPT[ty])
                some_e, none_e = (node.body, node.orelse) if is_not else (node.orelse, node.body)
                a, ta = self.expr(some_e, env2)
                b, tb = self.expr(none_e, env)
                a, b, rty = self.unify(a, ta, b, tb)
                return f"(match {term} with Some {v} => {a} | None => {b} end)", rty
            c = self.truth(node.test, env)
            a, ta = self.expr(node.body, env)
            b, tb = self.expr(node.orelse, env)
            a, b, ty = self.unify(a, ta, b, tb)
            return f"(if {c} then {a} else {b})", ty
        if isinstance(node, ast.Compare):
            return self.compare(node, env), 'bool'
        if isinstance(node, ast.BinOp):
            return self.binop(node, env)
        if isinstance(node, ast.Call):
            return self.call(node, env)
        if isinstance(node, ast.Tuple):
            parts = [self.expr(e, env) for e in node.elts]
            if any(ty in OPT for _, ty in parts):
                pass
            return "(" + ", ".join(t for t, _ in parts) + ")", 'tuple:' + ','.join(ty for _, ty in parts)
        if isinstance(node, ast.Subscript):
            return self.subscript(node, env)
        raise TranslationError(f"expression not in subset: {src(node)}")

    def unify(self, a, ta, b, tb):
        if ta == tb:
            return a, b, ta
        if ta == 'none' and tb in OPT:
            return a, b, tb
        if tb == 'none' and ta in OPT:
            return a, b, ta
        if ta == 'none' and tb in ('Z', 'num', 'bool'):
            return a, f"(Some {b})", 'opt' + tb
        if tb == 'none' and ta in ('Z', 'num', 'bool'):
            return f"(Some {a})", b, 'opt' + ta
        if {ta, tb} == {'Z', 'num'}:
            return self.coerce(a, ta, 'num'), self.coerce(b, tb, 'num'), 'num'
        raise TranslationError(f"branches of different types {ta} / {tb}")

    def compare(self, node, env):
        nt = self.is_none_test(node)
        if nt is not None:
            key, is_not = nt
            term, ty = env.get(key)
            if ty not in OPT:
                raise TranslationError(f"`is None` on non-Optional {key}")
            return (f"(match {term} with Some _ => true | None => false end)" if is_not
                    else f"(match {term} with Some _ => false | None => true end)")
        if len(node.ops) != 1:
            raise TranslationError(f"comparison chains are not in the subset: {src(node)}")
        op = node.ops[0]
        a, ta = self.value(node.left, env)
        b, tb = self.value(node.comparators[0], env)
        if ta == 'bool' and tb == 'bool' and isinstance(op, (ast.Eq, ast.NotEq)):
            r = f"(Bool.eqb {a} {b})"
            return r if isinstance(op, ast.Eq) else f"(negb {r})"
        if ta == 'Z' and tb == 'Z':
            tab = {ast.Lt: f"({a} <? {b})", ast.LtE: f"({a} <=? {b})", ast.Gt: f"({b} <? {a})",
                   ast.GtE: f"({b} <=? {a})", ast.Eq: f"({a} =? {b})", ast.NotEq: f"(negb ({a} =? {b}))"}
            if type(op) in tab:
                return tab[type(op)]
        raise TranslationError(f"comparison not in subset ({ta} vs {tb}): {src(node)}")

    def binop(self, node, env):
        a, ta = self.value(node.left, env)
        b, tb = self.value(node.right, env)
        op = node.op
        if ta == 'Z' and tb == 'Z':
            tab = {ast.Add: f"({a} + {b})", ast.Sub: f"({a} - {b})", ast.Mult: f"({a} * {b})",
                   ast.FloorDiv: f"({a} / {b})", ast.Mod: f"({a} mod {b})"}
            if type(op) in tab:
                return tab[type(op)], 'Z'
            if isinstance(op, ast.Div):
                return f"(ndivZ {self.N} {a} {b})", 'num'
        if 'num' in (ta, tb) and ta in ('Z', 'num') and tb in ('Z', 'num'):
            a = self.coerce(a, ta, 'num')
            b = self.coerce(b, tb, 'num')
            if isinstance(op, ast.Add):
                return f"(nadd {self.N} {a} {b})", 'num'
            if isinstance(op, ast.Sub):
                return f"(nsub {self.N} {a} {b})", 'num'
        raise TranslationError(f"binary operation not in subset ({ta}, {tb}): {src(node)}")

    def call(self, node, env):
        f = src(node.func)
        if node.keywords:
            raise TranslationError(f"keyword arguments are not in the subset: {src(node)}")
        if f == 'len' and len(node.args) == 1:
            t, ty = self.value(node.args[0], env)
            if not ty.startswith('list'):
                raise TranslationError(f"len of a {ty}: {src(node)}")
            return f"(zlen {t})", 'Z'
        if f in ('max', 'min') and len(node.args) == 2:
            a, ta = self.value(node.args[0], env, 'Z')
            b, tb = self.value(node.args[1], env, 'Z')
            return f"(Z.{f} {a} {b})", 'Z'
        if f == 'math.ceil' and len(node.args) == 1:
            t, ty = self.value(node.args[0], env)
            if ty == 'Z':
                return t, 'Z'
            if ty == 'num':
                return f"(nceil {self.N} {t})", 'Z'
        if f == 'int' and len(node.args) == 1:
            t, ty = self.value(node.args[0], env)
            if ty == 'Z':
                return t, 'Z'
        raise TranslationError(f"call not in subset: {src(node)}")

    def subscript(self, node, env):
        base, tb = self.value(node.value, env)
        sl = node.slice
        if tb == 'list' and isinstance(sl, ast.Slice) and sl.step is None:
            lo = self.value(sl.lower, env, 'Z')[0] if sl.lower is not None else None
            hi = self.value(sl.upper, env, 'Z')[0] if sl.upper is not None else None
            if lo is not None and hi is not None:
                return f"(pyslice {lo} {hi} {base})", 'list'
            if lo is None and hi is not None:
                return f"(pyslice_to {hi} {base})", 'list'
            if lo is not None and hi is None:
                return f"(pyslice_from {lo} {base})", 'list'
        raise TranslationError(f"subscript not in subset: {src(node)}")

    # ------------------------------------------------------------------ statements
    def block(self, stmts, env, k):
        """Translate a statement list.  k is the continuation object (see Kont)."""
        if not stmts:
            return k.fallthrough(env)
        s, rest = stmts[0], stmts[1:]
        while True:
            try:
                return self.stmt(s, rest, env, k)
            except NeedUnwrap as u:
                term, ty = env.get(u.name)
                if ty not in OPT:
                    raise TranslationError(f"internal: unwrap of non-Optional {u.name}")
                env2 = env.copy()
                v = fresh(u.name)
                env2.set(u.name, v, OPT[ty])
                body = self.block(stmts, env2, k)
                return f"match {term} with\n| Some {v} =>\n{indent(body)}\n| None => {k.error(env, 2)}\nend"

    def stmt(self, s, rest, env, k):
        for pat in self.stmtpats:
            r = pat(s, env, self)
            if r is not None:
                lines, env2 = r
                return "\n".join(lines) + "\n" + self.block(rest, env2, k)
        if isinstance(s, ast.Pass):
            return self.block(rest, env, k)
        if isinstance(s, ast.Expr) and isinstance(s.value, ast.Constant) and isinstance(s.value.value, str):
            return self.block(rest, env, k)      # docstring
        if isinstance(s, ast.Assign):
            if len(s.targets) != 1:
                raise TranslationError(f"multiple assignment targets: {src(s)}")
            return self.assign(s.targets[0], s.value, rest, env, k)
        if isinstance(s, ast.AugAssign):
            binop = ast.BinOp(left=target_as_load(s.target), op=s.op, right=s.value)
            return self.assign(s.target, binop, rest, env, k)
        if isinstance(s, ast.If):
            nt = self.is_none_test(s.test)
            if nt is not None:
                key, is_not = nt
                term, ty = env.get(key)
                if ty in OPT:
                    env_some = env.copy()
                    v = fresh(key)
                    env_some.set(key, v, OPT[ty])
                    some_branch = self.block((s.body if is_not else s.orelse) + rest, env_some, k)
                    none_branch = self.block((s.orelse if is_not else s.body) + rest, env, k)
                    return (f"match {term} with\n| Some {v} =>\n{indent(some_branch)}\n"
                            f"| None =>\n{indent(none_branch)}\nend")
            c = self.truth(s.test, env)
            a = self.block(s.body + rest, env, k)
            b = self.block(s.orelse + rest, env, k)
            return f"if {c} then\n{indent(a)}\nelse\n{indent(b)}"
        if isinstance(s, ast.Return):
            return k.ret(s.value, env, self)
        if isinstance(s, ast.Raise):
            return k.error(env, 1)
        if isinstance(s, ast.Expr) and isinstance(s.value, ast.Yield):
            t, ty = self.value(s.value.value, env)
            env2 = env.copy()
            o, _ = env.get('$outs')
            env2.set('$outs', 'outs_', 'outs')
            return f"let outs_ := {o} ++ [{t}] in\n" + self.block(rest, env2, k)
        if isinstance(s, ast.Break):
            return k.brk(env)
        if isinstance(s, ast.Continue):
            return k.fallthrough(env)
        raise TranslationError(f"statement not in subset: {src(s).splitlines()[0]}")

    def assign(self, target, value, rest, env, k):
        if isinstance(target, ast.Tuple):
            if not isinstance(value, ast.Tuple) or len(value.elts) != len(target.elts):
                raise TranslationError(f"tuple assignment needs a tuple of the same length: {src(target)}")
            # evaluate all right-hand sides first (Python semantics), then bind
            vals = [self.expr(e, env) for e in value.elts]
            lines = []
            env2 = env.copy()
            tmp = []
            for i, (t, ty) in enumerate(vals):
                lines.append(f"let tmp{i}_ := {t} in")
                tmp.append((f"tmp{i}_", ty))
            for tgt, (t, ty) in zip(target.elts, tmp):
                key, name = target_key(tgt)
                lines.append(f"let {name} := {t} in")
                env2.set(key, name, ty)
            return "\n".join(lines) + "\n" + self.block(rest, env2, k)
        key, name = target_key(target)
        t, ty = self.expr(value, env)
        if ty == 'none':
            # assigning None: keep the declared Optional type of the target
            old = env.d.get(key)
            if old is None or old[1] not in OPT:
                raise TranslationError(f"assignment of None to non-Optional {key}")
            ty = old[1]
        env2 = env.copy()
        env2.set(key, name, ty)
        return f"let {name} := {t} in\n" + self.block(rest, env2, k)


def state_tuple(state, env):
    """the loop-carried / object state as a Gallina tuple, each component at its declared type"""
    parts = []
    for key, want in state:
        t, ty = env.get(key)
        if ty == want:
            parts.append(t)
        elif want in OPT and ty == OPT[want]:
            parts.append(f"(Some {t})")
        elif want == 'num' and ty == 'Z':
            parts.append(f"(nofZ N {t})")
        else:
            raise TranslationError(f"state component {key} has type {ty}, declared {want}")
    return "(" + ", ".join(parts) + ")" if len(parts) != 1 else parts[0]


_counter = [0]


def fresh(key):
    return key.replace('.', '_')   # shadowing is intended: the unwrapped value takes the Python name


def is_dotted(node):
    while isinstance(node, ast.Attribute):
        node = node.value
    return isinstance(node, ast.Name)


def target_key(t):
    if isinstance(t, ast.Name):
        return t.id, t.id
    if isinstance(t, ast.Attribute) and is_dotted(t):
        return src(t), src(t).replace('.', '_')
    raise TranslationError(f"assignment target not in subset: {src(t)}")


def target_as_load(t):
    if isinstance(t, ast.Name):
        return ast.Name(id=t.id, ctx=ast.Load())
    if isinstance(t, ast.Attribute):
        return ast.Attribute(value=t.value, attr=t.attr, ctx=ast.Load())
    raise TranslationError(f"augmented assignment target not in subset: {src(t)}")


def indent(s, n=2):
    pad = ' ' * n
    return "\n".join(pad + l for l in s.split("\n"))


# ---------------------------------------------------------------------- continuations
class FunK:
    """Plain function: `return e` yields `Ok e` (or just e when total), raise yields Err."""

    def __init__(self, rtype, total=False, state=None):
        self.rtype, self.total, self.state = rtype, total, state or []

    def state_keys(self):
        return [k for k, _ in self.state]

    def wrap(self, t, env):
        if self.state:
            t = f"({t}, {state_tuple(self.state, env)})"
        return t if self.total else f"Ok {t}"

    def ret(self, value, env, tr):
        if value is None:
            if self.rtype != 'unit':
                raise TranslationError("bare return in a function with a result")
            return self.wrap("tt", env)
        if self.rtype.startswith('tuple:'):
            t, ty = tr.expr(value, env)
            want = self.rtype
            if ty != want:
                # coerce component-wise
                if not isinstance(value, ast.Tuple):
                    raise TranslationError(f"result type {ty} differs from declared {want}")
                wants = want[len('tuple:'):].split(',')
                parts = []
                for e, w in zip(value.elts, wants):
                    pt, pty = tr.expr(e, env)
                    if pty == w:
                        parts.append(pt)
                    elif w in OPT and pty == OPT[w]:
                        parts.append(f"(Some {pt})")
                    elif w in OPT and pty == 'none':
                        parts.append("None")
                    elif pty in OPT and OPT[pty] == w:
                        raise NeedUnwrap(e.id if isinstance(e, ast.Name) else src(e))
                    else:
                        parts.append(tr.coerce(pt, pty, w))
                t = "(" + ", ".join(parts) + ")"
            return self.wrap(t, env)
        if self.rtype == 'bool':
            return self.wrap(tr.truth(value, env), env)
        t, ty = tr.expr(value, env)
        if ty in OPT and self.rtype == OPT[ty]:
            t, ty = tr.value(value, env, self.rtype)
        elif ty == 'none' and self.rtype in OPT:
            pass
        elif self.rtype in OPT and ty == OPT[self.rtype]:
            t = f"(Some {t})"
        elif ty != self.rtype:
            t = tr.coerce(t, ty, self.rtype)
        return self.wrap(t, env)

    def fallthrough(self, env):
        if self.rtype == 'unit':
            return self.wrap("tt", env)
        raise TranslationError("control reaches the end of a function that must return a value")

    def error(self, env, code):
        if self.total:
            raise TranslationError("a kernel declared total can raise")
        return f"Err {code}"

    def brk(self, env):
        raise TranslationError("break outside a loop body")


class GenBodyK:
    """Body of `while True:` inside a generator.  Result: (outs, Continue st | Stop | Fail code)."""

    def __init__(self, state):
        self.state = state   # list of (python key, type)

    def state_keys(self):
        return [k for k, _ in self.state]

    def outs(self, env):
        return env.get('$outs')[0]

    def fallthrough(self, env):
        return f"({self.outs(env)}, Continue {state_tuple(self.state, env)})"

    def ret(self, value, env, tr):
        if value is not None:
            raise TranslationError("return with a value inside a generator body")
        return f"({self.outs(env)}, Stop)"

    def brk(self, env):
        return f"({self.outs(env)}, Stop)"

    def error(self, env, code):
        return f"({self.outs(env)}, Fail {code})"


# ---------------------------------------------------------------------- source access
def find_function(tree, qualname):
    parts = qualname.split('.')
    body = tree.body
    node = None
    for p in parts:
        node = None
        for n in body:
            if isinstance(n, (ast.FunctionDef, ast.ClassDef)) and n.name == p:
                node = n
                break
        if node is None:
            raise TranslationError(f"{qualname}: {p!r} not found")
        body = node.body
    if not isinstance(node, ast.FunctionDef):
        raise TranslationError(f"{qualname} is not a function")
    return node


def strip_doc(stmts):
    if stmts and isinstance(stmts[0], ast.Expr) and isinstance(stmts[0].value, ast.Constant) \
            and isinstance(stmts[0].value.value, str):
        return stmts[1:]
    return stmts


def split_at_while_true(stmts):
    """(prefix, loop body, suffix) around the first top-level `while True:`."""
    for i, s in enumerate(stmts):
        if isinstance(s, ast.While) and isinstance(s.test, ast.Constant) and s.test.value is True:
            if s.orelse:
                raise TranslationError("while/else is not in the subset")
            return stmts[:i], s.body, stmts[i + 1:]
    raise TranslationError("no `while True:` found")

#!/bin/sh
# try_mut.sh <patch> <PROP> : apply the patch to /repo, run the quick check, revert; print VIOLATION lines and replay summaries
P=$1; ID=$2
cd /repo && git apply "$P" || exit 2
cd /verif && rm -rf replays && ./run.py check $ID > /tmp/try_$ID.log 2>&1; RC=$?
cd /repo && git checkout -- . 
cd /verif; python3 tools/kernels.py /repo coq/Gen >/dev/null; echo "exit=$RC"; grep -c VIOLATION /tmp/try_$ID.log; tail -1 /tmp/try_$ID.log
python3 - <<PY
import json,glob
for f in sorted(glob.glob('/verif/replays/$ID*'))[:4]:
    d=json.load(open(f)); print(' ', (d.get('got') or d.get('obligation') or '')[:300])
PY
rm -rf /verif/replays
